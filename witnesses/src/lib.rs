//! S4 type-level witnesses for C06: code outside the crate can neither forge nor mutate a `Board`.
//! Each `compile_fail` test has a compiling twin (`no_run`) that differs only by the offending
//! line, so a witness whose path is merely wrong cannot pass.  Nothing here is executed.

/// A `Board` cannot be built with a struct literal: its fields are private.
/// ```compile_fail,E0451
/// use cozy_chess::*;
/// let b = Board::default();
/// let forged = Board { halfmove_clock: 200, ..b };
/// ```
/// Twin: the same program without the literal compiles.
/// ```no_run
/// use cozy_chess::*;
/// let b = Board::default();
/// let copy = b.clone();
/// let _ = copy;
/// ```
pub struct NoStructLiteral;

/// A `Board`'s clock cannot be written directly.
/// ```compile_fail,E0616
/// use cozy_chess::*;
/// let mut b = Board::default();
/// b.halfmove_clock = 200;
/// ```
/// Twin: going through the asserting setter compiles.
/// ```no_run
/// use cozy_chess::*;
/// let mut b = Board::default();
/// b.set_halfmove_clock(50);
/// ```
pub struct NoClockWrite;

/// The tracked checker set cannot be written.
/// ```compile_fail,E0616
/// use cozy_chess::*;
/// let mut b = Board::default();
/// b.checkers = BitBoard::EMPTY;
/// ```
/// Twin: reading it through the getter compiles.
/// ```no_run
/// use cozy_chess::*;
/// let b = Board::default();
/// let _ = b.checkers();
/// ```
pub struct NoCheckersWrite;

/// The inner position state (and with it the hash) is unreachable.
/// ```compile_fail,E0616
/// use cozy_chess::*;
/// let mut b = Board::default();
/// let _ = &mut b.inner;
/// ```
/// Twin.
/// ```no_run
/// use cozy_chess::*;
/// let b = Board::default();
/// let _ = b.hash();
/// ```
pub struct NoInnerAccess;

/// The position writers are not nameable from outside (the module is private).
/// ```compile_fail,E0603
/// use cozy_chess::*;
/// let _z = cozy_chess::board::zobrist::ZobristBoard::empty();
/// ```
/// Twin.
/// ```no_run
/// use cozy_chess::*;
/// let _b = BoardBuilder::empty();
/// ```
pub struct NoWriterAccess;
