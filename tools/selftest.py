#!/usr/bin/env python3
"""Two-sided test of the checkers themselves.

  * every breaking change on file (hand mutants, defect reversals, sub-agent seeds) must be reported by the
    check of the property it breaks (exit 1 with a VIOLATION line);
  * every behaviour-preserving refactor on file must leave all twenty checks silent;
  * the unchanged tree must be silent.

Each patch is applied to /repo, the checks are run, and the patch is undone straight afterwards.
Usage: tools/selftest.py [--only mutants|seeds|refactors|clean] [--jobs N] [name-substring ...]
Writes /verif/selftest.log (one line per case) and exits non-zero on any miss / false alarm."""
import json
import re
import os
import subprocess
import sys
import time

V = "/verif"
REPO = "/repo"
ALL = ["C%02d" % i for i in range(1, 21)]
# defect reversals: which property the reverted fix belongs to
DEFECT = {"d1": "C19", "d2": "C19", "d3": "C08", "d4": "C08", "d5": "C06", "d6": "C17", "d7": "C09", "d8": "C13"}
# mutants whose name prefix is not the property to ask
EXPECT_OVERRIDE = {"c06_pub_field": None,          # does not compile (deny(missing_docs)) : not a realistic change
                   "ok_refactor_movegen": "SILENT"}


def sh(cmd, **kw):
    return subprocess.run(cmd, shell=True, stdout=subprocess.PIPE, stderr=subprocess.STDOUT, text=True, **kw)


def clean_repo():
    sh("git -C %s checkout -- ." % REPO)
    r = sh("git -C %s status --porcelain" % REPO)
    return r.stdout.strip() == ""


def run_checks(ids):
    res = {}
    for i in ids:
        r = sh("cd %s && ./check %s" % (V, i))
        nv = sum(1 for l in r.stdout.splitlines() if l.startswith("VIOLATION"))
        res[i] = (r.returncode, nv, [l for l in r.stdout.splitlines() if l.startswith("  ") and ":" in l][:0])
    return res


def apply(patch):
    r = sh("git -C %s apply %s" % (REPO, patch))
    return r.returncode == 0


def run_case_in(wt, case):
    """one case in a scratch worktree of /repo (parallel mode): the checks read that tree through CVA_REPO and write
    their evidence to a throw-away directory"""
    name, patch, exp = case
    sh("git -C %s checkout -q -- . && git -C %s clean -fdq" % (wt, wt))          # (a refactor may add files)
    if patch and sh("git -C %s apply %s" % (wt, patch)).returncode != 0:
        return name, exp, None
    ids = ALL if exp == "SILENT" else [exp]
    env = dict(os.environ, CVA_REPO=wt, CVA_EVIDENCE_DIR=wt + ".evidence", CVA_CACHE_KEEP="80")
    res = {}
    for i in ids:
        r = sh("cd %s && ./check %s" % (V, i), env=env)
        nv = sum(1 for l in r.stdout.splitlines() if l.startswith("VIOLATION"))
        res[i] = (r.returncode, nv, [])
    sh("git -C %s checkout -q -- ." % wt)
    return name, exp, res


def verdict(name, exp, res):
    """-> (line, bad)"""
    if res is None:
        return "%-40s PATCH-DOES-NOT-APPLY" % name, 1
    if exp == "SILENT":
        noisy = {i: r for i, r in res.items() if r[0] != 0 or r[1]}
        if noisy:
            return "%-40s FALSE-ALARM %s" % (name, " ".join("%s(%d)" % (i, r[1]) for i, r in sorted(noisy.items()))), 1
        return "%-40s silent on %d checks" % (name, len(res)), 0
    rc, nv, _ = res[exp]
    if rc == 1 and nv > 0:
        return "%-40s caught by %s (%d)" % (name, exp, nv), 0
    return "%-40s MISSED by %s (exit %d, %d violations)" % (name, exp, rc, nv), 1


def run_parallel(cases, jobs):
    import concurrent.futures, shutil, tempfile
    base = tempfile.mkdtemp(prefix="cva-selftest-")
    wts = []
    for k in range(jobs):
        wt = os.path.join(base, "w%d" % k)
        if sh("git -C %s worktree add --detach %s HEAD -q" % (REPO, wt)).returncode != 0:
            print("cannot create scratch worktree", wt)
            return None
        os.makedirs(wt + ".evidence", exist_ok=True)
        wts.append(wt)
    import queue
    free = queue.Queue()
    for w in wts:
        free.put(w)

    def work(case):
        w = free.get()
        try:
            return run_case_in(w, case)
        finally:
            free.put(w)
    out = {}
    try:
        # long cases (all twenty checks) first
        order = sorted(cases, key=lambda c: 0 if c[2] == "SILENT" else 1)
        with concurrent.futures.ThreadPoolExecutor(max_workers=jobs) as ex:
            for name, exp, res in ex.map(work, order):
                line, b = verdict(name, exp, res)
                print(line, flush=True)
                out[name] = (line, b)
    finally:
        for w in wts:
            sh("git -C %s worktree remove --force %s" % (REPO, w))
        shutil.rmtree(base, ignore_errors=True)
        sh("git -C %s worktree prune" % REPO)
    return out


def main():
    args = sys.argv[1:]
    only = None
    if "--only" in args:
        i = args.index("--only")
        only = args[i + 1]
        del args[i:i + 2]
    jobs = 1
    if "--jobs" in args:
        i = args.index("--jobs")
        jobs = int(args[i + 1])
        del args[i:i + 2]
    subs = args
    cases = []
    if only in (None, "clean"):
        cases.append(("clean", None, "SILENT"))
    if only in (None, "mutants"):
        for n in sorted(os.listdir(V + "/mutants")):
            if not n.endswith(".diff"):
                continue
            base = n[:-5]
            exp = EXPECT_OVERRIDE.get(base, "?")
            if exp is None:
                continue
            if exp == "?":
                pre = base.split("_")[0]
                m_ = re.search(r"(?:^|_)c(\d\d)(?:_|$)", base)
                # rN_cMM_*: a mutation applied on top of refactor RN (detection must survive the refactored form)
                exp = DEFECT.get(pre) or ("C" + m_.group(1) if m_ else pre.upper())
            cases.append(("mutant:" + base, V + "/mutants/" + n, exp))
    if only in (None, "seeds"):
        for n in sorted(os.listdir(V + "/seeded")):
            pth = "%s/seeded/%s/patch.diff" % (V, n)
            if os.path.exists(pth):
                cases.append(("seed:" + n, pth, n.split("-")[-1]))
    if only in (None, "refactors"):
        for n in sorted(os.listdir(V + "/refactors")):
            if n.endswith(".diff"):
                cases.append(("refactor:" + n[:-5], V + "/refactors/" + n, "SILENT"))
    if subs:
        cases = [c for c in cases if any(s in c[0] for s in subs)]
    if not clean_repo():
        print("/repo has local changes that checkout does not undo; refusing")
        return 2
    bad = 0
    log = []
    t0 = time.time()
    if jobs > 1:
        out = run_parallel(cases, jobs)
        if out is None:
            return 2
        for name, patch, exp in cases:
            line, b = out[name]
            log.append(line)
            bad += b
        cases_done = cases
        cases = []
    for name, patch, exp in cases:
        if patch and not apply(patch):
            line = "%-40s PATCH-DOES-NOT-APPLY" % name
            bad += 1
        else:
            ids = ALL if exp == "SILENT" else [exp]
            res = run_checks(ids)
            clean_repo()
            if exp == "SILENT":
                noisy = {i: r for i, r in res.items() if r[0] != 0 or r[1]}
                if noisy:
                    bad += 1
                    line = "%-40s FALSE-ALARM %s" % (name, " ".join("%s(%d)" % (i, r[1]) for i, r in sorted(noisy.items())))
                else:
                    line = "%-40s silent on %d checks" % (name, len(ids))
            else:
                rc, nv, _ = res[exp]
                if rc == 1 and nv > 0:
                    line = "%-40s caught by %s (%d)" % (name, exp, nv)
                else:
                    bad += 1
                    line = "%-40s MISSED by %s (exit %d, %d violations)" % (name, exp, rc, nv)
        print(line, flush=True)
        log.append(line)
    clean_repo()
    if jobs > 1:
        cases = cases_done
    log.append("cases=%d bad=%d seconds=%d" % (len(cases), bad, time.time() - t0))
    print(log[-1])
    if not subs and only is None:
        with open(V + "/selftest.log", "w") as fh:
            fh.write("\n".join(log) + "\n")
    return 1 if bad else 0


if __name__ == "__main__":
    sys.exit(main())
