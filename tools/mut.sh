#!/bin/bash
# mut.sh <patch.diff> <property-id>... : run checks against /repo with the patch applied, then undo it.
P=$(readlink -f "$1"); shift
cd /repo || exit 2
if ! git diff --quiet; then echo "/repo has local changes; refusing"; exit 2; fi
git apply "$P" || { echo "patch does not apply"; exit 2; }
cd /verif
rc=0
for id in "$@"; do
  ./check "$id" --tier "${TIER:-quick}" > /tmp/mut.$id.out 2>&1; r=$?
  n=$(grep -c '^VIOLATION' /tmp/mut.$id.out)
  echo "$id exit=$r violations=$n"
  grep -B1 '^VIOLATION' /tmp/mut.$id.out | grep -v '^VIOLATION' | grep -v '^--' | cut -c1-400 | head -${SHOW:-4}
done
git -C /repo checkout -- .
