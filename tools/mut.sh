#!/bin/bash
# mut.sh <patch.diff> <property-id>... : run checks against /repo with the patch applied, then undo it.
# With MUT_WT=<scratch worktree of /repo> the patch is applied there instead and the checks read that tree (CVA_REPO),
# writing their evidence to a throw-away directory; several such runs can go on side by side.
P=$(readlink -f "$1"); shift
T=${MUT_WT:-/repo}
O=${MUT_OUT:-/tmp}
cd $T || exit 2
if ! git diff --quiet; then echo "$T has local changes; refusing"; exit 2; fi
git apply "$P" || { echo "patch does not apply"; exit 2; }
cd /verif
rc=0
for id in "$@"; do
  if [ "$T" = /repo ]; then
    ./check "$id" --tier "${TIER:-quick}" > $O/mut.$id.out 2>&1; r=$?
  else
    CVA_REPO=$T CVA_EVIDENCE_DIR=$O/evidence ./check "$id" --tier "${TIER:-quick}" > $O/mut.$id.out 2>&1; r=$?
  fi
  n=$(grep -c '^VIOLATION' $O/mut.$id.out)
  echo "$id exit=$r violations=$n"
  grep -B1 '^VIOLATION' $O/mut.$id.out | grep -v '^VIOLATION' | grep -v '^--' | cut -c1-400 | head -${SHOW:-4}
done
git -C $T checkout -- .
