#!/bin/bash
# confirm_seed.sh <worktree> : re-verify a seeded change independently of the sub-agent's report.
# (1) patch applies to a clean checkout and the workspace tests pass with it
# (2) demo fails with the patch   (3) demo passes without it.  Leaves the worktree clean.
set -u
WT=$1
cd "$WT" || exit 2
export CARGO_NET_OFFLINE=true
OUT=$WT/CONFIRM.txt
: > "$OUT"
git checkout -q -- cozy-chess types 2>/dev/null
git apply --check patch.diff || { echo "patch does not apply" >> "$OUT"; exit 1; }
# (3) demo on the original
( cd demo && cargo run --offline -q >/dev/null 2>&1 ); echo "demo_without_patch_exit=$?" >> "$OUT"
git apply patch.diff
( cd demo && cargo run --offline -q >/dev/null 2>&1 ); echo "demo_with_patch_exit=$?" >> "$OUT"
cargo test --workspace --offline --lib 2>&1 | grep -E "^test result" | head -1 >> "$OUT"
git checkout -q -- cozy-chess types
cat "$OUT"
