#!/bin/bash
# copy finished round-11 refactor deliverables from /tmp/wt15 into /verif/refactors/
for d in /tmp/wt15/R*; do
  [ -d "$d" ] || continue
  n=$(basename $d)
  if [ -f $d/patch.diff ] && [ -f $d/NOTES.md ] && [ ! -f /verif/refactors/$n.diff ]; then
    cp $d/patch.diff /verif/refactors/$n.diff; cp $d/NOTES.md /verif/refactors/$n.NOTES.md; echo "collected $n"
  fi
done
