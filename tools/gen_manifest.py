#!/usr/bin/env python3
"""Regenerate /verif/MANIFEST.json from the claims table below (keeps it schema-valid)."""
import json, os, sys
HERE = os.path.dirname(os.path.dirname(os.path.abspath(__file__)))
sys.path.insert(0, HERE)
from tools.claims import CLAIMS, NOT_BUILT_REASON

props = [json.loads(l) for l in open(os.path.join(HERE, "properties.jsonl"))]
checks, na = [], []
for p in props:
    pid = p["id"]
    c = CLAIMS.get(pid)
    if not c or not os.path.exists(os.path.join(HERE, "cva", "rules", pid.lower() + ".py")):
        na.append({"property_id": pid, "reason": (c or {}).get("na_reason", NOT_BUILT_REASON)})
        continue
    checks.append({
        "property_id": pid,
        "quick_cmd": "./check %s --tier quick" % pid,
        "thorough_cmd": "./check %s --tier thorough" % pid,
        "evidence_file": "/verif/evidence/%s.json" % pid,
        "replay_cmd_template": "./check %s --explain {path}" % pid,
        "engine": "cva",
        "level_claimed": {"category": c["level"], "text": c["text"], "design_ref": "DESIGN.md section 3, " + pid},
        "level_note": c["note"],
        "technique": c["technique"],
    })
m = {
    "version": 1,
    "setup_cmd": "cd /verif/driver && CARGO_NET_OFFLINE=true cargo build --release --offline",
    "hooks": {
        "guard": "none",
        "enable": "no hooks: the checks analyse /repo's unmodified source through a rustc_private driver (RUSTC_WORKSPACE_WRAPPER); nothing in /repo is instrumented",
        "baseline_off_cmd": "cd /repo && cargo test --workspace --no-fail-fast --offline --lib",
        "source_commits": [],
        "add_only": True,
    },
    "engines": [
        {"name": "mirfacts", "path": "/verif/driver", "serves_properties": [c["property_id"] for c in checks],
         "kind_free_text": "rustc_private driver dumping resolved MIR, ADT definitions and const-evaluated tables of /repo's working tree (4 configurations)"},
        {"name": "cva", "path": "/verif/cva", "serves_properties": [c["property_id"] for c in checks],
         "kind_free_text": "python3 stdlib static-analysis engine: MIR desugaring of iterator/Option combinators, CFG/dominators, symbolic path enumeration over MIR, set-algebra equivalence, interval and bit-function abstract interpretation, constant-table audits"},
    ],
    "checks": checks,
    "not_applicable": na,
    "notes": "Static analysis only. Quick tier: default build configuration (C19 also overflow-checks off). Thorough tier: the same rules on all four build configurations (default; overflow-checks and debug assertions off; PEXT slider back end; std feature) plus the compile_fail witnesses of C06. tools/selftest.py replays the mutant/seed/refactor matrix. Every check re-extracts facts from /repo's current working tree (content-hashed cache under /verif/.cache). Repairs of the eight genuine defects found are 'fix:' commits in /repo, listed in known_findings.txt.",
}
json.dump(m, open(os.path.join(HERE, "MANIFEST.json"), "w"), indent=1)
print("claimed:", [c["property_id"] for c in checks])
print("not_applicable:", [x["property_id"] for x in na])
