NOT_BUILT_REASON = "static rules for this property are not built yet in this snapshot of /verif (planned in DESIGN.md section 3); not claimed until they exist"
CLAIMS = {
 "C15": dict(level="other",
    text="All CFG paths of try_play and play are enumerated symbolically over the compiler's MIR: the unchecked play is reached only under is_legal(self, mv) = true on the same operands, the Err path performs no write through self and lends it to nothing mutably, play diverges exactly on the Err result. This is the complete structural content of the property; what 'legal' means is C04.",
    note="Trusts rustc's MIR and callee resolution; is_legal's own correctness is C04's claim, play_unchecked's is C02's.",
    technique="static analysis: symbolic path enumeration over resolved MIR (dominance of the guard, write-freedom of the Err path)"),
}
