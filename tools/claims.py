NOT_BUILT_REASON = "static rules for this property are not built yet in this snapshot of /verif (planned in DESIGN.md section 3); not claimed until they exist"
CLAIMS = {
 "C15": dict(level="other",
    text="All CFG paths of try_play and play are enumerated symbolically over the compiler's MIR: the unchecked play is reached only under is_legal(self, mv) = true on the same operands, the Err path performs no write through self and lends it to nothing mutably, play diverges exactly on the Err result. This is the complete structural content of the property; what 'legal' means is C04.",
    note="Trusts rustc's MIR and callee resolution; is_legal's own correctness is C04's claim, play_unchecked's is C02's.",
    technique="static analysis: symbolic path enumeration over resolved MIR (dominance of the guard, write-freedom of the Err path)"),

 "C05": dict(level="proof",
    text="Complete over its domain: every cell of the seven geometry tables (8576 cells, as const-evaluated by rustc) equals an independent geometric definition and every accessor is shown to be a pure index of that table; the slider index expression reconstructed from the MIR of the active back end is evaluated over all 107648 (square, relevant-subset) pairs, stays in bounds and selects the ray-walk result, and a known-bits abstract evaluation shows occupancy bits outside the relevance mask cannot influence it (hence all 2^64 occupancies); pawn pushes are proved per (square, colour) with all but the two relevant occupancy bits unknown. Thorough repeats the slider audit for the PEXT back end.",
    note="Trusts rustc const evaluation, cargo's run of build.rs for the generated table, the _pext_u64 model, and cva/geom.py as the definition. The *_const walkers are covered through the tables they generate plus a direction-set check, not symbolically for every occupancy.",
    technique="static analysis: constant-table audit against geometric definitions + MIR conformance of accessors + known-bits abstract interpretation"),
 "C10": dict(level="other",
    text="Closed writer set (who-may-write over all MIR bodies, private fields, no &mut handed out) plus a per-path symbolic lock-step proof for every writer of the position state: each state change XORs exactly the keys of the features it removes and adds, from one table per feature kind; hash getters read only the hash (and the en-passant key). Purity over all histories then follows by induction over writer calls, which is argued, not mechanised.",
    note="Trusts MIR/callee resolution and the symbolic executor; the inductive step from per-writer preservation to arbitrary histories is a written argument.",
    technique="static analysis: who-may-write rule + symbolic execution of every writer path (state change vs key XOR multiset)"),
 "C11": dict(level="proof",
    text="Exactly the property's equivalent formulation is decided: the 793 feature keys (tables discovered from the writers, values as const-evaluated by rustc) have no vanishing XOR of 1..4 distinct keys (all 314028 pair XORs hashed), and each key-table dimension is indexed by a direct cast of a distinct enum parameter whose variant count equals the array length.",
    note="Trusts rustc const evaluation of the key constant and C10's lock-step result that features map to keys as assumed.",
    technique="static analysis: exhaustive XOR-independence audit of compile-time constants + index-provenance rule on the writers' MIR"),

 "C01": dict(level="other",
    text="Every generator is executed symbolically on all paths (both IN_CHECK values, three slider instances) and each batch handed to the listener -- origin set, destination set, delivery guard -- is compared with a rules-of-chess specification by Boolean equivalence over set atoms; dispatch on the checker count, roster, king safety (all five attacker kinds, own king lifted), castling preconditions and their FIDE sets for every Chess960 geometry, and a panic audit of the whole generation path are decided the same way. These are necessary conditions: the exact legal-move set also needs the invariants of C03/C06 and the tables of C05, and that composition is argued, not mechanised.",
    note="Spec written in cva/rules/movegen.py is the trusted definition; atoms of the set algebra are treated as independent (sound for proving equality).",
    technique="static analysis: symbolic execution of MIR + Boolean set-algebra equivalence against a specification; interval-based panic audit"),
 "C16": dict(level="other",
    text="Mask threading (mask is a conjunct of every origin set), the abort contract (every listener result branched on, true returns true with no further call, on all paths), non-empty batches (dominating emptiness test of the delivered set) and the loop structure behind the 18-batch bound are decided on all paths of all generator instances; exactness of the move set is C01's.",
    note="The numeric bound 18 additionally uses <=16 pieces per side (C06) and <=2 squares per pawn-attack set (C05).",
    technique="static analysis: symbolic path enumeration over generator MIR (must-test/abort-edge rule, set-algebra subset/disjointness)"),
}
