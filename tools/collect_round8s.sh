#!/bin/bash
# copy finished round-8 sub-agent seeds from /tmp/wt14 into /verif/seeded/agent8-CNN/
for d in /tmp/wt14/C??; do
  [ -d "$d" ] || continue
  n=$(basename $d)
  t=/verif/seeded/agent8-$n
  if [ -f $d/patch.diff ] && [ -f $d/NOTES.md ] && [ -d $d/demo ] && [ ! -d $t ]; then
    mkdir -p $t; cp $d/patch.diff $d/NOTES.md $t/; rsync -a --exclude target --exclude Cargo.lock $d/demo $t/; echo "collected seed $n"
  fi
done
