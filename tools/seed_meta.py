#!/usr/bin/env python3
"""Write seeded/agent-CNN/meta.json from the sub-agent's notes, the independent confirmation log and a
fresh run of the checks against the patched tree (tools/mut.sh)."""
import json, os, re, subprocess, sys
HERE = os.path.dirname(os.path.dirname(os.path.abspath(__file__)))
NEEDS = {
 "C01": "a history: a second rook reaches a castling file off the back rank and moves, then the side castles (ply 7+)",
 "C02": "a rook that is not the castling rook moves along/from the file of a right its side still holds",
 "C03": "null move made while the pinned set is non-empty and the new mover's king has no aligned enemy slider",
 "C04": "single check plus a pinned non-pawn piece that could capture the checker or interpose",
 "C05": "a look-up with from == to (never issued by the library itself)",
 "C06": "a double pawn push that uncovers a slider check through the pawn's origin square, then re-entry as text/builder",
 "C07": "a null move with a lone own-colour blocker between the passer's slider and the enemy king, then a FEN round trip",
 "C08": "Shredder-FEN castling field naming two different rooks on the same wing of one colour",
 "C09": "a builder state with exactly three checkers on the side to move",
 "C10": "a double pawn push answered immediately by a double push on a different file",
 "C11": "two boards differing only in the en-passant file",
 "C12": "not in check, king and unpinned pieces stuck, a pinned slider can still move along its pin",
 "C13": "two capturers for one en-passant file, the lower one pinned on its file",
 "C14": "null move with an enemy piece among the blockers between an enemy slider and the next mover's king",
 "C16": "a slider pinned on a line it cannot move along, with pseudo-legal moves off that line, mover not in check",
 "C17": "a hand-built pawn batch mixing promotion and non-promotion destinations",
 "C18": "iter_subsets() of the empty bitboard",
 "C19": "a move string whose byte 4 falls inside a multi-byte character",
 "C20": "a non-king piece moving along its own rank onto the long-castling rook's file while the right exists",
}
NEEDS2 = {
 "C01": "a null move with one own piece and at least one enemy piece between an enemy slider and the new mover's king, then generation",
 "C02": "castling with the king on the d- or f-file so that the rook's destination is the king's origin square",
 "C03": "a move giving double check while a further aligned slider (later in scan order) pins a piece",
 "C04": "a Chess960 castle whose rook stands right next to the king (the castle is a one-square step onto an own piece)",
 "C05": "a const slider look-up whose occupancy contains the slider's own square",
 "C06": "a castling right naming a back-rank square that holds an enemy rook",
 "C07": "a double pawn push that uncovers a slider check, then formatting and re-parsing the reached board",
 "C08": "str::parse of a record with standard castling letters and exactly one bad later field",
 "C09": "a builder state with a castling right stored on the wrong side of the king (rook really there)",
 "C10": "a null move made while an en-passant file is pending",
 "C11": "a double pawn push answered by a double push on a different file (the new file's key is never added)",
 "C12": "half-move clock 100, side to move in check but not mated",
 "C13": "side to move in check from the pawn that just advanced two squares, en-passant capture available",
 "C14": "double push answered by a double push on another file, then a null move",
 "C15": "side to move in check from the pawn that just advanced two squares; try_play of the en-passant capture",
 "C16": "all 16 pieces movable, two en-passant capturers, not in check, a king step and a legal castle (19 batches)",
 "C17": "membership query of a promotion-to-king move on a pawn batch reaching the last rank",
 "C18": "collecting an iterator that yields the same square an even number of times",
 "C19": "try_offset with a file or rank offset above 120 in a build with overflow checks",
 "C20": "SAN text whose promotion suffix disagrees with the move (missing on a promotion, present on a quiet move)",
}
NEEDS3 = {
 "C01": "Chess960 castling long with the king on the d-file or short with the king on the f-file (the rook's destination is the king's square)",
 "C02": "a promotion onto an empty square (no capture)",
 "C03": "a parsed/built board whose mover's king is in check from the front piece of a slider battery (front piece scanned before the rear slider)",
 "C04": "any position with two checkers (the king's escape moves)",
 "C05": "get_pawn_quiets for a White square on rank 8 or a Black square on rank 1 (direct look-up, never issued by the library)",
 "C06": "text or builder input with diagonally adjacent kings",
 "C07": "a builder state with exactly one castling right on the wrong side of the king, then a Shredder-FEN round trip",
 "C08": "a record with seven or more fields (or a trailing space)",
 "C09": "a builder state whose en-passant square is on the wrong rank for the side to move",
 "C10": "a castling right on a file other than a/h (Chess960); the side plays a king move or castles",
 "C11": "two boards differing only in which of two same-side rooks holds the castling right",
 "C12": "stalemate with a pinned pawn whose pseudo-legal moves all leave the pin ray",
 "C13": "two double pawn pushes in a row on different files, compared with the same position reached another way",
 "C14": "a null move with the half-move clock already at 100",
 "C15": "double check; try_play of a non-king move that captures or blocks the first checker",
 "C16": "not in check, a pinned pawn that can move along the pin ray; the listener aborts on exactly that batch",
 "C17": "a hand-built pawn batch whose origin is not on rank 2/7 with destinations on rank 1/8",
 "C18": "`a -= b` with b not a subset of a",
 "C19": "Square::from_str on a text of three or more bytes that starts with a valid square",
 "C20": "a checking, non-mating quiet move played at half-move clock 99 or 100",
}
NEEDS4 = {
 "C01": "an accepted (parsed/built) board with an en-passant capture whose victim shields the mover's king from a bishop or queen on a diagonal (not reachable by legal play)",
 "C02": "a rook on its own castling square captures the rook on the opponent's castling square of the same file (Ra1xa8 with Qq)",
 "C03": "a move after which one of the mover's own pieces stands alone between the mover's slider and the enemy king",
 "C04": "any position with a legal promotion; is_legal of the same move promoting to a king",
 "C05": "get_between_rays for a non-aligned pair whose index difference is a multiple of 7, 8 or 9 (direct look-up, never issued by the library)",
 "C06": "a null move on a board whose half-move clock is already 100",
 "C07": "a double pawn push answered by a double push on a different file, then a FEN round trip (hash differs)",
 "C08": "a record whose en-passant field is a single two-byte character",
 "C09": "a builder state with half-move clock 101..255 or full-move number 0 (build panics instead of returning the error)",
 "C10": "Chess960 castling where the rook stands on the king's destination or the king on the rook's destination",
 "C11": "a null move with Black to move",
 "C12": "not in check, the only legal move is a Chess960 castle with the king on the f-file (short) or d-file (long)",
 "C13": "two boards with different en-passant files, neither capturable",
 "C14": "any null move (the full-move number advances after White instead of after Black)",
 "C15": "try_play of any illegal move",
 "C16": "two unpinned knights with moves; the listener aborts on the first knight batch",
 "C17": "a hand-built pawn batch with a first-rank destination plus plain destinations, queried part-way through the promotions",
 "C18": "flip_files of a set with a member on the eighth rank",
 "C19": "the empty string parsed as File, Rank, Piece or Color",
 "C20": "a non-pawn piece moving onto the empty en-passant square right after a double push",
}
NEEDS5 = {
 "C01": "a builder state with an en-passant square while the side to move is in check from a piece unrelated to the double push (a knight, another pawn); then generation",
 "C02": "a rook that is not the castling rook is captured on its back rank on the same side of its king as a right that side still holds",
 "C03": "a move after which one of the mover's own pieces stands alone between the mover's slider and the enemy king",
 "C04": "is_legal of an en-passant capture while the mover is in check from the pawn that has just advanced two squares",
 "C05": "get_pawn_attacks for a White square on rank 8 or a Black square on rank 1 (direct look-up, never issued for a real pawn)",
 "C06": "a builder state whose castling rights sit in the wrong slots (short right naming the rook on the a-side of the king)",
 "C07": "a double-check move after which a further slider (on a higher square) pins a piece; then a FEN round trip",
 "C08": "a placement field with a short rank made up for by an over-long one (digits running past the h-file), eight ranks and 64 squares in total",
 "C09": "a builder state with an en-passant square while the side to move is in check from an unrelated piece (the parser rejects the same record)",
 "C10": "a parsed or built board with an en-passant square and a non-zero half-move clock; hash_without_ep / same_position",
 "C11": "two boards differing only in an a-file castling right (standard Q/q)",
 "C12": "a parsed or built stalemate in which the only pseudo-legal move is an en-passant capture whose victim shields the king on a diagonal",
 "C13": "a double pawn push that uncovers a diagonal check while an enemy pawn stands beside the pushed pawn (the en-passant capture does not resolve the check)",
 "C14": "a null move with an enemy rook on the next mover's king's diagonal (or a bishop on its file/rank) and a lone piece between them",
 "C15": "a Chess960 castle with the rook standing next to the king (a one-square king move onto the own rook)",
 "C16": "the listener aborts on a batch of a generator that is not the last one (start position, abort on the first call)",
 "C17": "a hand-built batch whose destination set contains the origin square",
 "C18": "iter_subsets() of the empty bitboard (one subset expected)",
 "C19": "a non-ASCII character whose low seven bits equal an accepted character",
 "C20": "three like pieces that can reach one square, the one sharing the mover's file scanned before the one sharing its rank",
}
NEEDS6 = {
 "C01": "a builder state with a single castling right naming a rook on the wrong side of the king (short = a-file rook); then generation",
 "C02": "play / try_play of an ordinary one-square king move onto the g- or c-file while that wing's right exists (Chess960 king on f1 / d1 / b1)",
 "C03": "a null move after which the passer's own king stands alone between one of its sliders and the enemy king",
 "C06": "a record that stops after the en-passant field (four or five fields)",
 "C07": "plain FEN of a position with two own back-rank rooks on the side of a king that still holds that wing's right (a/h-file right)",
 "C08": "a half-move clock field above 100 (101, 255, 65535)",
 "C09": "a builder state with an en-passant square and a non-zero half-move clock (its record no longer parses)",
 "C12": "a position with a legal move, clock below 100 and only kings plus at most two minor pieces",
 "C13": "a pawn pinned on a diagonal whose en-passant capture lands on that diagonal between itself and its own king",
 "C20": "an orthodox board where the side to move has lost one castling right; display_uci_move of the remaining castle",
 "C04": "is_legal of a king step in a position where the side to move is checked by a pawn and the square diagonally behind the king is free and safe",
 "C05": "get_rook_moves_const (or the const in a `const` item) for a rook on the rim whose only blockers on a ray stand on the rim",
 "C10": "a double push followed by null_move, compared with the parsed twin of the result (all components equal, hashes differ)",
 "C11": "two boards that differ exactly in the side to move and an en-passant file a",
 "C14": "null_move on a parsed board with half-move clock 100 and the side to move not in check",
 "C15": "try_play of a legal move of a pinned piece towards its own king along the pin line",
 "C16": "generate_moves_for with a mask that holds the castling rook's square but not the king's (Chess960, king next to the rook)",
 "C17": "has / contains on a king batch whose destination set holds the castling rook squares (e1g1 / e1c1 accepted)",
 "C18": "is_superset of two strictly comparable sets (FULL.is_superset(EMPTY))",
 "C19": "a hand-built Move with from == to given to Display",
}
NEEDS7 = {
 "C01": "an accepted board where the mover holds a castling right and the enemy king is adjacent to a square of the king's castling path or its destination",
 "C02": "a castle whose king starts on the rook's destination square (king on the f-file castling short, or on the d-file castling long)",
 "C06": "a builder state with an en-passant square while the side to move is in check from an unrelated piece (checkers computed only at the end of build)",
 "C07": "plain FEN of a Chess960 position with the rooks on a/h and the king off the e-file while rights are held",
 "C08": "a record whose en-passant square is on the third/sixth rank of the wrong side (e3 with White to move)",
 "C09": "a builder state with a long castling right naming a rook on the kingside of the king",
 "C10": "a board whose en-passant square can be captured by a pawn of the side to move; hash_without_ep / same_position",
 "C13": "a parsed or built board in which an own pawn that can capture en passant and an enemy piece both stand between an enemy slider and the king",
 "C19": "a move text with a promotion suffix whose destination is not on a back rank (a1a2n)",
 "C20": "an en-passant capture by Black given to display_san_move",
}
NEEDS8 = {
 "C03": "a null move after which an enemy piece stands alone between the new mover's king and an enemy slider (pinned set covers both colours)",
 "C04": "is_legal of a non-king move that captures or blocks one of two checkers (double check)",
 "C05": "get_line_rays(a, b) for aligned squares where a is not on the rim behind itself (half-line returned, asymmetric)",
 "C11": "two boards differing in two placement features of one colour whose (piece, square) pairs share a key under a stride of 6",
 "C12": "a parsed or built board in check from a knight and a pawn at once (not reachable by play); status / generation",
 "C14": "null_move by a side that has a pinned piece while no enemy slider is lined up with the other king (stale pins kept)",
 "C15": "try_play / play of a pawn move to the last rank with promotion to King",
 "C16": "a position where two pawns can capture en passant and the listener aborts on the first of the two batches",
 "C17": "count() on a partially consumed iterator of a pawn batch with promotion destinations",
 "C18": "iter_subsets of the full bitboard (64 squares: the shift overflows)",
}
ONLY = [a for a in sys.argv[1:] if not a.startswith("--")]
for d in sorted(os.listdir(os.path.join(HERE, "seeded"))):
    m = re.match(r"agent([2345678]?)-(C\d+)$", d)
    if not m:
        continue
    if ONLY and not any(o in d for o in ONLY):
        continue
    pid = m.group(2)
    rnd = int(m.group(1) or 1)
    second = rnd >= 2
    sd = os.path.join(HERE, "seeded", d)
    conf = {}
    cf = os.path.join(sd, "CONFIRM.txt") if second else "/tmp/wt/%s/CONFIRM.txt" % pid
    if os.path.exists(cf):
        for line in open(cf):
            line = line.strip()
            if "=" in line and line.startswith("demo"):
                k, v = line.split("=")
                conf[k] = int(v)
            elif line.startswith("test result"):
                conf["baseline_with_patch"] = line
    prev = {}
    mp = os.path.join(sd, "meta.json")
    if os.path.exists(mp):
        prev = json.load(open(mp))
    if not conf and prev.get("independent_confirmation"):
        conf = prev["independent_confirmation"]
    # which checks fire
    caught = prev.get("caught_by", {})
    if "--run" in sys.argv:
        out = subprocess.run([os.path.join(HERE, "tools", "mut.sh"), os.path.join(sd, "patch.diff")] + ["C%02d" % i for i in range(1, 21)],
                             stdout=subprocess.PIPE, text=True, env=dict(os.environ, SHOW="0")).stdout
        caught = {}
        for line in out.splitlines():
            mm = re.match(r"(C\d+) exit=(\d) violations=(\d+)", line)
            if mm and mm.group(2) == "1":
                rp = "%s/mut.%s.out" % (os.environ.get("MUT_OUT", "/tmp"), mm.group(1))
                keys = []
                for l2 in open(rp):
                    k2 = re.match(r"\s+([\w.+\[\]-]+:[^ ]+): ", l2)
                    if k2:
                        keys.append(k2.group(1))
                caught[mm.group(1)] = keys[:4]
    meta = {
        "breaks_property": pid,
        "written_by": "independent sub-agent given only the property text and a scratch worktree",
        "needs_to_manifest": {1: NEEDS, 2: NEEDS2, 3: NEEDS3, 4: NEEDS4, 5: NEEDS5, 6: NEEDS6, 7: NEEDS7, 8: NEEDS8}[rnd].get(pid, ""),
        "round": rnd,
        "files": ["patch.diff", "demo/", "NOTES.md"],
        "independent_confirmation": conf,
        "confirmation_procedure": "tools/confirm_seed.sh <worktree>: git apply --check on a clean checkout; demo exit code without and with the patch; cargo test --workspace --offline --lib with the patch",
        "checks_run": "tools/mut.sh seeded/%s/patch.diff C01..C20 (patch applied to %s, quick tier, reverted afterwards)" % (d, "a scratch worktree of /repo read through CVA_REPO" if os.environ.get("MUT_WT") else "/repo"),
        "caught_by": caught,
    }
    json.dump(meta, open(mp, "w"), indent=1)
    print(pid, conf.get("demo_without_patch_exit"), conf.get("demo_with_patch_exit"), (conf.get("baseline_with_patch") or "")[:28], sorted(caught))
