#!/bin/bash
# copy finished round-2 sub-agent deliverables from /tmp/wt2 into /verif (refactors/ and seeded/agent2-CNN/)
for d in /tmp/wt2/R*; do
  [ -d "$d" ] || continue
  n=$(basename $d)
  if [ -f $d/patch.diff ] && [ -f $d/NOTES.md ] && [ ! -f /verif/refactors/$n.diff ]; then
    cp $d/patch.diff /verif/refactors/$n.diff; cp $d/NOTES.md /verif/refactors/$n.NOTES.md; echo "collected $n"
  fi
done
for d in /tmp/wt2/C*; do
  [ -d "$d" ] || continue
  n=$(basename $d)
  t=/verif/seeded/agent2-$n
  if [ -f $d/patch.diff ] && [ -f $d/NOTES.md ] && [ -d $d/demo ] && [ ! -d $t ]; then
    mkdir -p $t; cp $d/patch.diff $d/NOTES.md $t/; rsync -a --exclude target $d/demo $t/; echo "collected seed $n"
  fi
done
