use cozy_chess::*;
fn main() {
    // D1
    assert_eq!(Square::H8.try_offset(127, 0), None);
    assert_eq!(Square::H8.try_offset(0, 127), None);
    assert_eq!(Square::A1.try_offset(-128, -128), None);
    assert_eq!(Square::A1.try_offset(1, 1), Some(Square::B2));
    // D2
    assert!("e2e4qxyz".parse::<Move>().is_err());
    assert!("e2e4é".parse::<Move>().is_err());
    assert!("e2e4k".parse::<Move>().is_err());
    assert!("e2e4p".parse::<Move>().is_err());
    assert_eq!("e7e8q".parse::<Move>().unwrap().to_string(), "e7e8q");
    assert_eq!("e2e4".parse::<Move>().unwrap().to_string(), "e2e4");
    // D3
    assert!(matches!("4k3/8/8/8/8/8/4K3 w - - 0 1".parse::<Board>(), Err(FenParseError::InvalidBoard)));
    assert!(matches!("4k3/8/8/8/8/8/8/8/4K3 w - - 0 1".parse::<Board>(), Err(FenParseError::InvalidBoard)));
    // D4
    assert!(matches!("4k3/8/8/8/8/8/8/4K3 w  - 0 1".parse::<Board>(), Err(FenParseError::InvalidCastlingRights)));
    assert!("4k3/8/8/8/8/8/8/4K3 w - - 0 1".parse::<Board>().is_ok());
    // D5
    assert!(matches!("4k3/4K3/8/8/8/8/8/8 w - - 0 1".parse::<Board>(), Err(FenParseError::InvalidBoard)));
    assert!(matches!("8/8/8/3kK3/8/8/8/8 b - - 0 1".parse::<Board>(), Err(FenParseError::InvalidBoard)));
    // D6
    let pm = PieceMoves { piece: Piece::Pawn, from: Square::A7, to: Square::A8.bitboard() };
    assert!(!pm.has(Move { from: Square::A7, to: Square::A8, promotion: Some(Piece::King) }));
    assert!(!pm.has(Move { from: Square::A7, to: Square::A8, promotion: Some(Piece::Pawn) }));
    assert!(pm.has(Move { from: Square::A7, to: Square::A8, promotion: Some(Piece::Queen) }));
    // D7: black Ra1,Qh1,Nd3 all checking Ke1
    let mut b = BoardBuilder::empty();
    *b.square_mut(Square::E1) = Some((Piece::King, Color::White));
    *b.square_mut(Square::E8) = Some((Piece::King, Color::Black));
    *b.square_mut(Square::A1) = Some((Piece::Rook, Color::Black));
    *b.square_mut(Square::H1) = Some((Piece::Queen, Color::Black));
    *b.square_mut(Square::D3) = Some((Piece::Knight, Color::Black));
    assert!(matches!(b.build(), Err(BoardBuilderError::InvalidBoard)));
    assert!("4k3/8/8/8/8/3n4/8/r3K2q w - - 0 1".parse::<Board>().is_err());
    // D8
    let a: Board = "4k3/8/8/3pB3/8/8/8/4K3 w - d6 0 2".parse().unwrap();
    let c: Board = "4k3/8/8/3pB3/8/8/8/4K3 w - - 0 2".parse().unwrap();
    assert!(a.same_position(&c));
    let a: Board = "4k3/8/8/3pP3/8/8/8/4K3 w - d6 0 2".parse().unwrap();
    let c: Board = "4k3/8/8/3pP3/8/8/8/4K3 w - - 0 2".parse().unwrap();
    assert!(!a.same_position(&c));
    println!("all defect demonstrations pass on the repaired tree");
}
