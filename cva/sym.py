"""Path-enumerating symbolic evaluator for MIR bodies (engine I3 of DESIGN.md).

It never runs library code: it walks the CFG of a body, keeps a symbolic store, cuts
loops at their headers (havocking what the loop writes), inlines small loop-free local
functions, and produces for every path: the branch decisions, the calls made (events)
with symbolic arguments, and the returned expression.  Expressions are hashable tuples.
"""
import re

from . import cfg as cfgmod
from .facts import callee_name

TYPES = "cozy_chess_types::"
BB = "cozy_chess_types::bitboard::BitBoard"


class PathLimit(Exception):
    pass


# ----------------------------------------------------------------------------- values

def I(v, ty="int"):
    return ("int", v, ty)


TRUE = ("int", 1, "bool")
FALSE = ("int", 0, "bool")

KNOWN_DISCR = {
    ("core::option::Option", "None"): 0, ("core::option::Option", "Some"): 1,
    ("core::result::Result", "Ok"): 0, ("core::result::Result", "Err"): 1,
    ("core::ops::control_flow::ControlFlow", "Continue"): 0,
    ("core::ops::control_flow::ControlFlow", "Break"): 1,
}

INT_BITS = {"u8": 8, "u16": 16, "u32": 32, "u64": 64, "u128": 128, "usize": 64,
            "i8": 8, "i16": 16, "i32": 32, "i64": 64, "i128": 128, "isize": 64}


def is_const(v):
    return v[0] == "int"


def wrap(v, ty):
    if ty in INT_BITS:
        bits = INT_BITS[ty]
        if ty[0] == "u":
            return v & ((1 << bits) - 1)
        v &= (1 << bits) - 1
        if v >> (bits - 1):
            v -= 1 << bits
        return v
    return v


class Ops:
    """Smart constructors (with light simplification) bound to a Facts instance."""

    def __init__(self, facts):
        self.facts = facts
        self.enum_by_discr = {}
        self.enum_variants = {}
        for path, a in facts.adts.items():
            if a["kind"] == "Enum":
                self.enum_variants[path] = [(v["name"], v["discr"]) for v in a["variants"]]
                if all(not v["fields"] for v in a["variants"]):
                    self.enum_by_discr[path] = {v["discr"]: v["name"] for v in a["variants"]}

    def enum_const(self, ty, v):
        m = self.enum_by_discr.get(ty)
        if m is not None and v in m:
            return ("enum", ty, m[v])
        return None

    def discr_of(self, adt, variant):
        adt = adt.split("<")[0]
        if (adt, variant) in KNOWN_DISCR:
            return KNOWN_DISCR[(adt, variant)]
        for n, d in self.enum_variants.get(adt, []):
            if n == variant:
                return d
        return None

    # --- projections
    def field(self, v, name):
        k = v[0]
        if k == "agg":
            for n, x in v[4]:
                if n == name:
                    return x
            return ("field", v, name)
        if k == "tuple":
            try:
                return v[1][int(name)]
            except (ValueError, IndexError):
                return ("field", v, name)
        if k == "array" and name.isdigit() and int(name) < len(v[1]):
            return v[1][int(name)]          # a constant tuple (decoded like an array)
        if k == "closure":
            try:
                return v[2][int(name)]
            except (ValueError, IndexError):
                return ("field", v, name)
        if k == "with":
            _, base, head, new = v
            if head == ("f", name):
                return new
            if head[0] == "f":
                return self.field(base, name)
        if k == "ite":
            return self.ite(v[1], self.field(v[2], name), self.field(v[3], name))
        if k == "bb" and name == "0":
            return v[1]
        if k in ("and", "or", "xor", "not", "bbof") and name == "0":
            return ("raw", v)
        if k == "bbconst" and name == "0":
            return I(v[1], "u64")
        if k == "downcast" and v[1][0] == "next" and len(v[1]) == 2 and v[2] == "Some" and name == "0":
            return ("elem", v[1][1])
        if k == "elem" and v[1][0] == "zip" and name in ("0", "1"):
            # the k-th pair of A.zip(B): when A lists every variant of an enum in order, B's partner is B[variant]
            _, A, Barr, byref = v[1]
            ea = ("elem", A)
            if name == "0":
                return ea
            a = A
            while a[0] in ("ref", "deref", "iter"):
                a = a[1]
            if a[0] == "array" and a[1] and all(x[0] == "enum" for x in a[1]):
                adt = self.facts.adts.get(a[1][0][1])
                if adt and [vv["name"] for vv in adt["variants"]] == [x[2] for x in a[1]]:
                    item = ("deref", ea) if A[0] in ("ref", "ptr") else ea
                    el = self.index(Barr, ("cast", "usize", ("discr", item)))
                    return ("ref", el) if byref else el
            return ("field", v, name)
        if k == "downcast" and v[2] == "Ok" and name == "0" and v[1][0] == "call" and v[1][1].startswith("core::option::Option<") and v[1][1].endswith("::ok_or"):
            return self.field(self.downcast(v[1][2][0], "Some"), "0")
        if k == "downcast" and v[2] == "Err" and name == "0" and v[1][0] == "call" and v[1][1].startswith("core::option::Option<") and v[1][1].endswith("::ok_or") \
                and len(v[1][2]) == 2:
            return v[1][2][1]           # the error of `opt.ok_or(e)` is e
        if k == "downcast" and v[1][0] == "next" and len(v[1]) == 3 and v[2] == "Some" and name == "0":
            return ("nth", v[1][1], v[1][2])
        if k == "trydown" and name == "0":
            tb, variant = v[1], v[2]
            inner = tb[2]
            if variant == "Continue":
                return self.field(self.downcast(inner, "Some" if tb[1] == "option" else "Ok"), "0")
            return ("residual", tb[1], inner)
        return ("field", v, name)

    def index(self, v, i):
        k = v[0]
        if k == "array" and is_const(i) and 0 <= i[1] < len(v[1]):
            return v[1][i[1]]
        if k == "repeat":
            return v[1]
        if k == "with":
            _, base, head, new = v
            if head == ("i", i):
                return new
            if head[0] == "i" and is_const(i) and is_const(head[1]) and head[1][1] != i[1]:
                return self.index(base, i)
            if head[0] == "i" and head[1][0] == "enum" and i[0] == "enum" and head[1] != i:
                return self.index(base, i)
            if head[0] != "i":
                return self.index(base, i)
        return ("index", v, i)

    def downcast(self, v, variant):
        if v[0] == "trybranch":
            return ("trydown", v, variant)
        if v[0] in ("agg", "enum"):
            return v
        return ("downcast", v, variant)

    def get(self, v, head):
        if head[0] == "f":
            return self.field(v, head[1])
        if head[0] == "i":
            return self.index(v, head[1])
        if head[0] == "d":
            return self.downcast(v, head[1])
        raise ValueError(head)

    def with_(self, v, head, new):
        if head[0] == "f" and v[0] == "agg":
            fields = tuple((n, new if n == head[1] else x) for n, x in v[4])
            if any(n == head[1] for n, _ in v[4]):
                return ("agg", v[1], v[2], v[3], fields)
        if head[0] == "f" and v[0] == "tuple":
            try:
                i = int(head[1])
                items = list(v[1])
                items[i] = new
                return ("tuple", tuple(items))
            except (ValueError, IndexError):
                pass
        if head[0] == "f" and v[0] == "closure":
            try:
                i = int(head[1])
                items = list(v[2])
                items[i] = new
                return ("closure", v[1], tuple(items))
            except (ValueError, IndexError):
                pass
        if head[0] == "d":
            return new
        if head == ("f", "0") and v[0] in ("bb", "bbconst", "bbof", "and", "or", "xor", "not"):
            if new[0] == "int":
                return ("bbconst", new[1])
            return ("bb", new)
        if v[0] == "with" and v[2] == head:
            return ("with", v[1], head, new)
        return ("with", v, head, new)

    def update(self, v, path, x):
        if not path:
            return x
        head = path[0]
        sub = self.get(v, head)
        return self.with_(v, head, self.update(sub, path[1:], x))

    def project(self, v, path):
        for h in path:
            v = self.get(v, h)
        return v

    # --- operators
    def discr(self, v):
        k = v[0]
        if k == "call" and v[1].startswith("core::option::Option<") and v[1].endswith("::ok_or") and len(v[2]) == 2:
            # Result discriminant: Ok = 0 iff the option is Some
            return self.bin("Eq", self.discr(v[2][0]), I(0, "isize"))
        if k == "trybranch":
            # ControlFlow discriminant: Continue = 0, Break = 1
            if v[1] == "option":
                return self.bin("Eq", self.discr(v[2]), I(0, "isize"))      # Break iff None
            return self.discr(v[2])                                            # Result: Ok=0 -> Continue=0
        if k == "agg":
            if v[3] is not None:
                d = self.discr_of(v[1], v[2])
                return I(d if d is not None else v[3], "isize")
        if k == "enum":
            d = self.discr_of(v[1], v[2])
            if d is not None:
                return I(d, "isize")
        if k == "ite":
            return self.ite(v[1], self.discr(v[2]), self.discr(v[3]))
        if k == "next" and len(v) == 3 and isinstance(v[2], int):
            # the (k+1)-th pull from an iteration over a constant array of known length is Some exactly while k < length
            a = v[1]
            while a[0] in ("ref", "iter"):
                a = a[1]
            if a[0] == "array":
                return I(1 if v[2] < len(a[1]) else 0, "isize")
        return ("discr", v)

    def ite(self, c, a, b):
        if c == TRUE:
            return a
        if c == FALSE:
            return b
        if a == b:
            return a
        return ("ite", c, a, b)

    def cast(self, ty, v):
        if is_const(v):
            return I(wrap(v[1], ty), ty)
        if v[0] == "cast" and v[1] == ty:
            return v
        if v[0] == "cast" and v[2][0] == "discr":
            # discr as isize as usize  ->  one cast
            return ("cast", ty, v[2])
        return ("cast", ty, v)

    def un(self, op, a, ty=None):
        if op == "Not":
            if a[0] == "int":
                if a[2] == "bool":
                    return TRUE if a[1] == 0 else FALSE
                if a[2] in INT_BITS:
                    return I(wrap(~a[1], a[2]), a[2])
            if a[0] == "un" and a[1] == "Not":
                return a[2]
            if a[0] == "bin" and a[1] in NEG:
                return ("bin", NEG[a[1]], a[2], a[3])
        if op == "Neg" and a[0] == "int":
            return I(wrap(-a[1], a[2]), a[2])
        if op == "PtrMetadata" and a[0] == "ref" and a[1][0] == "array":
            return I(len(a[1][1]), "usize")          # the length of a slice with known elements
        return ("un", op, a)

    def bin(self, op, a, b):
        base = op.replace("Unchecked", "")
        if a[0] == "int" and b[0] == "int":
            x, y, ty = a[1], b[1], a[2]
            r = None
            if base == "Add":
                r = x + y
            elif base == "Sub":
                r = x - y
            elif base == "Mul":
                r = x * y
            elif base == "BitAnd":
                r = x & y
            elif base == "BitOr":
                r = x | y
            elif base == "BitXor":
                r = x ^ y
            elif base == "Shl":
                r = x << (y & 127)
            elif base == "Shr":
                r = x >> (y & 127)
            elif base in CMP:
                return TRUE if CMP[base](x, y) else FALSE
            if r is not None:
                return I(wrap(r, ty), ty)
        # identities
        if base in ("BitXor", "BitOr", "Add") and a[0] == "int" and a[1] == 0:
            return b
        if base in ("BitXor", "BitOr", "Add", "Sub", "Shl", "Shr") and b[0] == "int" and b[1] == 0:
            return a
        if base == "Mul" and b[0] == "int" and b[1] == 1:
            return a
        if base == "Mul" and a[0] == "int" and a[1] == 1:
            return b
        if base in ("Eq", "Ne") and a[0] == "enum" and b[0] == "enum" and a[1] == b[1]:
            return TRUE if (a == b) == (base == "Eq") else FALSE
        if base in ("Eq", "Ne") and a == b and a[0] in ("param", "enum", "obj", "elem"):
            return TRUE if base == "Eq" else FALSE
        if base in ("Eq", "Ne") and a[0] == "agg" and b[0] == "agg" and a[1] == b[1] and a[2] != b[2]:
            return FALSE if base == "Eq" else TRUE
        if base in ("Eq", "Ne") and a[0] == "agg" and b[0] == "agg" and a[1] == b[1] and a[2] == b[2] and not a[4] and not b[4]:
            return TRUE if base == "Eq" else FALSE          # the same field-less variant of an enum that also has variants with fields
        if base in ("Eq", "Ne") and a[0] == "agg" and b[0] == "agg" and a[1] == b[1] and a[2] == b[2] and len(a[4]) == 1 and len(b[4]) == 1:
            return self.bin(base, a[4][0][1], b[4][0][1])      # same single-field variant (Some(x) == Some(y))
        if base in COMM and repr(b) < repr(a):
            a, b = b, a
        return ("bin", base, a, b)


CMP = {"Eq": lambda x, y: x == y, "Ne": lambda x, y: x != y, "Lt": lambda x, y: x < y,
       "Le": lambda x, y: x <= y, "Gt": lambda x, y: x > y, "Ge": lambda x, y: x >= y}
NEG = {"Eq": "Ne", "Ne": "Eq", "Lt": "Ge", "Ge": "Lt", "Gt": "Le", "Le": "Gt"}
COMM = {"Add", "Mul", "BitAnd", "BitOr", "BitXor", "Eq", "Ne"}


# ----------------------------------------------------------------------------- executor

class Event:
    __slots__ = ("idx", "kind", "name", "decl", "args", "targs", "bb", "fn", "line", "ncond",
                 "ret", "depth", "extra")

    def __init__(self, **kw):
        self.extra = None
        for k, v in kw.items():
            setattr(self, k, v)

    def __repr__(self):
        return "<%s %s @%s:bb%d L%d>" % (self.kind, self.name, self.fn.rsplit("::", 1)[-1], self.bb, self.line)


class Path:
    __slots__ = ("conds", "events", "ret", "end", "store", "end_bb", "blocks", "pre_loop", "end_loop")

    def __init__(self, conds, events, ret, end, store, end_bb, blocks, pre_loop=None):
        self.pre_loop = pre_loop or {}
        self.end_loop = None       # (frame id, header block) of the loop whose back edge ended the path
        self.conds = conds
        self.events = events
        self.ret = ret
        self.end = end
        self.store = store
        self.end_bb = end_bb
        self.blocks = blocks


class Frame:
    __slots__ = ("body", "fid", "bb", "ret_dest", "ret_target", "cgen", "tgen", "loops", "loopw", "uc")

    def __init__(self, body, fid, cgen, tgen):
        self.body = body
        self.fid = fid
        self.uc = 0              # frame-local unroll_const (a small getter whose only loop runs over a constant array)
        self.bb = 0
        self.ret_dest = None
        self.ret_target = None
        self.cgen = cgen
        self.tgen = tgen


class State:
    __slots__ = ("store", "conds", "events", "frames", "active", "decided", "excluded", "nfid",
                 "blocks", "nhv", "pre_loop")

    def clone(self):
        s = State()
        s.store = dict(self.store)
        s.conds = list(self.conds)
        s.events = list(self.events)
        s.frames = []
        for f in self.frames:
            g = Frame(f.body, f.fid, f.cgen, f.tgen)
            g.bb = f.bb
            g.ret_dest = f.ret_dest
            g.ret_target = f.ret_target
            g.uc = f.uc
            s.frames.append(g)
        s.active = set(self.active)
        s.decided = dict(self.decided)
        s.excluded = dict(self.excluded)
        s.nfid = self.nfid
        s.blocks = list(self.blocks)
        s.nhv = self.nhv
        s.pre_loop = self.pre_loop
        return s


# functions never inlined: semantic atoms with stable public names
def default_opaque(name):
    if name.startswith(TYPES):
        return True
    if name.startswith("<" + TYPES):
        return True
    tail = name.rsplit("::", 1)[-1]
    if name.startswith("cozy_chess::moves::get_") and "::" not in name[len("cozy_chess::moves::"):]:
        return True            # the public look-up functions themselves (not helpers nested inside them)
    if name in ("cozy_chess::board::Board::king", "cozy_chess::board::Board::piece_on",
                "cozy_chess::board::Board::color_on"):
        return True
    return False


FN_TRAIT_CALLS = ("core::ops::function::Fn::call", "core::ops::function::FnMut::call_mut", "core::ops::function::FnOnce::call_once")

BBOPS = {
    "BitAnd>::bitand": "and", "BitOr>::bitor": "or", "BitXor>::bitxor": "xor",
    "Sub>::sub": "sub", "Not>::not": "not",
}
BBASSIGN = {
    "BitAndAssign>::bitand_assign": "and", "BitOrAssign>::bitor_assign": "or",
    "BitXorAssign>::bitxor_assign": "xor", "SubAssign>::sub_assign": "sub",
}


class SymExec:
    def __init__(self, facts, body, cgen=None, tgen=None, max_paths=20000, inline=None,
                 opaque=None, max_inline_blocks=20, max_depth=4, params=None, entry_store=None, raw=False, count_next=False, peel=False, record_assigns=False, unroll=0, rename=None,
                 unroll_const=0, auto_unroll=False):
        self.facts = facts
        self.ops = Ops(facts)
        self.body = body
        self.cgen = cgen or {}
        self.tgen = tgen or {}
        self.max_paths = max_paths
        self.inline_pred = inline
        self.opaque_pred = opaque or default_opaque
        self.max_inline_blocks = max_inline_blocks
        self.max_depth = max_depth
        self.paths = []
        self._loops = {}
        self._loopw = {}
        self.params = params
        self.unroll_const = unroll_const      # loops over constant arrays of at most this many elements are executed element by element
        self.auto_unroll = auto_unroll        # do so for the entry function too when that makes it a straight line (see const_loop_fn)
        self.entry_store = entry_store
        self.nevents = 0
        self.raw = raw
        self.count_next = count_next
        self.peel = peel
        self.record_assigns = record_assigns
        self.rename = rename or {}    # actual parameter name -> the canonical name rules use (private functions)
        self.unroll = unroll          # >0: loops are executed as written (no cut, no havoc), at most this many visits per header
        # a constant generic of the analysis (`IN_CHECK`) that the code keeps as a runtime `bool` parameter instead: the
        # one bool parameter of the entry function is bound to the value asked for
        if self.cgen and "IN_CHECK" in self.cgen and "IN_CHECK" not in (body.j.get("generics") or []):
            bools = [body.local_name(i) for i in range(1, body.argc + 1) if body.locals[i]["ty"] == "bool"]
            if len(bools) == 1:
                self.params = dict(self.params or {})
                self.params[self.rename.get(bools[0], bools[0])] = self.cgen["IN_CHECK"]
        self.types = {}
        self.dn = {}
        self._modset = {}
        self.mut_params = set()
        for i in range(1, body.argc + 1):
            self.types[("param", self.rename.get(body.local_name(i), body.local_name(i)))] = body.locals[i]["ty"]
        for i in range(1, body.argc + 1):
            if body.locals[i]["ty"].startswith("&mut"):
                self.mut_params.add(self.rename.get(body.local_name(i), body.local_name(i)))

    # ---------------------------------------------------------------- helpers
    def loops_of(self, body):
        k = body.key
        if k not in self._loops:
            loops = cfgmod.natural_loops(body)
            self._loops[k] = loops
            w = {}
            # pointer locals with a single `&mut place` definition (reborrow chains)
            ptrdefs = {}
            for blk in body.blocks:
                for s in blk["stmts"]:
                    if s["k"] == "assign" and not s["pl"]["p"]:
                        if s["rv"]["k"] in ("ref", "rawptr") and s["rv"]["mut"]:
                            ptrdefs.setdefault(s["pl"]["l"], []).append(s["rv"]["pl"])
                        else:
                            ptrdefs.setdefault(s["pl"]["l"], []).append(None)
                if blk["term"]["k"] == "call" and not blk["term"]["dest"]["p"]:
                    ptrdefs.setdefault(blk["term"]["dest"]["l"], []).append(None)
            ptrmap = {l: d[0] for l, d in ptrdefs.items() if len(d) == 1 and d[0] is not None}
            for h, blks in loops.items():
                locs = {}
                mem = False

                def add(pl, whole=False, depth=0):
                    nonlocal mem
                    path = []
                    projs = pl["p"]
                    target = pl["l"]
                    if projs and projs[0] == "deref":
                        l = pl["l"]
                        if 1 <= l <= body.argc and body.locals[l]["ty"].startswith("&mut"):
                            pn = body.local_name(l)
                            if body is self.body:
                                pn = self.rename.get(pn, pn)
                            target = ("P", pn)
                            projs = projs[1:]
                        elif 1 <= l <= body.argc and body.locals[l]["ty"].startswith("&"):
                            return          # shared reference parameter: cannot be written through
                        elif l in ptrmap and depth < 4:
                            base = ptrmap[l]
                            add({"l": base["l"], "p": list(base["p"]) + list(projs[1:])}, whole, depth + 1)
                            return
                        else:
                            mem = True
                            return
                    for p in projs:
                        if p == "deref":
                            mem = True
                            break
                        if isinstance(p, dict) and "f" in p:
                            path.append(("f", p["n"]))
                        else:
                            break
                    locs.setdefault(target, set()).add(() if whole else tuple(path))
                # `&mut whole_local` handed to a local function that only touches / hands back some fields of it
                # (an accessor like `x.field_mut(i)`): those fields, not the whole local
                refined = {}
                for b in blks:
                    t_ = body.blocks[b]["term"]
                    if t_["k"] != "call" or "fn" not in t_["callee"]:
                        continue
                    cn_ = t_["callee"].get("res") or t_["callee"]["fn"]
                    if cn_ not in self.facts.bodies:
                        continue
                    for ai, a_ in enumerate(t_["args"]):
                        if a_["k"] not in ("move", "copy") or a_["pl"]["p"]:
                            continue
                        al = a_["pl"]["l"]
                        if al in ptrmap and not ptrmap[al]["p"] and body.locals[al]["ty"].startswith("&mut") \
                                and "&mut" in self.facts.bodies[cn_].locals[0]["ty"]:
                            fl = self.touched_fields(cn_, ai + 1)
                            if fl is not None:
                                refined.setdefault(al, set()).update(fl)
                            else:
                                refined[al] = None
                # `&mut whole_local` captured by a closure built inside the loop: the fields that closure's body may write
                # through the capture
                for b in blks:
                    for s_ in body.blocks[b]["stmts"]:
                        if s_["k"] == "assign" and s_["rv"]["k"] == "agg" and s_["rv"].get("ak") == "closure":
                            cms_ = self.modset(s_["rv"]["closure"]) if s_["rv"].get("closure") in self.facts.bodies else None
                            for k_, op_ in enumerate(s_["rv"]["ops"]):
                                if op_["k"] not in ("move", "copy") or op_["pl"]["p"]:
                                    continue
                                al = op_["pl"]["l"]
                                if al in ptrmap and not ptrmap[al]["p"] and body.locals[al]["ty"].startswith("&mut"):
                                    fl = None if cms_ is None else cms_.get(("up", k_), set())
                                    if fl is not None and None not in fl and refined.get(al, set()) is not None:
                                        refined.setdefault(al, set()).update(fl)
                                    else:
                                        refined[al] = None
                for b in blks:
                    blk = body.blocks[b]
                    for s in blk["stmts"]:
                        if s["k"] in ("assign", "setdiscr"):
                            add(s["pl"])
                            if s["k"] == "assign" and s["rv"]["k"] in ("ref", "rawptr") and s["rv"]["mut"] and not s.get("env"):
                                dl = s["pl"]["l"] if not s["pl"]["p"] else None
                                if dl is not None and refined.get(dl) is not None and dl in refined and not s["rv"]["pl"]["p"]:
                                    for fl_ in sorted(refined[dl]):
                                        add({"l": s["rv"]["pl"]["l"], "p": [{"f": 0, "n": fl_}]})
                                else:
                                    add(s["rv"]["pl"])
                    t = blk["term"]
                    if t["k"] == "call":
                        add(t["dest"])
                        if "clos" in t["callee"]:
                            for wpl in self.closure_writes(body, t["callee"]["clos"]):
                                if wpl is None:
                                    mem = True
                                else:
                                    add(wpl)
                w[h] = (locs, mem)
            self._loopw[k] = w
        return self._loops[k], self._loopw[k]

    def touched_fields(self, name, argi):
        """top-level fields of the struct behind `&mut` parameter `argi` that function `name` may write or hand out a
        mutable reference to; None when that cannot be narrowed down"""
        key = ("touched", name, argi)
        if key in self._modset:
            return self._modset[key]
        self._modset[key] = None
        b = self.facts.bodies.get(name)
        if b is None or argi > b.argc or not b.locals[argi]["ty"].startswith("&mut"):
            return None
        ms = self.modset(name)
        wr = (ms or {}).get(argi)
        if ms is None or wr is None:
            return None
        out = set(x for x in wr if x is not None)
        if None in wr:
            return None
        if b.locals[0]["ty"].startswith("&mut") or "&mut" in b.locals[0]["ty"]:
            # where may the returned reference point?  follow `&mut (*param).field...` through temporaries to _0
            alias = {}
            for blk in b.blocks:
                if blk["cleanup"]:
                    continue
                for s in blk["stmts"]:
                    if s["k"] != "assign" or s["pl"]["p"]:
                        continue
                    rv = s["rv"]
                    src = None
                    if rv["k"] in ("ref", "rawptr"):
                        pl = rv["pl"]
                        if pl["l"] == argi and pl["p"] and pl["p"][0] == "deref":
                            fl = [q["n"] for q in pl["p"][1:] if isinstance(q, dict) and "f" in q]
                            src = fl[0] if fl else "*"
                        elif pl["l"] in alias and pl["p"] and pl["p"][0] == "deref":
                            src = alias[pl["l"]]
                    elif rv["k"] == "use" and rv["op"]["k"] in ("move", "copy") and not rv["op"]["pl"]["p"] and rv["op"]["pl"]["l"] in alias:
                        src = alias[rv["op"]["pl"]["l"]]
                    elif rv["k"] == "cast" and rv["op"]["k"] in ("move", "copy") and not rv["op"]["pl"]["p"] and rv["op"]["pl"]["l"] in alias:
                        src = alias[rv["op"]["pl"]["l"]]
                    if src is not None:
                        alias[s["pl"]["l"]] = src
                t_ = blk["term"]
                if t_["k"] == "call" and not t_["dest"]["p"]:
                    # a reference produced by an inner call (e.g. index_mut on a field reference)
                    for a_ in t_["args"]:
                        if a_["k"] in ("move", "copy") and not a_["pl"]["p"] and a_["pl"]["l"] in alias and b.locals[t_["dest"]["l"]]["ty"].startswith("&mut"):
                            alias[t_["dest"]["l"]] = alias[a_["pl"]["l"]]
            r = alias.get(0)
            if r is None or r == "*":
                return None
            out.add(r)
        self._modset[key] = out
        return out

    def closure_writes(self, body, cl, depth=0):
        """places of `body` that a call of the closure held in local `cl` may write: pointees of upvars
        captured by `&mut`, and by-value upvars the closure body assigns (None = unknown memory)"""
        defs = []
        for blk in body.blocks:
            for s in blk["stmts"]:
                if s["k"] == "assign" and s["pl"]["l"] == cl and not s["pl"]["p"]:
                    defs.append(s["rv"])
            if blk["term"]["k"] == "call" and blk["term"]["dest"]["l"] == cl:
                defs.append(None)
        if len(defs) != 1 or defs[0] is None:
            return [None]
        rv = defs[0]
        if rv["k"] == "use":
            op = rv["op"]
            if op["k"] == "const":
                return []                      # capture-less closure or fn item
            if not op["pl"]["p"] and depth < 4:
                return self.closure_writes(body, op["pl"]["l"], depth + 1)
            return [None]
        if not (rv["k"] == "agg" and rv.get("ak") == "closure"):
            return [None]
        cb = self.facts.bodies.get(rv["closure"])
        if cb is None:
            return [None]
        out = []
        # upvars that are `&mut` borrows of the enclosing function's places
        for k, op in enumerate(rv["ops"]):
            if op["k"] not in ("move", "copy") or op["pl"]["p"]:
                continue
            ul = op["pl"]["l"]
            if not body.locals[ul]["ty"].startswith("&mut"):
                continue
            srcs = []
            for blk in body.blocks:
                for s in blk["stmts"]:
                    if s["k"] == "assign" and s["pl"]["l"] == ul and not s["pl"]["p"]:
                        srcs.append(s["rv"])
            # which fields of the borrowed place the closure body may write through this capture (None = any)
            cms_ = self.modset(rv["closure"])
            flds_ = None if cms_ is None else cms_.get(("up", k), set())

            def narrowed(pl_):
                if flds_ is None:
                    return [pl_]
                return [{"l": pl_["l"], "p": list(pl_["p"]) + [{"f": 0, "n": fl_}]} for fl_ in sorted(x for x in flds_ if x is not None)] \
                    if None not in flds_ else [pl_]
            if len(srcs) == 1 and srcs[0]["k"] in ("ref", "rawptr"):
                out += narrowed(srcs[0]["pl"])
            elif len(srcs) == 1 and srcs[0]["k"] == "use" and srcs[0]["op"]["k"] in ("move", "copy"):
                out += narrowed({"l": srcs[0]["op"]["pl"]["l"], "p": list(srcs[0]["op"]["pl"]["p"]) + ["deref"]})
            else:
                out.append(None)
        # by-value upvars assigned (or mutably borrowed) inside the closure body
        if cb.locals[1]["ty"].startswith("&mut") or not cb.locals[1]["ty"].startswith("&"):
            def upvar_of(pl):
                if pl["l"] != 1:
                    return None
                pr = pl["p"]
                if pr and pr[0] == "deref":
                    pr = pr[1:]
                if pr and isinstance(pr[0], dict) and "f" in pr[0] and "deref" not in pr[1:]:
                    return pr[0]["n"]
                return None
            for blk in cb.blocks:
                if blk["cleanup"]:
                    continue
                for s in blk["stmts"]:
                    if s["k"] != "assign":
                        continue
                    u = upvar_of(s["pl"])
                    if u is None and s["rv"]["k"] in ("ref", "rawptr") and s["rv"]["mut"]:
                        u = upvar_of(s["rv"]["pl"])
                    if u is not None:
                        out.append({"l": cl, "p": [{"f": int(u), "n": u}]})
                if blk["term"]["k"] == "call":
                    u = upvar_of(blk["term"]["dest"])
                    if u is not None:
                        out.append({"l": cl, "p": [{"f": int(u), "n": u}]})
        return out

    def should_inline(self, name, depth):
        if depth >= self.max_depth:
            return False
        b = self.facts.bodies.get(name)
        if b is None or b.kind not in ("Fn", "AssocFn"):
            return False
        if self.inline_pred is not None:
            r = self.inline_pred(name)
            if r is not None:
                return r
        if self.opaque_pred(name):
            return False
        n = sum(1 for blk in b.blocks if not blk["cleanup"])
        if n > self.max_inline_blocks:
            return False
        loops, _ = self.loops_of(b)
        if loops and not self.unroll:
            # a small function whose loops all run over a constant array of a few elements (`Color::ALL.iter()
            # .fold(..)`) is a straight line once those are executed element by element
            return self.const_loop_fn(name)
        # no closure-typed generics
        return True

    def const_loop_fn(self, name, n=2):
        cache = self.facts.__dict__.setdefault("_const_loop_fn", {})
        name0, name = name, (name, n)
        if name not in cache:
            cache[name] = False          # (recursion guard)
            name_ = name0
            b = self.facts.bodies[name_]
            ok = False
            if not any("&mut" in b.locals[i]["ty"] for i in range(1, b.argc + 1)):
                try:
                    sub = SymExec(self.facts, b, max_paths=64, max_depth=2, unroll_const=n, opaque=self.opaque_pred)
                    ps = sub.run()
                    ok = bool(ps) and all(p.end == "return" and not p.pre_loop for p in ps)
                except Exception:
                    ok = False
            cache[name] = ok
        return cache[name]

    # ---------------------------------------------------------------- run
    def run(self):
        st = State()
        st.store = {}
        st.conds = []
        st.events = []
        st.active = set()
        st.decided = {}
        st.excluded = {}
        st.nfid = 1
        st.blocks = []
        st.nhv = 0
        st.pre_loop = {}
        f = Frame(self.body, 0, self.cgen, self.tgen)
        if self.auto_unroll and not self.unroll and not self.unroll_const and self.loops_of(self.body)[0] and self.const_loop_fn(self.body.key, 8):
            f.uc = 8
        st.frames = [f]
        b = self.body
        for i in range(1, b.argc + 1):
            name = b.local_name(i)
            name = self.rename.get(name, name)
            ty = b.locals[i]["ty"]
            if self.params and name in self.params:
                st.store[("L", 0, i)] = self.params[name]
            elif ty.startswith("&"):
                st.store[("L", 0, i)] = ("ptr", ("P", name), (), ty.startswith("&mut"))
                st.store[("P", name)] = ("obj", name)
            else:
                st.store[("L", 0, i)] = ("param", name)
        if self.entry_store:
            st.store.update(self.entry_store)
        work = [st]
        while work:
            s = work.pop()
            self.step(s, work)
            if len(self.paths) + len(work) > self.max_paths:
                raise PathLimit("%s: more than %d paths" % (self.body.key, self.max_paths))
        self.drain_loops()
        return self.paths

    def drain_loops(self):
        """`while let Some(x) = v.next_square() { v ^= x.bitboard(); .. }` (v a local set, every iteration removes exactly
        the element it took and nothing else touches v) visits each member of v's initial value once, like `for x in v`:
        such loops are re-expressed in the terms the engine uses for iteration (`next(S)`, `elem(S)`)."""
        NS = BB + "::next_square"
        cands = {}
        for p in self.paths:
            for (fid, hdr), snap in p.pre_loop.items():
                fnk = snap.get(("_fn", ()))
                bkey = fnk[1] if fnk else self.body.key
                for (lname, path), oldv in snap.items():
                    if path or lname.startswith("_") or lname.startswith("*") or oldv is None:
                        continue
                    cands.setdefault((bkey, hdr, lname), oldv)

        def fid_of(p, bkey, hdr):
            """the frame of path p in which the loop (bkey, hdr) runs (loops of inlined callees included)"""
            for (fid, h2), snap in p.pre_loop.items():
                fnk = snap.get(("_fn", ()))
                if h2 == hdr and (fnk[1] if fnk else self.body.key) == bkey:
                    return fid
            return None
        for (bkey, hdr, lname), _S0 in cands.items():
            b = self.facts.bodies.get(bkey)
            if b is None:
                continue
            H = ("hv", b.key.rsplit("::", 1)[-1], lname, hdr)
            ns = ("call", NS, (H,))
            X = ("field", ("downcast", ns, "Some"), "0")
            removed = (("xor", H, ("bbof", X)), ("xor", ("bbof", X), H), ("and", H, ("not", ("bbof", X))), ("and", ("not", ("bbof", X)), H))
            idx = [i for i in range(len(b.locals)) if b.local_name(i) == lname]
            if len(idx) != 1:
                continue
            back = []
            for p in self.paths:
                fid = fid_of(p, bkey, hdr)
                if fid is not None and p.end == "loopback" and (p.end_loop == (fid, hdr) or (p.end_loop is None and fid == 0 and p.end_bb == hdr)):
                    back.append((p, fid))
            if not back or not all(p.store.get(("L", fid, idx[0])) in removed for p, fid in back):
                continue
            if not all(any(c[0] == ("discr", ns) and c[1] == 1 for c in p.conds) for p, fid in back):
                continue
            for p in self.paths:
                fid = fid_of(p, bkey, hdr)
                if fid is None:
                    continue
                S0 = p.pre_loop[(fid, hdr)].get((lname, ()))
                if S0 is None:
                    continue
                memo = {}

                def sub(e):
                    if not isinstance(e, tuple):
                        return e
                    r = memo.get(e)
                    if r is None:
                        if e == X:
                            r = ("elem", S0)
                        elif e == ns:
                            r = ("next", S0)
                        else:
                            r = tuple(sub(x) for x in e)
                        memo[e] = r
                    return r
                p.conds = [(sub(c[0]),) + tuple(c[1:]) for c in p.conds]
                p.ret = sub(p.ret) if p.ret is not None else None
                for e in p.events:
                    if e.args:
                        e.args = [sub(a) for a in e.args] if isinstance(e.args, list) else tuple(sub(a) for a in e.args)
                    if e.ret is not None:
                        e.ret = sub(e.ret)
                for root in list(p.store):
                    if root != ("L", fid, idx[0]):
                        p.store[root] = sub(p.store[root])
                    elif p.store[root] in removed:
                        p.store[root] = H          # the drained set plays the part of the iterator: not an effect of the body

    def finish(self, st, end, ret=None):
        self.paths.append(Path(st.conds, st.events, ret, end, st.store, st.frames[0].bb if st.frames else -1,
                               st.blocks, st.pre_loop))
        if end == "loopback":
            self.paths[-1].end_loop = st.decided.get(("ended-at",))

    # ---------------------------------------------------------------- places
    def local_val(self, st, fr, l):
        v = st.store.get(("L", fr.fid, l))
        if v is None:
            return ("undef", fr.body.key.rsplit("::", 1)[-1], l)
        return v

    def load(self, st, root, path):
        v = st.store.get(root)
        if v is None:
            v = ("undef", root)
        return self.ops.project(v, path)

    def deref(self, st, v):
        if v[0] == "ptr":
            return self.load(st, v[1], v[2])
        if v[0] == "ref":
            return v[1]
        return ("deref", v)

    def proj_head(self, st, fr, p):
        if isinstance(p, dict):
            if "f" in p:
                return ("f", p["n"])
            if "idx" in p:
                return ("i", self.local_val(st, fr, p["idx"]))
            if "cidx" in p:
                return ("i", I(p["cidx"], "usize"))
            if "dc" in p:
                return ("d", p["n"])
        return ("f", "<%s>" % (p,))

    def read_place(self, st, fr, pl):
        v = self.local_val(st, fr, pl["l"])
        for p in pl["p"]:
            if p == "deref":
                v = self.deref(st, v)
            else:
                v = self.ops.get(v, self.proj_head(st, fr, p))
        return v

    def address(self, st, fr, pl):
        """-> (root, path) or None when the place goes through an unknown pointer."""
        root = ("L", fr.fid, pl["l"])
        path = ()
        for p in pl["p"]:
            if p == "deref":
                v = self.load(st, root, path)
                if v[0] == "ptr":
                    root, path = v[1], v[2]
                else:
                    return None
            else:
                path = path + (self.proj_head(st, fr, p),)
        return root, path

    def write_place(self, st, fr, pl, val):
        a = self.address(st, fr, pl)
        if a is None:
            st.events.append(Event(idx=len(st.events), kind="unknown_write", name="", decl="", args=(val,),
                                   targs=(), bb=fr.bb, fn=fr.body.key, line=0, ncond=len(st.conds), ret=None,
                                   depth=len(st.frames) - 1))
            return
        root, path = a
        if self.record_assigns and path and path[0][0] == "f":
            st.events.append(Event(idx=len(st.events), kind="assign", name=path[0][1], decl=root, args=(val,),
                                   targs=(), bb=fr.bb, fn=fr.body.key, line=0, ncond=len(st.conds), ret=None,
                                   depth=len(st.frames) - 1))
        if not path:
            st.store[root] = val
            if root[0] == "L" and isinstance(val, tuple) and val and val[0] not in ("int", "ptr"):
                ty = fr.body.locals[root[2]]["ty"]
                if not ty.startswith("&") and "?" not in ty:
                    if ty in (fr.body.j.get("generics") or ()):
                        ty = fr.tgen.get(ty)        # a type parameter: what it stands for in this frame, if known
                    if ty:
                        self.types.setdefault(val, ty)
        else:
            base = st.store.get(root)
            if base is None:
                base = ("undef", root)
            st.store[root] = self.ops.update(base, path, val)

    # ---------------------------------------------------------------- operands
    def const_val(self, fr, op):
        ty = op["ty"]
        if "v" in op:
            e = self.ops.enum_const(ty, op["v"])
            if e is not None:
                return e
            if ty == BB:
                return ("bbconst", op["v"])
            return I(op["v"], ty)
        if "tyconst" in op:
            n = op["tyconst"]
            if n in fr.cgen:
                return fr.cgen[n]
            return ("cparam", n)
        if "fnref" in op:
            r = op["fnref"]
            return ("fn", r.get("res") or r["fn"], tuple(r.get("rargs") or r.get("targs") or ()))
        if "closure" in op:
            return ("closure", op["closure"], ())
        if "str" in op:
            return ("str", op["str"])
        if "dec" in op:
            d = self.decode(op["dec"])
            if ty.startswith("&") and d[0] != "str":
                return ("ref", d)
            return d
        if "item" in op:
            item = op["item"]
            iargs = tuple(op.get("iargs") or ())
            if "promoted" in op:
                return self.promoted_value(item, op["promoted"])
            # generic associated const specialised through the type environment
            if iargs and iargs[0] in fr.tgen:
                tail = item.rsplit("::", 1)
                trait, cname = tail[0], tail[1]
                key = "<%s as %s>::%s" % (fr.tgen[iargs[0]], trait, cname)
                c = self.facts.consts.get(key)
                if c is not None and "v" in c:
                    e = self.ops.enum_const(c["ty"], c["v"])
                    return e if e is not None else I(c["v"], c["ty"])
            c = self.facts.consts.get(item)
            if c is not None and not iargs:
                if "v" in c:
                    e = self.ops.enum_const(c["ty"], c["v"])
                    if e is not None:
                        return e
                    return I(c["v"], c["ty"])
                if c["ty"] == BB and "dec" in c:
                    return self.decode(c["dec"])
            return ("item", item, iargs)
        if "zst" in op:
            return ("zst", ty)
        return ("constopaque", ty)

    def promoted_value(self, item, idx):
        """value of a promoted constant too large to be decoded inline: run its (straight-line) body"""
        key = "%s::promoted[%d]" % (item, idx)
        cache = self.__dict__.setdefault("_promoted", {})
        if key in cache:
            return cache[key]
        val = ("promoted", item, idx)
        pb = self.facts.bodies.get(key)
        if pb is not None and len(pb.blocks) <= 4 and not self.__dict__.get("_in_promoted"):
            self._in_promoted = True
            try:
                ps = SymExec(self.facts, pb, max_paths=8).run()
                if len(ps) == 1 and ps[0].end == "return" and ps[0].ret is not None:
                    r = ps[0].ret
                    if r[0] == "ptr" and r[1][0] == "L" and not r[2]:
                        inner = ps[0].store.get(r[1])
                        if inner is not None and not contains(inner, lambda x: x[0] in ("ptr", "undef")):
                            val = ("ref", inner)
                    elif not contains(r, lambda x: x[0] in ("ptr", "undef")):
                        val = r
            except Exception:
                pass
            finally:
                self._in_promoted = False
        cache[key] = val
        return val

    def decode(self, d):
        if isinstance(d, int):
            return I(d)
        if isinstance(d, list):
            return ("array", tuple(self.decode(x) for x in d))
        if isinstance(d, dict):
            if "struct" in d:
                if d["struct"] == BB:
                    return ("bbconst", d["fields"][0][1])
                return ("agg", d["struct"], d["struct"].rsplit("::", 1)[-1], None,
                        tuple((n, self.decode(v)) for n, v in d["fields"]))
            if "strlit" in d:
                return ("str", d["strlit"])
            if "enum" in d:
                if "payload" in d:
                    pl = tuple((str(i), self.decode(x)) for i, x in enumerate(d["payload"]))
                    return ("agg", d["enum"], d.get("variant"), d.get("vi"), pl)
                return ("enum", d["enum"], d.get("variant"))
        return ("constopaque", str(d)[:40])

    def operand(self, st, fr, op):
        k = op["k"]
        if k in ("copy", "move"):
            return self.read_place(st, fr, op["pl"])
        if k == "const":
            return self.const_val(fr, op)
        return ("opaque_operand",)

    # ---------------------------------------------------------------- rvalues
    def rvalue(self, st, fr, rv, span=None):
        k = rv["k"]
        o = self.ops
        if k == "use":
            return self.operand(st, fr, rv["op"])
        if k in ("ref", "rawptr"):
            a = self.address(st, fr, rv["pl"])
            if a is None:
                return ("ref", self.read_place(st, fr, rv["pl"]))
            return ("ptr", a[0], a[1], bool(rv["mut"]))
        if k == "cast":
            v = self.operand(st, fr, rv["op"])
            if rv["ck"] == "int2int":
                return o.cast(rv["ty"], v)
            if rv["ck"] in ("coerce", "ptr2ptr"):
                return v
            return ("cast", rv["ty"], v)
        if k == "bin":
            a = self.operand(st, fr, rv["a"])
            b = self.operand(st, fr, rv["b"])
            op = rv["op"]
            if op.endswith("WithOverflow"):
                base = op[:-len("WithOverflow")]
                r = o.bin(base, a, b)
                return ("tuple", (r, ("ovf", base, a, b, rv["aty"])))
            if op in ("Shl", "Shr", "ShlUnchecked", "ShrUnchecked") and b[0] == "int":
                b = I(b[1], a[2] if a[0] == "int" else b[2])
            return o.bin(op, a, b)
        if k == "un":
            return o.un(rv["op"], self.operand(st, fr, rv["a"]))
        if k == "discr":
            d = o.discr(self.read_place(st, fr, rv["pl"]))
            if d[0] == "discr":
                n = self.variant_count(rv.get("of"))
                if n:
                    self.dn[d] = n
                    if rv.get("of") in self.facts.adts and self.types.get(d[1]) not in self.facts.adts:
                        # the place read has this enum type (a value that travelled through a generic helper keeps it)
                        self.types[d[1]] = rv["of"]
            return d
        if k == "agg":
            ops_ = tuple(self.operand(st, fr, x) for x in rv["ops"])
            ak = rv["ak"]
            if ak == "adt":
                adt = rv["adt"]
                if adt == BB and len(ops_) == 1:
                    if ops_[0][0] == "int":
                        return ("bbconst", ops_[0][1])
                    return ("bb", ops_[0])
                if not ops_ and adt in self.ops.enum_by_discr:
                    return ("enum", adt, rv["variant"])
                return ("agg", adt, rv["variant"], rv["vi"], tuple(zip(rv["fields"], ops_)))
            if ak == "tuple":
                return ("tuple", ops_)
            if ak == "array":
                return ("array", ops_)
            if ak == "closure":
                return ("closure", rv["closure"], ops_)
            return ("aggother", ops_)
        if k == "repeat":
            return ("repeat", self.operand(st, fr, rv["op"]), rv["count"])
        return ("rvopaque", rv.get("dbg", "")[:60])

    # ---------------------------------------------------------------- stepping
    def enter_block(self, st, fr, bb):
        """Loop-header bookkeeping; returns False when the path ends here (back edge)."""
        loops, loopw = self.loops_of(fr.body)
        if self.unroll and bb in loops:
            key = ("visits", fr.fid, bb)
            n = st.decided.get(key, 0) + 1
            st.decided[key] = n
            return n <= self.unroll
        if bb in loops and self.unrollable(st, fr, bb):
            return True        # iteration over an array whose elements are known: executed element by element
        if bb in loops:
            key = (fr.fid, bb)
            if self.peel:
                # first arrival: run the header (and possibly one iteration) with the exact state;
                # second arrival (first back edge): havoc and explore one generic iteration; third: stop
                pk = ("peeled", fr.fid, bb)
                if pk not in st.active:
                    st.active.add(pk)
                    return True
            if key in st.active:
                st.decided[("ended-at",)] = key
                return False
            st.active.add(key)
            locs, mem = loopw[bb]
            tag = fr.body.key.rsplit("::", 1)[-1]
            snap = {}
            for l in sorted(locs, key=repr):
                base_path = ()
                if isinstance(l, tuple):
                    root = l
                    lname = "*" + l[1]
                    if fr.fid != 0:
                        # a loop in an inlined callee writing through one of its reference parameters: the place written
                        # is whatever that parameter points to in the caller
                        pv = None
                        for i_ in range(1, fr.body.argc + 1):
                            if fr.body.local_name(i_) == l[1]:
                                pv = st.store.get(("L", fr.fid, i_))
                        if pv is not None and pv[0] == "ptr":
                            root, base_path = pv[1], tuple(pv[2])
                        else:
                            mem = True          # unknown target: everything reachable through the entry's &mut parameters
                            continue
                else:
                    root = ("L", fr.fid, l)
                    lname = fr.body.local_name(l)
                paths = locs[l]
                if () in paths:
                    paths = {()}
                paths = {base_path + tuple(pth) for pth in paths}
                for path in sorted(paths):
                    old = st.store.get(root)
                    if old is not None and path:
                        oldv = self.ops.project(old, path)
                    else:
                        oldv = old
                    snap[(lname, path)] = oldv
                    if oldv is not None and oldv[0] in ("iter", "iter*", "iterk"):
                        newv = ("iter*", oldv[1])
                    elif oldv is not None and oldv[0] == "tuple" and 2 <= len(oldv[1]) <= 4:
                        # a tuple of accumulators: one havoc value per component
                        nm0 = lname + "".join("." + h[1] for h in path)
                        newv = ("tuple", tuple(("hv", tag, "%s.%d" % (nm0, i), bb) for i in range(len(oldv[1]))))
                    else:
                        newv = ("hv", tag, lname + "".join("." + h[1] for h in path), bb)
                    if not path:
                        st.store[root] = newv
                    else:
                        base = old if old is not None else ("undef", root)
                        st.store[root] = self.ops.update(base, path, newv)
            snap[("_fn", ())] = ("fn", fr.body.key)       # which function's loop this is (frame numbers differ between paths)
            st.pre_loop = dict(st.pre_loop)
            st.pre_loop[(fr.fid, bb)] = snap
            if mem:
                for root in list(st.store):
                    if root[0] == "P" and root[1] in self.mut_params:
                        st.nhv += 1
                        st.store[root] = ("hvmem", root[1], tag, bb)
        return True

    def unrollable(self, st, fr, bb):
        """the loop headed by bb pulls from an iterator over an array value with known elements"""
        blk = fr.body.blocks[bb]
        t = blk["term"]
        if t["k"] != "call" or "fn" not in t["callee"]:
            return False
        nm = t["callee"].get("res") or t["callee"]["fn"]
        if not (nm.endswith("Iterator>::next") or nm == "core::iter::traits::iterator::Iterator::next"):
            return False
        a = t["args"][0]
        if a["k"] not in ("move", "copy") or a["pl"]["p"]:
            return False
        l = a["pl"]["l"]
        pl = None
        for _ in range(3):
            d = [s for s in blk["stmts"] if s["k"] == "assign" and s["pl"]["l"] == l and not s["pl"]["p"]]
            if len(d) != 1 or d[0]["rv"]["k"] != "ref":
                return False
            pl = d[0]["rv"]["pl"]
            if pl["p"] == ["deref"]:
                l = pl["l"]
                continue
            break
        if pl is None or pl["p"]:
            return False
        v = self.local_val(st, fr, pl["l"])
        return v[0] in ("iter", "iterk") and v[1][0] == "array" and len(v[1][1]) <= 8

    def step(self, st, work):
        """Run the top frame's current block; push successor states."""
        while True:
            fr = st.frames[-1]
            bb = fr.bb
            if len(st.frames) == 1:
                st.blocks.append(bb)
            blk = fr.body.blocks[bb]
            for s in blk["stmts"]:
                if s["k"] == "assign":
                    v = self.rvalue(st, fr, s["rv"])
                    self.write_place(st, fr, s["pl"], v)
                elif s["k"] == "setdiscr":
                    pass
            t = blk["term"]
            k = t["k"]
            if k == "goto":
                if not self.goto(st, fr, t["t"]):
                    self.finish(st, "loopback")
                    return
                continue
            if k == "return":
                rv = self.local_val(st, fr, 0)
                if len(st.frames) == 1:
                    self.finish(st, "return", rv)
                    return
                st.frames.pop()
                # drop callee locals
                caller = st.frames[-1]
                self.write_place(st, caller, fr.ret_dest, rv)
                if fr.ret_target is None:
                    self.finish(st, "diverge")
                    return
                if not self.goto(st, caller, fr.ret_target):
                    self.finish(st, "loopback")
                    return
                continue
            if k == "unreachable":
                self.finish(st, "unreachable")
                return
            if k in ("resume", "terminate", "tailcall", "otherterm"):
                self.finish(st, k)
                return
            if k == "drop":
                if not self.goto(st, fr, t["t"]):
                    self.finish(st, "loopback")
                    return
                continue
            if k == "assert":
                c = self.operand(st, fr, t["cond"])
                st.events.append(Event(idx=len(st.events), kind="assert", name=t["msg"], decl=t["msgd"],
                                       args=(c, TRUE if t["expected"] else FALSE), targs=(), bb=bb,
                                       fn=fr.body.key, line=t["sp"]["line"], ncond=len(st.conds), ret=None,
                                       depth=len(st.frames) - 1))
                if c[0] == "int" and (c[1] != 0) != t["expected"]:
                    self.finish(st, "panic")
                    return
                if not self.goto(st, fr, t["t"]):
                    self.finish(st, "loopback")
                    return
                continue
            if k == "switch":
                d = self.operand(st, fr, t["discr"])
                arms = t["arms"]
                if self.is_bool(fr, t):
                    # branch on the un-negated condition, so that `!c` and `c` are the same decision
                    while d[0] == "un" and d[1] == "Not":
                        d = d[2]
                        arms = [[1 - v, b2] for v, b2 in arms]
                if d[0] == "int":
                    tgt = t["otherwise"]
                    for v, b2 in arms:
                        if v == d[1]:
                            tgt = b2
                            break
                    if not self.goto(st, fr, tgt):
                        self.finish(st, "loopback")
                        return
                    continue
                imp = self.implied(st, d)
                if imp is not None:
                    tgt = t["otherwise"]
                    for v, b2 in arms:
                        if v == imp:
                            tgt = b2
                            break
                    if not self.goto(st, fr, tgt):
                        self.finish(st, "loopback")
                        return
                    continue
                if d in st.decided:
                    val = st.decided[d]
                    tgt = t["otherwise"]
                    for v, b2 in arms:
                        if v == val:
                            tgt = b2
                            break
                    if not self.goto(st, fr, tgt):
                        self.finish(st, "loopback")
                        return
                    continue
                excl = st.excluded.get(d, frozenset())
                succ = []
                for v, b2 in arms:
                    if v in excl:
                        continue
                    succ.append((v, b2))
                other = t["otherwise"]
                oblk = fr.body.blocks[other]
                other_ok = not (oblk["term"]["k"] == "unreachable" and not oblk["stmts"])
                if other_ok and d in self.dn:
                    left = set(range(self.dn[d])) - {v for v, _ in arms} - set(excl)
                    if not left:
                        other_ok = False
                # a bool/discr switch whose arms cover the domain
                nstates = []
                for v, b2 in succ:
                    tb = fr.body.blocks[b2]
                    if tb["term"]["k"] == "unreachable" and not tb["stmts"]:
                        continue
                    s2 = st.clone()
                    s2.decided[d] = v
                    s2.conds.append((d, v, bb, len(st.frames) - 1))
                    self.propagate(s2, d, v)
                    nstates.append((s2, b2))
                if other_ok:
                    s2 = st.clone()
                    vals = frozenset(v for v, _ in arms) | excl
                    s2.excluded[d] = vals
                    if d[0] != "int" and self.is_bool(fr, t) and len(arms) == 1:
                        s2.decided[d] = 1 - arms[0][0]
                        s2.conds.append((d, 1 - arms[0][0], bb, len(st.frames) - 1))
                        self.propagate(s2, d, 1 - arms[0][0])
                    else:
                        s2.conds.append((d, ("not", tuple(sorted(vals))), bb, len(st.frames) - 1))
                    nstates.append((s2, other))
                for s2, b2 in nstates:
                    f2 = s2.frames[-1]
                    if not self.goto(s2, f2, b2):
                        self.finish(s2, "loopback")
                    else:
                        work.append(s2)
                return
            if k == "call":
                r = self.call(st, fr, t)
                if r == "end":
                    return
                continue
            self.finish(st, "unknown-term")
            return

    def eq_enum(self, d):
        """Eq/Ne(X, enum const) or Eq/Ne(discr(X), k) -> (X, discriminant value, is_eq)"""
        if d[0] == "bin" and d[1] in ("Eq", "Ne"):
            a, b = d[2], d[3]
            if a[0] == "discr" and b[0] == "int":
                return a[1], b[1], d[1] == "Eq"
            if b[0] == "discr" and a[0] == "int":
                return b[1], a[1], d[1] == "Eq"
            if b[0] == "enum" and a[0] != "enum":
                k = self.ops.discr_of(b[1], b[2])
                if k is not None:
                    return a, k, d[1] == "Eq"
            if a[0] == "enum" and b[0] != "enum":
                k = self.ops.discr_of(a[1], a[2])
                if k is not None:
                    return b, k, d[1] == "Eq"
        return None

    def eq_some_enum(self, d):
        """Eq/Ne(X, Some(enum const)) -> (X, payload discriminant, is_eq)"""
        if d[0] == "bin" and d[1] in ("Eq", "Ne"):
            for x, c in ((d[2], d[3]), (d[3], d[2])):
                if c[0] == "agg" and c[2] == "Some" and len(c[4]) == 1 and c[4][0][1][0] == "enum" and x[0] != "agg":
                    k = self.ops.discr_of(c[4][0][1][1], c[4][0][1][2])
                    if k is not None:
                        return x, k, d[1] == "Eq"
        return None

    def implied(self, st, d):
        """value of condition d implied by earlier decisions, or None"""
        if d[0] == "bin" and d[1] in CMP and d[3][0] == "int" and d[2] in st.decided and isinstance(st.decided[d[2]], int):
            return int(CMP[d[1]](st.decided[d[2]], d[3][1]))
        if d[0] == "bin" and d[1] in CMP and d[2][0] == "int" and d[3] in st.decided and isinstance(st.decided[d[3]], int):
            return int(CMP[d[1]](d[2][1], st.decided[d[3]]))
        if d[0] == "bin" and d[1] in ("Eq", "Ne") and (d[2][0] == "int") != (d[3][0] == "int"):
            x, k = (d[3], d[2][1]) if d[2][0] == "int" else (d[2], d[3][1])
            if k in st.excluded.get(x, ()):
                return int(d[1] == "Ne")
        r2 = self.eq_some_enum(d)
        if r2 is not None:
            x, k, is_eq = r2
            dx = ("discr", x)
            dp = ("discr", ("field", ("downcast", x, "Some"), "0"))
            if st.decided.get(dx) == 0:
                return int(not is_eq)
            if dp in st.decided:
                same = st.decided[dp] == k and st.decided.get(dx, 1) == 1
                if st.decided[dp] != k:
                    return int(not is_eq)
                if dx in st.decided and same:
                    return int(is_eq)
            if k in st.excluded.get(dp, ()):
                return int(not is_eq)
        if d[0] == "isempty":
            ln = ("len", d[1])
            if ln in st.decided:
                return int(st.decided[ln] == 0)
            if 0 in st.excluded.get(ln, ()):
                return 0
        r = self.eq_enum(d)
        if r is None:
            return None
        x, k, is_eq = r
        dx = ("discr", x)
        if dx in st.decided:
            same = st.decided[dx] == k
            return int(same == is_eq)
        if k in st.excluded.get(dx, ()):
            return int(not is_eq)
        return None

    def propagate(self, st, d, v):
        if d[0] == "bin" and d[1] in ("Eq", "Ne") and isinstance(v, int) and (d[2][0] == "int") != (d[3][0] == "int"):
            # x == k decided: remember the value (or its exclusion; with two variants the other one)
            x, k = (d[3], d[2][1]) if d[2][0] == "int" else (d[2], d[3][1])
            if (d[1] == "Eq") == bool(v):
                st.decided.setdefault(x, k)
            else:
                st.excluded[x] = frozenset(st.excluded.get(x, frozenset()) | {k})
                if self.dn.get(x) == 2 and k in (0, 1):
                    st.decided.setdefault(x, 1 - k)
        r2 = self.eq_some_enum(d)
        if r2 is not None and isinstance(v, int):
            x, k, is_eq = r2
            dx = ("discr", x)
            dp = ("discr", ("field", ("downcast", x, "Some"), "0"))
            if bool(v) == is_eq:
                st.decided.setdefault(dx, 1)
                st.decided.setdefault(dp, k)
            elif st.decided.get(dx) == 1:
                st.excluded[dp] = frozenset(st.excluded.get(dp, frozenset()) | {k})
        if d[0] == "isempty" and isinstance(v, int):
            ln = ("len", d[1])
            if v == 1:
                st.decided.setdefault(ln, 0)
            else:
                st.excluded[ln] = frozenset(st.excluded.get(ln, frozenset()) | {0})
        r = self.eq_enum(d)
        if r is None or not isinstance(v, int):
            return
        x, k, is_eq = r
        dx = ("discr", x)
        if bool(v) == is_eq:
            st.decided.setdefault(dx, k)
        else:
            st.excluded[dx] = frozenset(st.excluded.get(dx, frozenset()) | {k})

    def variant_count(self, ty):
        if not ty:
            return None
        ty = ty.lstrip("&").replace("mut ", "").strip()
        a = self.facts.adts.get(ty)
        if a and a["kind"] == "Enum":
            return len(a["variants"])
        for pre in ("core::option::Option<", "core::result::Result<", "core::ops::control_flow::ControlFlow<"):
            if ty.startswith(pre):
                return 2
        return None

    def is_bool(self, fr, t):
        return t.get("dty") == "bool"

    def goto(self, st, fr, bb):
        fr.bb = bb
        return self.enter_block(st, fr, bb)

    # ---------------------------------------------------------------- calls
    def resolve(self, fr, callee):
        name = callee.get("res")
        targs = list(callee.get("rargs") or callee.get("targs") or ())
        if name is None:
            decl = callee.get("fn")
            dt = list(callee.get("targs") or ())
            # trait method on a type parameter: specialise through the type environment
            if decl and dt and dt[0] in fr.tgen:
                trait, m = decl.rsplit("::", 1)
                cand = "<%s as %s>::%s" % (fr.tgen[dt[0]], trait, m)
                if cand in self.facts.bodies:
                    return cand, dt[1:]
            return decl, dt
        return name, targs

    def call(self, st, fr, t):
        callee = t["callee"]
        o = self.ops
        args = tuple(self.operand(st, fr, a) for a in t["args"])
        depth = len(st.frames) - 1
        direct = None
        if "clos" not in callee and callee.get("fn") in FN_TRAIT_CALLS and len(args) == 2 and args[1][0] == "tuple":
            # f(..) on a closure defined in the analysed code: a direct call of its body
            cv = args[0]
            if cv[0] in ("ptr", "ref"):
                cv = self.deref(st, cv)
            if cv[0] == "fn":
                # `f(x)` where f holds a function item
                callee = {"fn": cv[1], "targs": list(cv[2]), "res": cv[1], "rargs": list(cv[2])}
                args = tuple(args[1][1])
            if cv[0] == "closure" and cv[1] in self.facts.bodies:
                direct = cv
                if args[0][0] != "ptr":
                    # by-value callable: give the body something to point its environment at
                    root = ("E", st.nfid)
                    st.store[root] = cv
                    args = (("ptr", root, (), True),) + tuple(args[1][1])
                else:
                    args = (args[0],) + tuple(args[1][1])
        if "clos" in callee or direct is not None:
            # direct call of a closure value (synthesised by cva/desugar.py, or `f(x)` on a local closure)
            cv = direct if direct is not None else self.local_val(st, fr, callee["clos"])
            cb = self.facts.bodies.get(cv[1]) if cv[0] == "closure" else None
            if cb is not None and depth < self.max_depth + 6 and cb.argc == len(args):
                nf = Frame(cb, st.nfid, fr.cgen, fr.tgen)
                st.nfid += 1
                nf.ret_dest = t["dest"]
                nf.ret_target = t["t"]
                env = args[0] if cb.locals[1]["ty"].startswith("&") else cv
                st.store[("L", nf.fid, 1)] = env
                for i, a in enumerate(args[1:]):
                    st.store[("L", nf.fid, i + 2)] = a
                ev = Event(idx=len(st.events), kind="inlined", name=cv[1], decl="<closure-call>", args=args,
                           targs=(), bb=fr.bb, fn=fr.body.key, line=t["sp"]["line"], ncond=len(st.conds),
                           ret=None, depth=depth)
                ev.extra = {"exp": t["sp"]["exp"], "pointees": {}}
                st.events.append(ev)
                st.frames.append(nf)
                nf.bb = 0
                if not self.enter_block(st, nf, 0):
                    self.finish(st, "loopback")
                    return "end"
                return "cont"
            if cv[0] == "fn":
                # a function item used as the callable (`opt.map(Self::key_of)`): a plain call of that function
                callee = {"fn": cv[1], "targs": list(cv[2]), "res": cv[1], "rargs": list(cv[2])}
                args = tuple(args[1:])
            else:
                # unknown callable (a generic parameter): same shape as a call through FnMut
                callee = {"fn": "core::ops::function::FnMut::call_mut", "targs": []}
                args = (args[0], ("tuple", tuple(args[1:])))
        if "fn" not in callee:
            fv = self.operand(st, fr, callee["indirect"])
            if fv[0] == "fn":
                # a call through a function pointer whose value is a known function item
                callee = {"fn": fv[1], "targs": list(fv[2]), "res": fv[1], "rargs": list(fv[2])}
        if "fn" not in callee:
            val = ("callind", fv, args)
            name, targs = "<indirect>", ()
        else:
            name, targs = self.resolve(fr, callee)
            targs = tuple(self.subst_targ(fr, x) for x in targs)
            val = None
        ev = Event(idx=len(st.events), kind="call", name=name, decl=callee.get("fn", ""), args=args,
                   targs=targs, bb=fr.bb, fn=fr.body.key, line=t["sp"]["line"], ncond=len(st.conds),
                   ret=None, depth=depth)
        ev.extra = {"exp": t["sp"]["exp"]}
        ev.extra["pointees"] = {i: self.load(st, a[1], a[2]) for i, a in enumerate(args) if a[0] == "ptr" and a[1][0] == "L"}
        # what the locals a closure argument captures by reference hold when the call is made
        ev.extra["captured"] = {(i, j): self.load(st, c[1], c[2]) for i, a in enumerate(args) if a[0] == "closure"
                                for j, c in enumerate(a[2]) if isinstance(c, tuple) and c and c[0] == "ptr" and c[1][0] == "L"}
        if val is None:
            m = self.model(st, fr, name, args, targs, ev)
            if m is not None:
                val = m
            elif self.should_inline(name, sum(1 for fr_ in st.frames[1:] if fr_.body.kind != "Closure")):
                body = self.facts.bodies[name]
                nf = Frame(body, st.nfid, self.sub_cgen(fr, body, targs), self.sub_tgen(fr, body, targs))
                if not self.unroll and self.loops_of(body)[0] and self.const_loop_fn(name):
                    nf.uc = 2            # a constant-array loop, executed element by element
                st.nfid += 1
                nf.ret_dest = t["dest"]
                nf.ret_target = t["t"]
                for i, a in enumerate(args):
                    st.store[("L", nf.fid, i + 1)] = a
                ev.kind = "inlined"
                st.events.append(ev)
                st.frames.append(nf)
                nf.bb = 0
                if not self.enter_block(st, nf, 0):
                    self.finish(st, "loopback")
                    return "end"
                return "cont"
            else:
                key = name
                ct = tuple(x for x in targs if isinstance(x, str) and not x.startswith("{closure") and not x.startswith("'"))
                ct = tuple(x for x in ct if x in ("true", "false") or (name.startswith("cozy_chess") and "::" in x))
                impure = []
                for a in args:
                    self.mut_ptrs(a, impure)
                # shared references to locals are passed by value in the expression (the callee can only read them)
                vargs = tuple(("ref", self.load(st, a[1], a[2])) if (a[0] == "ptr" and not a[3] and a[1][0] == "L") else a
                              for a in args)
                if impure:
                    # a call that may mutate through its arguments is not a pure expression: number repeats
                    base = ("call", key, vargs, ct)
                    nrep = sum(1 for e0 in st.events if e0.kind == "call" and e0.ret is not None
                               and e0.ret[:4] == base)
                    val = ("call", key, vargs, ct, nrep)
                else:
                    val = ("call", key, vargs, ct) if ct else ("call", key, vargs)
                self.effects(st, args, ev)
        ev.ret = val
        st.events.append(ev)
        self.write_place(st, fr, t["dest"], val)
        if t["t"] is None:
            self.finish(st, "diverge")
            return "end"
        if not self.goto(st, fr, t["t"]):
            self.finish(st, "loopback")
            return "end"
        return "cont"

    def subst_targ(self, fr, x):
        if x in fr.cgen:
            v = fr.cgen[x]
            return "true" if v == TRUE else "false" if v == FALSE else x
        if x in fr.tgen:
            return fr.tgen[x]
        return x

    def sub_cgen(self, fr, body, targs):
        g = {}
        names = body.j["generics"]
        for n, a in zip(names, targs):
            if a == "true":
                g[n] = TRUE
            elif a == "false":
                g[n] = FALSE
            elif a in fr.cgen:
                g[n] = fr.cgen[a]
        return g

    def sub_tgen(self, fr, body, targs):
        g = {}
        names = body.j["generics"]
        for n, a in zip(names, targs):
            if a in fr.tgen:
                g[n] = fr.tgen[a]
            elif "::" in a and not a.startswith("{"):
                g[n] = a
        return g

    def mut_ptrs(self, v, out, depth=0):
        if depth > 6 or not isinstance(v, tuple) or not v:
            return
        if v[0] == "ptr":
            if v[3]:
                out.append(v)
            return
        if v[0] in ("closure", "tuple", "array"):
            for x in v[-1]:
                self.mut_ptrs(x, out, depth + 1)
        elif v[0] == "agg":
            for _, x in v[4]:
                self.mut_ptrs(x, out, depth + 1)

    def modset(self, name):
        """top-level fields of a `&mut` struct argument that `name` (transitively) may write: {param index: set(fields) or None}"""
        if name in self._modset:
            return self._modset[name]
        self._modset[name] = {}          # recursion guard: optimistic, refined below
        b = self.facts.bodies.get(name)
        if b is None:
            self._modset[name] = None
            return None
        res = {}
        mutparams = {i for i in range(1, b.argc + 1) if b.locals[i]["ty"].startswith("&mut")}
        # local pointer aliases of parameter sub-places:  _x = &mut (*p).f...
        alias = {}
        unknown = False
        upvars = set()
        if b.kind == "Closure":
            # a closure body: the mutable borrows it captured count like `&mut` parameters (keyed ("up", k)); they are
            # reached as (*_1).k (or _1.k when the environment is taken by value)
            mutparams = set(mutparams) - {1}
            for blk in b.blocks:
                for s in blk["stmts"]:
                    if s["k"] == "assign" and not s["pl"]["p"] and s["rv"]["k"] == "use" and s["rv"]["op"]["k"] in ("copy", "move"):
                        pl_ = s["rv"]["op"]["pl"]
                        pr_ = [q for q in pl_["p"] if q != "deref"]
                        if pl_["l"] == 1 and len(pr_) == 1 and isinstance(pr_[0], dict) and "f" in pr_[0] and str(pr_[0].get("ty", "")).startswith("&mut"):
                            alias[s["pl"]["l"]] = (("up", pr_[0]["f"]), "*")
                            upvars.add(("up", pr_[0]["f"]))

        def base_of(pl):
            l = pl["l"]
            projs = pl["p"]
            if b.kind == "Closure" and l == 1:
                pr_ = [q for q in projs]
                if pr_ and pr_[0] == "deref":
                    pr_ = pr_[1:]
                if len(pr_) >= 2 and isinstance(pr_[0], dict) and "f" in pr_[0] and str(pr_[0].get("ty", "")).startswith("&mut") and pr_[1] == "deref":
                    flds = [q["n"] for q in pr_[2:] if isinstance(q, dict) and "f" in q]
                    upvars.add(("up", pr_[0]["f"]))
                    return ("up", pr_[0]["f"]), (flds[0] if flds else None)
            if l in mutparams and projs and projs[0] == "deref":
                flds = [q["n"] for q in projs[1:] if isinstance(q, dict) and "f" in q]
                return l, (flds[0] if flds else None)
            if l in alias and projs and projs[0] == "deref":
                a_ = alias[l]
                if a_[1] in ("*", None):
                    # a pointer to the whole struct, projected further: the field it is projected to
                    flds = [q["n"] for q in projs[1:] if isinstance(q, dict) and "f" in q]
                    return a_[0], (flds[0] if flds else a_[1])
                return a_
            return None
        for blk in b.blocks:
            if blk["cleanup"]:
                continue
            for s in blk["stmts"]:
                if s["k"] != "assign":
                    continue
                tgt = base_of(s["pl"])
                if tgt is not None:
                    res.setdefault(tgt[0], set()).add(tgt[1])
                rv = s["rv"]
                if rv["k"] == "agg" and rv.get("ak") == "closure":
                    # a closure that captures a mutable borrow of (part of) the struct: whoever receives the closure may
                    # write through it; which fields is not followed -- anything
                    cms_ = self.modset(rv["closure"]) if rv.get("closure") in self.facts.bodies else None
                    for k_, op_ in enumerate(rv["ops"]):
                        if op_["k"] in ("move", "copy") and not op_["pl"]["p"]:
                            ul_ = op_["pl"]["l"]
                            tgt_ = alias.get(ul_) if (ul_ in alias and b.locals[ul_]["ty"].startswith("&mut")) else ((ul_, "*") if ul_ in mutparams else None)
                            if tgt_ is None:
                                continue
                            # what the closure body may write through this captured borrow (None = anything)
                            wr_ = None if cms_ is None else cms_.get(("up", k_), set())
                            if tgt_[1] not in ("*", None):
                                if wr_ is None or wr_:
                                    res.setdefault(tgt_[0], set()).add(tgt_[1])
                            elif wr_ is None:
                                res.setdefault(tgt_[0], set()).add(None)
                            else:
                                for fl_ in wr_:
                                    res.setdefault(tgt_[0], set()).add(fl_)
                if rv["k"] in ("ref", "rawptr") and rv["mut"]:
                    src = base_of(rv["pl"])
                    if src is not None and not s["pl"]["p"]:
                        alias[s["pl"]["l"]] = src
                    elif rv["pl"]["l"] in mutparams and not rv["pl"]["p"]:
                        pass
                elif rv["k"] == "use" and rv["op"]["k"] in ("copy", "move") and not s["pl"]["p"]:
                    sl = rv["op"]["pl"]["l"]
                    if not rv["op"]["pl"]["p"] and sl in alias:
                        alias[s["pl"]["l"]] = alias[sl]
                    elif not rv["op"]["pl"]["p"] and sl in mutparams:
                        alias[s["pl"]["l"]] = (sl, "*")
            t = blk["term"]
            if t["k"] == "call":
                cn = callee_name(t)
                for ai, a in enumerate(t["args"]):
                    if a["k"] not in ("copy", "move") or a["pl"]["p"]:
                        continue
                    al = a["pl"]["l"]
                    tgt = alias.get(al)
                    if tgt is None and al in mutparams:
                        tgt = (al, "*")
                    if tgt is None:
                        continue
                    if not b.locals[al]["ty"].startswith("&mut"):
                        continue
                    if tgt[1] == "*" or tgt[1] is None:
                        # the parameter itself, or a reborrow of the whole struct (`&mut *self`), handed on
                        sub = self.modset(cn) if cn in self.facts.bodies else None
                        if sub is None or sub.get(ai + 1) is None and (ai + 1) in (sub or {}):
                            res.setdefault(tgt[0], set()).add(None)
                        else:
                            for fl in (sub.get(ai + 1) or set()):
                                res.setdefault(tgt[0], set()).add(fl)
                            cb_ = self.facts.bodies.get(cn)
                            if cb_ is not None and "&mut" in cb_.locals[0]["ty"]:
                                # the callee hands back a mutable reference into the struct: whatever is done through it
                                # later stays inside the fields it may point into
                                tf_ = self.touched_fields(cn, ai + 1)
                                if tf_ is None:
                                    res.setdefault(tgt[0], set()).add(None)
                                else:
                                    for fl in tf_:
                                        res.setdefault(tgt[0], set()).add(fl)
                    else:
                        res.setdefault(tgt[0], set()).add(tgt[1])
        out = {}
        for i in list(mutparams) + sorted(upvars):
            flds = res.get(i, set())
            out[i] = None if None in flds else set(flds)
        self._modset[name] = out
        return out

    def effects(self, st, args, ev):
        ms = self.modset(ev.name) if ev.name in self.facts.bodies else None
        k = 0
        for ai, a in enumerate(args):
            ptrs = []
            self.mut_ptrs(a, ptrs)
            for p in ptrs:
                root, path = p[1], p[2]
                old = self.load(st, root, path)
                fields = None
                if ms is not None and a is p:
                    fields = ms.get(ai + 1)
                if old[0] in ("iter", "iter*", "iterk"):
                    new = ("iter*", old[1])
                    base = st.store.get(root, ("undef", root))
                    st.store[root] = self.ops.update(base, path, new) if path else new
                elif fields is not None:
                    for fl in sorted(fields):
                        # the callee's version of the pointee, projected on the field it may write
                        new = ("field", ("post", ev.name, ev.idx, k), fl)
                        base = st.store.get(root, ("undef", root))
                        st.store[root] = self.ops.update(base, path + (("f", fl),), new)
                else:
                    new = ("post", ev.name, ev.idx, k)
                    base = st.store.get(root, ("undef", root))
                    st.store[root] = self.ops.update(base, path, new) if path else new
                k += 1

    # ---------------------------------------------------------------- models
    def model(self, st, fr, name, args, targs, ev):
        o = self.ops
        if self.raw and (name.startswith(BB) or name.startswith("<" + BB) or name.startswith("cozy_chess_types::square::Square::bitboard")
                         or name.startswith("<cozy_chess_types::bitboard::")):
            return None
        # BitBoard algebra
        if name.startswith("<" + BB + " as core::ops::"):
            for suf, op in BBOPS.items():
                if name.endswith(suf):
                    if op == "not":
                        return bb_not(args[0])
                    return bb_bin(op, args[0], args[1])
            for suf, op in BBASSIGN.items():
                if name.endswith(suf) and args[0][0] == "ptr":
                    cur = self.load(st, args[0][1], args[0][2])
                    new = bb_bin(op, cur, args[1])
                    self.store_ptr(st, args[0], new)
                    return ("tuple", ())
        if name.startswith("<u64 as core::ops::") or name.startswith("<&u64 as core::ops::"):
            m = {"BitAnd>::bitand": "BitAnd", "BitOr>::bitor": "BitOr", "BitXor>::bitxor": "BitXor"}
            for suf, op in m.items():
                if name.endswith(suf):
                    return o.bin(op, args[0], args[1])
            m2 = {"BitAndAssign>::bitand_assign": "BitAnd", "BitOrAssign>::bitor_assign": "BitOr",
                  "BitXorAssign>::bitxor_assign": "BitXor"}
            for suf, op in m2.items():
                if name.endswith(suf) and args[0][0] == "ptr":
                    cur = self.load(st, args[0][1], args[0][2])
                    self.store_ptr(st, args[0], o.bin(op, cur, args[1]))
                    return ("tuple", ())
        if name == BB + "::is_empty":
            return bb_isempty(args[0])
        if name == BB + "::has":
            sq_ = args[1]
            if sq_[0] == "field" and sq_[2] == "0" and sq_[1][0] == "downcast" and sq_[1][2] == "Some" and sq_[1][1][0] == "call" \
                    and sq_[1][1][1] == BB + "::next_square" and sq_[1][1][2] == (args[0],):
                return TRUE            # the lowest member of a set is a member of it
            return ("has", args[0], args[1])
        if name == BB + "::is_disjoint":
            return bb_isempty(bb_bin("and", args[0], args[1]))
        if name == BB + "::is_subset":
            return bb_isempty(bb_bin("and", args[0], bb_not(args[1])))
        if name == BB + "::is_superset":
            return bb_isempty(bb_bin("and", args[1], bb_not(args[0])))
        if name == BB + "::len":
            return ("len", args[0])
        if name == BB + "::iter":
            return ("iter", args[0])
        if name == "cozy_chess_types::square::Square::bitboard":
            return ("bbof", args[0])
        if name.startswith("<cozy_chess_types::color::Color as core::ops::") and name.endswith("Not>::not"):
            a = args[0]
            if a[0] == "enum":
                return ("enum", a[1], "Black" if a[2] == "White" else "White")
            if a[0] == "cnot":
                return a[1]
            return ("cnot", a)
        if name == "cozy_chess_types::square::Square::try_offset" and self.unroll and len(args) == 3 and \
                args[0][0] == "enum" and args[1][0] == "int" and args[2][0] == "int":
            # concrete coordinates: file+dx, rank+dy inside the board or None (C19 proves try_offset is this arithmetic)
            v = args[0][2]
            fi, ri = "ABCDEFGH".index(v[0]), int(v[1]) - 1

            def sgn(x):
                w = {"i8": 8, "i16": 16, "i32": 32, "i64": 64, "isize": 64}.get(x[2])
                return x[1] - (1 << w) if w and x[1] >= (1 << (w - 1)) else x[1]
            nf, nr = fi + sgn(args[1]), ri + sgn(args[2])
            if 0 <= nf < 8 and 0 <= nr < 8:
                return ("agg", "core::option::Option", "Some", 1, (("0", ("enum", args[0][1], "ABCDEFGH"[nf] + str(nr + 1))),))
            return ("agg", "core::option::Option", "None", 0, ())
        if name in ("cozy_chess_types::square::Square::file", "cozy_chess_types::square::Square::rank"):
            a = args[0]
            if a[0] == "call" and a[1] == "cozy_chess_types::square::Square::new":
                return a[2][0] if name.endswith("file") else a[2][1]
            return None
        # core
        if name.endswith("core::clone::Clone>::clone") and len(args) == 1:
            db = self.facts.bodies.get(name)
            if db is None or (db.j["sp"]["exp"] and db.crate == "cozy_chess_types"):
                a = args[0]
                if a[0] in ("ptr", "ref"):
                    return self.deref(st, a)
        if (name.endswith("core::cmp::PartialEq>::eq") or name.endswith("core::cmp::PartialEq>::ne")) and len(args) == 2:
            db = self.facts.bodies.get(name)
            if db is not None and db.j["sp"]["exp"] and db.crate == "cozy_chess_types":
                a0 = self.deref(st, args[0]) if args[0][0] in ("ptr", "ref") else args[0]
                a1 = self.deref(st, args[1]) if args[1][0] in ("ptr", "ref") else args[1]
                return self.ops.bin("Eq" if name.endswith("::eq") else "Ne", a0, a1)
        if name == "core::mem::replace" and args[0][0] == "ptr":
            old = self.load(st, args[0][1], args[0][2])
            self.store_ptr(st, args[0], args[1])
            return old
        if name.startswith("core::option::Option<") and name.endswith("::ok_or") and len(args) == 2 and args[0][0] == "agg":
            # the Option is known on this path
            if args[0][2] == "Some":
                return ("agg", "core::result::Result", "Ok", 0, (("0", dict(args[0][4]).get("0")),))
            if args[0][2] == "None":
                return ("agg", "core::result::Result", "Err", 1, (("0", args[1]),))
        if name.startswith("core::option::Option<") and name.rsplit("::", 1)[-1] in ("is_some", "is_none"):
            a = args[0]
            if a[0] in ("ptr", "ref"):
                a = self.deref(st, a)
            d = o.discr(a)
            return o.bin("Eq", d, I(1 if name.endswith("is_some") else 0, "isize"))
        if name.startswith("core::result::Result<") and name.rsplit("::", 1)[-1] in ("is_ok", "is_err"):
            a = args[0]
            if a[0] in ("ptr", "ref"):
                a = self.deref(st, a)
            d = o.discr(a)
            return o.bin("Eq", d, I(0 if name.endswith("is_ok") else 1, "isize"))
        if (name.endswith("::eq") or name.endswith("::ne")) and len(args) == 2 and \
                (name.startswith("core::") or name.startswith("<core::") or "as core::cmp::PartialEq" in name):
            b = self.facts.bodies.get(name)
            if b is None or name.startswith("core::") or name.startswith("<core::"):
                a0 = self.deref(st, args[0]) if args[0][0] in ("ptr", "ref") else args[0]
                a1 = self.deref(st, args[1]) if args[1][0] in ("ptr", "ref") else args[1]
                return self.ops.bin("Eq" if name.endswith("::eq") else "Ne", a0, a1)
        for suf, op in (("::lt", "Lt"), ("::le", "Le"), ("::gt", "Gt"), ("::ge", "Ge")):
            if name == "core::cmp::PartialOrd" + suf or (name.startswith("core::cmp::impls::") and name.endswith(suf)):
                a0 = self.deref(st, args[0]) if args[0][0] in ("ptr", "ref") else args[0]
                a1 = self.deref(st, args[1]) if args[1][0] in ("ptr", "ref") else args[1]
                return self.ops.bin(op, a0, a1)
        if name in ("[T]::len", "core::slice::<impl [T]>::len") and len(args) == 1:
            a = args[0]
            v = self.deref(st, a) if a[0] in ("ptr", "ref") else a
            if v[0] == "array":
                return I(len(v[1]), "usize")
        if name in ("[T]::iter", "core::slice::<impl [T]>::iter") and len(args) == 1:
            a = args[0]
            v = self.deref(st, a) if a[0] in ("ptr", "ref") else a
            if a[0] == "ptr" and a[1][0] == "L" and v[0] == "array" and len(v[1]) <= 8:
                # a local array with known elements, iterated by reference
                return ("iter", ("array", tuple(("ref", e) for e in v[1])))
            if a[0] == "ref":
                if (self.unroll_const or fr.uc) and a[1][0] == "array" and len(a[1][1]) <= (self.unroll_const or fr.uc):
                    return ("iter", ("array", tuple(("ref", e) for e in a[1][1])))
                return ("iter", a)        # `X.iter()` on a constant array reads like `for x in &X`
        if name == "core::iter::traits::iterator::Iterator::rev" and len(args) == 1 and args[0][0] == "iter":
            return ("iter", ("rev", args[0][1]))
        if name == "core::iter::traits::iterator::Iterator::zip" and len(args) == 2 and args[0][0] in ("iter",):
            b = args[1]
            if b[0] == "iter":
                b = b[1]
            byref = b[0] in ("ptr", "ref")
            barr = self.deref(st, b) if byref else b
            return ("iter", ("zip", args[0][1], barr, byref))
        if name.endswith("IntoIterator>::into_iter") or name == "core::iter::traits::collect::IntoIterator::into_iter":
            a = args[0]
            if a[0] in ("iter", "iter*"):
                return a
            if (self.unroll_const or fr.uc) and a[0] == "ref" and a[1][0] == "array" and len(a[1][1]) <= (self.unroll_const or fr.uc):
                return ("iter", ("array", tuple(("ref", e) for e in a[1][1])))
            if a[0] == "ptr" and a[1][0] == "L" and not a[2] and not a[3]:
                v = self.deref(st, a)
                if v[0] == "array" and len(v[1]) <= 8:
                    # `for x in &local_array`: a shared borrow of a local array with known elements
                    return ("iter", ("array", tuple(("ref", e) for e in v[1])))
            return ("iter", a)
        if name.endswith("Iterator>::next") or name == "core::iter::traits::iterator::Iterator::next":
            p = args[0]
            if p[0] == "ptr":
                cur = self.load(st, p[1], p[2])
                if cur[0] in ("iter", "iterk") and cur[1][0] == "array" and len(cur[1][1]) <= 8:
                    k = cur[2] if cur[0] == "iterk" else 0
                    elems = cur[1][1]
                    self.store_ptr(st, p, ("iterk", cur[1], k + 1))
                    if k < len(elems):
                        return ("agg", "core::option::Option", "Some", 1, (("0", elems[k]),))
                    return ("agg", "core::option::Option", "None", 0, ())
                if cur[0] == "iter" and self.count_next:
                    self.store_ptr(st, p, ("iterk", cur[1], 1))
                    return ("next", cur[1], 0)
                if cur[0] == "iterk":
                    self.store_ptr(st, p, ("iterk", cur[1], cur[2] + 1))
                    return ("next", cur[1], cur[2])
                if cur[0] in ("iter", "iter*"):
                    self.store_ptr(st, p, ("iter*", cur[1]))
                    return ("next", cur[1])
        if name in ("core::str::<impl str>::chars", "str::chars") and self.count_next:
            return ("iter", ("chars", args[0]))
        if name.endswith("core::ops::try_trait::Try>::branch") and len(args) == 1:
            kind = "option" if name.startswith("<core::option::Option<") else ("result" if name.startswith("<core::result::Result<") else None)
            if kind:
                return ("trybranch", kind, args[0])
        if "core::ops::try_trait::FromResidual" in name and name.endswith("::from_residual") and len(args) == 1:
            r = args[0]
            if name.startswith("<core::option::Option<"):
                return ("agg", "core::option::Option", "None", 0, ())
            if name.startswith("<core::result::Result<") and r[0] == "residual":
                return ("agg", "core::result::Result", "Err", 1, (("0", ("errconv", self.ops.field(self.ops.downcast(r[2], "Err"), "0"))),))
        mconv = re.match(r"<(u8|u16|u32|u64|u128|usize|i8|i16|i32|i64|i128|isize) as core::convert::From<(u8|u16|u32|u64|usize|i8|i16|i32|i64|isize|bool)>>::from$", name)
        if mconv and len(args) == 1:
            return o.cast(mconv.group(1), args[0])
        if name == "core::num::<impl u64>::wrapping_sub":
            return o.bin("Sub", args[0], args[1])
        if name == "core::num::<impl u64>::wrapping_mul":
            return o.bin("Mul", args[0], args[1])
        return None

    def store_ptr(self, st, p, val):
        root, path = p[1], p[2]
        if not path:
            st.store[root] = val
        else:
            base = st.store.get(root, ("undef", root))
            st.store[root] = self.ops.update(base, path, val)


# ----------------------------------------------------------------------------- bitboard algebra

def bb_raw(v):
    """u64-level view of a BitBoard value"""
    if v[0] == "bb":
        return v[1]
    return ("raw", v)


def bb_not(a):
    if a[0] == "bbconst":
        return ("bbconst", (~a[1]) & (2 ** 64 - 1))
    if a[0] == "not":
        return a[1]
    return ("not", a)


def bb_bin(op, a, b):
    if op == "sub":
        return bb_bin("and", a, bb_not(b))
    if a[0] == "bbconst" and b[0] == "bbconst":
        x, y = a[1], b[1]
        return ("bbconst", {"and": x & y, "or": x | y, "xor": x ^ y}[op])
    # identities with the empty and the full set
    for x, y in ((a, b), (b, a)):
        if x[0] == "bbconst" and x[1] == 0:
            return x if op == "and" else y
        if x[0] == "bbconst" and x[1] == (1 << 64) - 1:
            if op == "and":
                return y
            if op == "or":
                return x
    return (op, a, b)


def bb_isempty(a):
    if a[0] == "bbconst":
        return TRUE if a[1] == 0 else FALSE
    return ("isempty", a)


# ----------------------------------------------------------------------------- utilities

def walk(e, fn):
    """pre-order walk over an expression tree"""
    fn(e)
    if isinstance(e, tuple):
        for x in e:
            if isinstance(x, tuple):
                walk(x, fn)


def contains(e, pred):
    found = []

    def f(x):
        if not found and isinstance(x, tuple) and x and pred(x):
            found.append(x)
    walk(e, f)
    return bool(found)


def subterms(e, pred):
    out = []

    def f(x):
        if isinstance(x, tuple) and x and isinstance(x[0], str) and pred(x):
            out.append(x)
    walk(e, f)
    return out


def show(e, depth=0):
    """compact human-readable rendering"""
    if not isinstance(e, tuple) or not e:
        return str(e)
    k = e[0]
    sh = show
    if k == "int":
        return "%s" % (e[1],) if e[2] != "bool" else ("true" if e[1] else "false")
    if k == "enum":
        return "%s::%s" % (e[1].rsplit("::", 1)[-1], e[2])
    if k == "param":
        return e[1]
    if k == "obj":
        return "*" + e[1]
    if k == "field":
        return "%s.%s" % (sh(e[1]), e[2])
    if k == "index":
        return "%s[%s]" % (sh(e[1]), sh(e[2]))
    if k == "call":
        n = e[1]
        n = n.replace("cozy_chess::board::", "").replace("cozy_chess::moves::", "").replace(TYPES, "")
        extra = "::<%s>" % ",".join(e[3]) if len(e) > 3 else ""
        return "%s%s(%s)" % (n, extra, ", ".join(sh(a) for a in e[2]))
    if k in ("and", "or", "xor"):
        sym = {"and": "&", "or": "|", "xor": "^"}[k]
        return "(%s %s %s)" % (sh(e[1]), sym, sh(e[2]))
    if k == "not":
        return "!%s" % sh(e[1])
    if k == "cnot":
        return "!%s" % sh(e[1])
    if k == "bbof":
        return "bb(%s)" % sh(e[1])
    if k == "bbconst":
        return "BB(%#x)" % e[1]
    if k == "isempty":
        return "isempty(%s)" % sh(e[1])
    if k == "has":
        return "has(%s, %s)" % (sh(e[1]), sh(e[2]))
    if k == "len":
        return "len(%s)" % sh(e[1])
    if k == "bin":
        return "%s(%s, %s)" % (e[1], sh(e[2]), sh(e[3]))
    if k == "un":
        return "%s(%s)" % (e[1], sh(e[2]))
    if k == "cast":
        return "(%s as %s)" % (sh(e[2]), e[1])
    if k == "discr":
        return "discr(%s)" % sh(e[1])
    if k == "elem":
        return "elem(%s)" % sh(e[1])
    if k == "next":
        return "next(%s)" % sh(e[1]) if len(e) == 2 else "next#%d(%s)" % (e[2], sh(e[1]))
    if k == "downcast":
        return "(%s as %s)" % (sh(e[1]), e[2])
    if k == "agg":
        return "%s::%s{%s}" % (e[1].rsplit("::", 1)[-1], e[2], ", ".join("%s: %s" % (n, sh(v)) for n, v in e[4]))
    if k == "tuple":
        return "(%s)" % ", ".join(sh(x) for x in e[1])
    if k == "ptr":
        return "&%s%s%s" % ("mut " if e[3] else "", e[1], "".join("." + str(h[1] if h[0] != "i" else "[%s]" % sh(h[1])) for h in e[2]))
    if k == "hv":
        return "hv(%s@%s)" % (e[2], e[3])
    if k == "with":
        return "%s{%s:=%s}" % (sh(e[1]), e[2][1] if e[2][0] != "i" else "[%s]" % sh(e[2][1]), sh(e[3]))
    return "%s(%s)" % (k, ", ".join(sh(x) if isinstance(x, tuple) else str(x) for x in e[1:]))
