"""Compact pretty printer for fact bodies (debug aid, and used in replay files)."""
import sys

from . import facts


def short(path):
    if path is None:
        return "?"
    for pre in ("cozy_chess::board::movegen::piece_moves::", "cozy_chess::board::movegen::",
                "cozy_chess::board::zobrist::", "cozy_chess::board::builder::",
                "cozy_chess::board::parse::", "cozy_chess::board::", "cozy_chess::moves::",
                "cozy_chess::util::", "cozy_chess_types::bitboard::", "cozy_chess_types::square::",
                "cozy_chess_types::file::", "cozy_chess_types::rank::", "cozy_chess_types::piece::",
                "cozy_chess_types::color::", "cozy_chess_types::castling::",
                "cozy_chess_types::chess_move::", "cozy_chess_types::sliders::", "core::"):
        path = path.replace(pre, "")
    return path


def place(b, pl):
    s = b.local_name(pl["l"]) if b else "_%d" % pl["l"]
    for p in pl["p"]:
        if p == "deref":
            s = "(*%s)" % s
        elif "f" in p:
            s = "%s.%s" % (s, p["n"])
        elif "idx" in p:
            s = "%s[%s]" % (s, b.local_name(p["idx"]) if b else "_%d" % p["idx"])
        elif "cidx" in p:
            s = "%s[#%d]" % (s, p["cidx"])
        elif "dc" in p:
            s = "(%s as %s)" % (s, p["n"])
        else:
            s = "%s.<%s>" % (s, p)
    return s


def operand(b, op):
    k = op["k"]
    if k in ("copy", "move"):
        return ("move " if k == "move" else "") + place(b, op["pl"])
    if k == "const":
        if "fnref" in op:
            return "fn:" + short(op["fnref"].get("res") or op["fnref"]["fn"])
        if "v" in op:
            return "%s_%s" % (op["v"], short(op["ty"]))
        if "str" in op:
            return repr(op["str"])
        if "item" in op:
            s = "item:" + short(op["item"])
            if "promoted" in op:
                s += "::promoted[%d]" % op["promoted"]
            return s
        if "tyconst" in op:
            return "param:" + op["tyconst"]
        if "closure" in op:
            return "closure:" + short(op["closure"])
        return "const:" + short(op["ty"])
    return str(op)


def rvalue(b, rv):
    k = rv["k"]
    if k == "use":
        return operand(b, rv["op"])
    if k == "ref":
        return ("&mut " if rv["mut"] else "&") + place(b, rv["pl"])
    if k == "rawptr":
        return "&raw " + place(b, rv["pl"])
    if k == "cast":
        return "%s as %s (%s)" % (operand(b, rv["op"]), short(rv["ty"]), rv["ck"])
    if k == "bin":
        return "%s(%s, %s)" % (rv["op"], operand(b, rv["a"]), operand(b, rv["b"]))
    if k == "un":
        return "%s(%s)" % (rv["op"], operand(b, rv["a"]))
    if k == "discr":
        return "discr(%s)" % place(b, rv["pl"])
    if k == "agg":
        ops = ", ".join(operand(b, o) for o in rv["ops"])
        if rv["ak"] == "adt":
            return "%s::%s{%s}" % (short(rv["adt"]), rv["variant"], ops)
        return "%s(%s)" % (rv["ak"], ops)
    if k == "repeat":
        return "[%s; %s]" % (operand(b, rv["op"]), rv["count"])
    return rv.get("dbg", str(rv))


def term(b, t):
    k = t["k"]
    if k == "goto":
        return "goto bb%d" % t["t"]
    if k == "switch":
        arms = ", ".join("%s->bb%d" % (a[0], a[1]) for a in t["arms"])
        return "switch %s [%s, else->bb%d]" % (operand(b, t["discr"]), arms, t["otherwise"])
    if k == "call":
        c = t["callee"]
        name = short(c.get("res") or c.get("fn") or "<indirect>")
        if "indirect" in c:
            name = "(" + operand(b, c["indirect"]) + ")"
        args = ", ".join(operand(b, a) for a in t["args"])
        tgt = "bb%d" % t["t"] if t["t"] is not None else "!"
        extra = ""
        if c.get("targs"):
            extra = "::<%s>" % ", ".join(short(x) for x in c.get("rargs") or c["targs"])
        return "%s = %s%s(%s) -> %s" % (place(b, t["dest"]), name, extra, args, tgt)
    if k == "assert":
        return "assert(%s == %s, %s) -> bb%d" % (operand(b, t["cond"]), t["expected"], t["msg"], t["t"])
    if k == "drop":
        return "drop(%s) -> bb%d" % (place(b, t["pl"]), t["t"])
    return k


def body(b, out=sys.stdout):
    print("fn %s  [%s] argc=%d %s" % (b.key, b.kind, b.argc, b.loc()), file=out)
    for i, l in enumerate(b.locals):
        print("    let _%d%s: %s" % (i, (" (%s)" % l["name"]) if l.get("name") else "", short(l["ty"])), file=out)
    for i, blk in enumerate(b.blocks):
        if blk["cleanup"]:
            continue
        print("  bb%d:" % i, file=out)
        for s in blk["stmts"]:
            if s["k"] == "assign":
                print("    %s = %s   // L%d" % (place(b, s["pl"]), rvalue(b, s["rv"]), s["sp"]["line"]), file=out)
            else:
                print("    %s" % s, file=out)
        print("    %s   // L%d" % (term(b, blk["term"]), blk["term"]["sp"]["line"]), file=out)


if __name__ == "__main__":
    cfg = "A"
    args = sys.argv[1:]
    if args and args[0] in facts.CONFIGS:
        cfg = args.pop(0)
    f = facts.load(cfg)
    for pat in args:
        for k, b in f.bodies.items():
            if k.endswith(pat) or pat in k and pat.startswith("~"):
                body(b)
