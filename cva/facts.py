"""Fact extraction (runs the mirfacts driver over /repo's working tree) and loading.

Nothing in here runs library code: `cargo +nightly check` only type-checks and
const-evaluates; the build script is executed by cargo as part of any build of the crate.
"""
import hashlib
import json
import os
import shutil
import subprocess
import sys
import tempfile
import time

VERIF = os.path.dirname(os.path.dirname(os.path.abspath(__file__)))
REPO = os.environ.get("CVA_REPO", "/repo")
DRIVER = os.path.join(VERIF, "driver", "target", "release", "mirfacts")
CACHE = os.path.join(VERIF, ".cache")
WORK = os.path.join(VERIF, ".work")

CONFIGS = {
    # id: (cargo args, extra rustflags)
    "A": ([], []),
    "B": ([], ["-C", "overflow-checks=off", "-C", "debug-assertions=off"]),
    "C": (["--features", "pext"], ["-C", "target-feature=+bmi2"]),
    "D": (["--features", "std"], []),
}


class ExtractionError(Exception):
    pass


def _tree_hash(root):
    h = hashlib.sha256()
    for dp, dns, fns in os.walk(root):
        dns[:] = sorted(d for d in dns if d not in (".git", "target"))
        for fn in sorted(fns):
            p = os.path.join(dp, fn)
            if os.path.islink(p) or not os.path.isfile(p):
                continue
            h.update(os.path.relpath(p, root).encode())
            h.update(b"\0")
            with open(p, "rb") as f:
                h.update(hashlib.sha256(f.read()).digest())
    return h.hexdigest()


def _file_hash(p):
    with open(p, "rb") as f:
        return hashlib.sha256(f.read()).hexdigest()


def nightly_sysroot():
    return subprocess.check_output(["rustc", "+nightly", "--print", "sysroot"], text=True).strip()


def ensure_driver():
    if not os.path.exists(DRIVER):
        subprocess.check_call(
            ["cargo", "build", "--release", "--offline"], cwd=os.path.join(VERIF, "driver"),
            env=dict(os.environ, CARGO_NET_OFFLINE="true"))
    return DRIVER


def extract(config="A", manifest=None, package="cozy-chess", repo=None, quiet=True):
    """Return the directory holding the fact files for `config`, extracting if needed."""
    repo = repo or REPO
    ensure_driver()
    cargo_args, flags = CONFIGS[config]
    key_src = "|".join([_tree_hash(repo), config, _file_hash(DRIVER), package, manifest or ""])
    key = hashlib.sha256(key_src.encode()).hexdigest()[:32]
    os.makedirs(CACHE, exist_ok=True)
    final = os.path.join(CACHE, key)
    if os.path.isdir(final) and os.path.exists(os.path.join(final, "OK")):
        os.utime(final)
        return final
    os.makedirs(WORK, exist_ok=True)
    tmp_out = tempfile.mkdtemp(prefix="facts-", dir=WORK)
    tmp_target = tempfile.mkdtemp(prefix="target-", dir=WORK)
    try:
        env = dict(os.environ)
        env["LD_LIBRARY_PATH"] = nightly_sysroot() + "/lib:" + env.get("LD_LIBRARY_PATH", "")
        env["RUSTC_WORKSPACE_WRAPPER"] = DRIVER
        env["RUSTFLAGS"] = " ".join(["-Zmir-opt-level=0", "-Awarnings"] + flags)
        env["MIRFACTS_OUT"] = tmp_out
        env["CARGO_TARGET_DIR"] = tmp_target
        env["CARGO_NET_OFFLINE"] = "true"
        env.pop("RUSTC_WRAPPER", None)
        cmd = ["cargo", "+nightly", "check", "--offline", "--manifest-path",
               manifest or os.path.join(repo, "Cargo.toml"), "-p", package] + cargo_args
        t0 = time.time()
        r = subprocess.run(cmd, env=env, stdout=subprocess.PIPE, stderr=subprocess.STDOUT, text=True)
        if r.returncode != 0:
            raise ExtractionError("cargo check failed for config %s:\n%s" % (config, r.stdout[-4000:]))
        names = sorted(os.listdir(tmp_out))
        crates = [n.rsplit("-", 1)[0] for n in names if n.endswith(".json")]
        if package == "cozy-chess":
            need = {"cozy_chess": 1, "cozy_chess_types": 1, "build_script_build": 1}
            for k, v in need.items():
                if crates.count(k) < v:
                    raise ExtractionError("fact file for crate %s missing (got %s)" % (k, names))
        with open(os.path.join(tmp_out, "OK"), "w") as f:
            f.write(json.dumps({"config": config, "wall_s": time.time() - t0, "cmd": cmd,
                                "rustflags": env["RUSTFLAGS"]}))
        try:
            os.rename(tmp_out, final)
        except OSError:
            # somebody else finished first
            shutil.rmtree(tmp_out, ignore_errors=True)
        _prune()
        return final
    finally:
        shutil.rmtree(tmp_target, ignore_errors=True)
        if os.path.isdir(tmp_out):
            shutil.rmtree(tmp_out, ignore_errors=True)


def _prune(keep=10):
    keep = int(os.environ.get("CVA_CACHE_KEEP", keep))
    try:
        ents = [os.path.join(CACHE, d) for d in os.listdir(CACHE)]
        ents = [e for e in ents if os.path.isdir(e)]
        ents.sort(key=lambda e: os.path.getmtime(e), reverse=True)
        for e in ents[keep:]:
            shutil.rmtree(e, ignore_errors=True)
    except OSError:
        pass


# ------------------------------------------------------------------------------ model

class Body:
    __slots__ = ("j", "path", "key", "blocks", "locals", "argc", "crate", "kind", "promoted",
                 "_preds", "facts")

    def __init__(self, j, crate, facts):
        self.j = j
        self.crate = crate
        self.facts = facts
        self.path = j["path"]
        self.promoted = j["promoted"]
        self.key = self.path if self.promoted is None else "%s::promoted[%d]" % (self.path, self.promoted)
        self.blocks = j["blocks"]
        self.locals = j["locals"]
        self.argc = j["argc"]
        self.kind = j["kind"]
        self._preds = None

    # --- basic CFG access
    def term(self, bb):
        return self.blocks[bb]["term"]

    def succs(self, bb, cleanup=False):
        t = self.blocks[bb]["term"]
        k = t["k"]
        if k == "goto":
            return [t["t"]]
        if k == "switch":
            out = [a[1] for a in t["arms"]] + [t["otherwise"]]
            return out
        if k in ("call", "drop", "assert"):
            return [t["t"]] if t.get("t") is not None else []
        return []

    def preds(self):
        if self._preds is None:
            p = [[] for _ in self.blocks]
            for b in range(len(self.blocks)):
                for s in self.succs(b):
                    p[s].append(b)
            self._preds = p
        return self._preds

    @property
    def file(self):
        return self.j["sp"]["file"]

    @property
    def line(self):
        return self.j["sp"]["line"]

    def loc(self, sp=None):
        sp = sp or self.j["sp"]
        f = sp["file"]
        if f.startswith(REPO + "/"):
            f = f[len(REPO) + 1:]
        return "%s:%d" % (f, sp["line"])

    def local_name(self, l):
        n = self.locals[l].get("name")
        return n if n else "_%d" % l

    def calls(self):
        """Yield (bb, term) for every call terminator."""
        for i, b in enumerate(self.blocks):
            if b["term"]["k"] == "call":
                yield i, b["term"]

    def __repr__(self):
        return "<Body %s>" % self.key


def callee_name(term):
    """Resolved callee path of a call terminator (falls back to the declared path)."""
    c = term["callee"]
    if "fn" not in c:
        return None
    return c.get("res") or c["fn"]


def callee_decl(term):
    c = term["callee"]
    return c.get("fn")


class Facts:
    """All crates of one configuration."""

    def __init__(self, directory, config):
        self.dir = directory
        self.config = config
        self.crates = {}
        self.build_script = None
        for n in sorted(os.listdir(directory)):
            if not n.endswith(".json"):
                continue
            with open(os.path.join(directory, n)) as f:
                j = json.load(f)
            name = j["crate"]
            if name == "build_script_build":
                self.build_script = j
            # the host and target instance of the types crate are identical unless
            # features differ; keep the one with most features (target instance)
            if name in self.crates and len(self.crates[name]["features"]) >= len(j["features"]):
                continue
            self.crates[name] = j
        self.bodies = {}
        for cname, j in self.crates.items():
            for bj in j["bodies"]:
                b = Body(bj, cname, self)
                self.bodies[b.key] = b
        self.adts = {}
        self.consts = {}
        self.fns = {}
        self.impls = []
        for cname, j in self.crates.items():
            for a in j["adts"]:
                self.adts[a["path"]] = a
            for c in j["consts"]:
                self.consts[c["path"]] = c
            for f in j["fns"]:
                self.fns[f["path"]] = f
            self.impls.extend(j["impls"])

    def desugared(self):
        """view of the same facts with iterator terminals and Option/bool combinators rewritten into
        explicit loops and matches (cva/desugar.py); bodies without such calls are shared"""
        if getattr(self, "_desugared", None) is None:
            import copy
            from . import desugar
            v = copy.copy(self)
            raw = {k: b.j for k, b in self.bodies.items()}
            v.bodies = {}
            v.rewrites = {}
            for k, b in self.bodies.items():
                if not b.crate.startswith("cozy_chess"):
                    v.bodies[k] = b
                    continue
                j2, n = desugar.desugar(b.j, raw)
                if n:
                    v.bodies[k] = Body(j2, b.crate, v)
                    v.rewrites[k] = n
                else:
                    v.bodies[k] = b
            v._desugared = v
            self._desugared = v
        return self._desugared

    def body(self, path):
        return self.bodies.get(path)

    def need(self, path):
        b = self.bodies.get(path)
        if b is None:
            raise MissingAnchor(path)
        return b

    def find(self, suffix):
        return [b for k, b in self.bodies.items() if k.endswith(suffix)]

    def overflow_checks(self):
        return self.crates["cozy_chess"]["overflow_checks"]


class MissingAnchor(Exception):
    pass


_loaded = {}


def load(config="A"):
    if config not in _loaded:
        d = extract(config)
        _loaded[config] = Facts(d, config)
    return _loaded[config]


if __name__ == "__main__":
    cfg = sys.argv[1] if len(sys.argv) > 1 else "A"
    t0 = time.time()
    f = load(cfg)
    print("config", cfg, "dir", f.dir, "bodies", len(f.bodies), "consts", len(f.consts),
          "adts", len(f.adts), "%.1fs" % (time.time() - t0))
