"""Fact extraction (runs the mirfacts driver over /repo's working tree) and loading.

Nothing in here runs library code: `cargo +nightly check` only type-checks and
const-evaluates; the build script is executed by cargo as part of any build of the crate.
"""
import hashlib
import json
import os
import shutil
import subprocess
import sys
import tempfile
import time

VERIF = os.path.dirname(os.path.dirname(os.path.abspath(__file__)))
REPO = os.environ.get("CVA_REPO", "/repo")
DRIVER = os.path.join(VERIF, "driver", "target", "release", "mirfacts")
CACHE = os.path.join(VERIF, ".cache")
WORK = os.path.join(VERIF, ".work")

CONFIGS = {
    # id: (cargo args, extra rustflags)
    "A": ([], []),
    "B": ([], ["-C", "overflow-checks=off", "-C", "debug-assertions=off"]),
    "C": (["--features", "pext"], ["-C", "target-feature=+bmi2"]),
    "D": (["--features", "std"], []),
}


class ExtractionError(Exception):
    pass


def _tree_hash(root):
    h = hashlib.sha256()
    for dp, dns, fns in os.walk(root):
        dns[:] = sorted(d for d in dns if d not in (".git", "target"))
        for fn in sorted(fns):
            p = os.path.join(dp, fn)
            if os.path.islink(p) or not os.path.isfile(p):
                continue
            h.update(os.path.relpath(p, root).encode())
            h.update(b"\0")
            with open(p, "rb") as f:
                h.update(hashlib.sha256(f.read()).digest())
    return h.hexdigest()


def _file_hash(p):
    with open(p, "rb") as f:
        return hashlib.sha256(f.read()).hexdigest()


def nightly_sysroot():
    return subprocess.check_output(["rustc", "+nightly", "--print", "sysroot"], text=True).strip()


def ensure_driver():
    if not os.path.exists(DRIVER):
        subprocess.check_call(
            ["cargo", "build", "--release", "--offline"], cwd=os.path.join(VERIF, "driver"),
            env=dict(os.environ, CARGO_NET_OFFLINE="true"))
    return DRIVER


def extract(config="A", manifest=None, package="cozy-chess", repo=None, quiet=True):
    """Return the directory holding the fact files for `config`, extracting if needed."""
    repo = repo or REPO
    ensure_driver()
    cargo_args, flags = CONFIGS[config]
    key_src = "|".join([_tree_hash(repo), config, _file_hash(DRIVER), package, manifest or ""])
    key = hashlib.sha256(key_src.encode()).hexdigest()[:32]
    os.makedirs(CACHE, exist_ok=True)
    final = os.path.join(CACHE, key)
    if os.path.isdir(final) and os.path.exists(os.path.join(final, "OK")):
        os.utime(final)
        return final
    os.makedirs(WORK, exist_ok=True)
    tmp_out = tempfile.mkdtemp(prefix="facts-", dir=WORK)
    tmp_target = tempfile.mkdtemp(prefix="target-", dir=WORK)
    try:
        env = dict(os.environ)
        env["LD_LIBRARY_PATH"] = nightly_sysroot() + "/lib:" + env.get("LD_LIBRARY_PATH", "")
        env["RUSTC_WORKSPACE_WRAPPER"] = DRIVER
        env["RUSTFLAGS"] = " ".join(["-Zmir-opt-level=0", "-Awarnings"] + flags)
        env["MIRFACTS_OUT"] = tmp_out
        env["CARGO_TARGET_DIR"] = tmp_target
        env["CARGO_NET_OFFLINE"] = "true"
        env.pop("RUSTC_WRAPPER", None)
        cmd = ["cargo", "+nightly", "check", "--offline", "--manifest-path",
               manifest or os.path.join(repo, "Cargo.toml"), "-p", package] + cargo_args
        t0 = time.time()
        r = subprocess.run(cmd, env=env, stdout=subprocess.PIPE, stderr=subprocess.STDOUT, text=True)
        if r.returncode != 0:
            raise ExtractionError("cargo check failed for config %s:\n%s" % (config, r.stdout[-4000:]))
        names = sorted(os.listdir(tmp_out))
        crates = [n.rsplit("-", 1)[0] for n in names if n.endswith(".json")]
        if package == "cozy-chess":
            need = {"cozy_chess": 1, "cozy_chess_types": 1, "build_script_build": 1}
            for k, v in need.items():
                if crates.count(k) < v:
                    raise ExtractionError("fact file for crate %s missing (got %s)" % (k, names))
        with open(os.path.join(tmp_out, "OK"), "w") as f:
            f.write(json.dumps({"config": config, "wall_s": time.time() - t0, "cmd": cmd,
                                "rustflags": env["RUSTFLAGS"]}))
        try:
            os.rename(tmp_out, final)
        except OSError:
            # somebody else finished first
            shutil.rmtree(tmp_out, ignore_errors=True)
        _prune()
        return final
    finally:
        shutil.rmtree(tmp_target, ignore_errors=True)
        if os.path.isdir(tmp_out):
            shutil.rmtree(tmp_out, ignore_errors=True)


def _prune(keep=10):
    keep = int(os.environ.get("CVA_CACHE_KEEP", keep))
    try:
        ents = [os.path.join(CACHE, d) for d in os.listdir(CACHE)]
        ents = [e for e in ents if os.path.isdir(e)]
        ents.sort(key=lambda e: os.path.getmtime(e), reverse=True)
        now = time.time()
        for e in ents[keep:]:
            # an entry touched in the last half hour may be in use by a concurrent check of another tree
            if now - os.path.getmtime(e) > 1800:
                shutil.rmtree(e, ignore_errors=True)
    except OSError:
        pass


# ------------------------------------------------------------------------------ model

class Body:
    __slots__ = ("j", "path", "key", "blocks", "locals", "argc", "crate", "kind", "promoted",
                 "_preds", "facts")

    def __init__(self, j, crate, facts):
        self.j = j
        self.crate = crate
        self.facts = facts
        self.path = j["path"]
        self.promoted = j["promoted"]
        self.key = self.path if self.promoted is None else "%s::promoted[%d]" % (self.path, self.promoted)
        self.blocks = j["blocks"]
        self.locals = j["locals"]
        self.argc = j["argc"]
        self.kind = j["kind"]
        self._preds = None

    # --- basic CFG access
    def term(self, bb):
        return self.blocks[bb]["term"]

    def succs(self, bb, cleanup=False):
        t = self.blocks[bb]["term"]
        k = t["k"]
        if k == "goto":
            return [t["t"]]
        if k == "switch":
            out = [a[1] for a in t["arms"]] + [t["otherwise"]]
            return out
        if k in ("call", "drop", "assert"):
            return [t["t"]] if t.get("t") is not None else []
        return []

    def preds(self):
        if self._preds is None:
            p = [[] for _ in self.blocks]
            for b in range(len(self.blocks)):
                for s in self.succs(b):
                    p[s].append(b)
            self._preds = p
        return self._preds

    @property
    def file(self):
        return self.j["sp"]["file"]

    @property
    def line(self):
        return self.j["sp"]["line"]

    def loc(self, sp=None):
        sp = sp or self.j["sp"]
        f = sp["file"]
        if f.startswith(REPO + "/"):
            f = f[len(REPO) + 1:]
        return "%s:%d" % (f, sp["line"])

    def local_name(self, l):
        n = self.locals[l].get("name")
        return n if n else "_%d" % l

    def calls(self):
        """Yield (bb, term) for every call terminator."""
        for i, b in enumerate(self.blocks):
            if b["term"]["k"] == "call":
                yield i, b["term"]

    def __repr__(self):
        return "<Body %s>" % self.key


def callee_name(term):
    """Resolved callee path of a call terminator (falls back to the declared path)."""
    c = term["callee"]
    if "fn" not in c:
        return None
    return c.get("res") or c["fn"]


def callee_decl(term):
    c = term["callee"]
    return c.get("fn")


BOARD_TY = "cozy_chess::board::Board"


def flatten_private_groups(crates):
    """A private struct that only groups some private fields of the board (`check_info: CheckInfo { checkers, pinned }`,
    `counters: MoveCounters { .. }`) is a matter of layout, not of meaning: the grouped fields are read as fields of the
    board itself.  Done on the dumped MIR before anything else looks at it: `board.g.x` becomes `board.x`, a borrow of
    `board.g` becomes a borrow of the board (the callee's `self.x` then lands on `board.x`), a `Board { g: v, .. }`
    literal names the grouped fields one by one, a whole-group assignment is split.  -> {group field: group type}"""
    adts = {}
    for j in crates.values():
        for a in j["adts"]:
            adts[a["path"]] = a
    B_ = adts.get(BOARD_TY)
    if not B_ or B_["kind"] != "Struct":
        return {}
    bfields = B_["variants"][0]["fields"]
    names = {fl["name"] for fl in bfields}
    # how often each type is used as a field type anywhere
    uses = {}
    for a in adts.values():
        for v in a["variants"]:
            for fl in v["fields"]:
                uses[fl["ty"]] = uses.get(fl["ty"], 0) + 1
    flat = {}
    for fl in bfields:
        t = adts.get(fl["ty"])
        if fl["pub"] or not t or t["kind"] != "Struct" or t.get("pub") or not t["path"].startswith("cozy_chess::board::") or uses.get(fl["ty"]) != 1:
            continue
        inner = t["variants"][0]["fields"]
        if not inner or any(i_["name"] in names or i_["name"].isdigit() for i_ in inner):
            continue
        if any(adts.get(i_["ty"], {}).get("path", "").startswith("cozy_chess::board::zobrist") for i_ in inner):
            continue            # (the position state itself is not a group)
        flat[fl["name"]] = t
    if not flat:
        return {}
    # the board's field list, flattened
    newf = []
    for fl in bfields:
        if fl["name"] in flat:
            for i_ in flat[fl["name"]]["variants"][0]["fields"]:
                newf.append(dict(i_, vis=fl["vis"], pub=False))
        else:
            newf.append(fl)
    B_["variants"][0]["fields"] = newf

    def is_group(e):
        return isinstance(e, dict) and e.get("of") == BOARD_TY and e.get("n") in flat

    def fix_place(pl, borrow=False):
        p = pl["p"]
        out = []
        i = 0
        while i < len(p):
            e = p[i]
            if is_group(e):
                nxt = p[i + 1] if i + 1 < len(p) else None
                if isinstance(nxt, dict) and "f" in nxt and nxt.get("of") == flat[e["n"]]["path"]:
                    out.append(dict(nxt, of=BOARD_TY))
                    i += 2
                    continue
                if nxt is None and borrow:
                    i += 1              # `&board.g`: a borrow of the board; fields are found by name through it
                    continue
            out.append(e)
            i += 1
        pl["p"] = out

    def walk_operand(op):
        if isinstance(op, dict) and op.get("k") in ("move", "copy") and "pl" in op:
            fix_place(op["pl"])

    def group_fields_of(op, gname):
        """operands for the grouped fields, given the operand for the whole group"""
        inner = flat[gname]["variants"][0]["fields"]
        tpath = flat[gname]["path"]
        if op.get("k") in ("move", "copy"):
            return [{"k": "copy", "pl": {"l": op["pl"]["l"], "p": list(op["pl"]["p"]) + [{"f": ix, "n": i_["name"], "of": tpath, "ty": i_["ty"]}]}}
                    for ix, i_ in enumerate(inner)]
        if op.get("k") == "const" and isinstance(op.get("dec"), dict) and "fields" in op["dec"]:
            vals = dict((n_, v_) for n_, v_ in op["dec"]["fields"])
            outs = []
            for i_ in inner:
                v_ = vals.get(i_["name"])
                if isinstance(v_, int):
                    outs.append({"k": "const", "ty": i_["ty"], "v": v_})
                elif isinstance(v_, dict) and "fields" in v_ and len(v_["fields"]) == 1 and isinstance(v_["fields"][0][1], int):
                    outs.append({"k": "const", "ty": i_["ty"], "v": v_["fields"][0][1]})      # a newtype around an integer (BitBoard)
                else:
                    return None
            return outs
        return None
    for j in crates.values():
        for bj in j["bodies"]:
            for blk in bj["blocks"]:
                new_stmts = []
                for st in blk["stmts"]:
                    if st.get("k") == "assign":
                        rv = st["rv"]
                        if rv.get("k") == "ref" and "pl" in rv:
                            fix_place(rv["pl"], borrow=True)
                        elif "pl" in rv:
                            fix_place(rv["pl"])
                        for key in ("op", "a", "b"):
                            if key in rv:
                                walk_operand(rv[key])
                        for o in rv.get("ops") or []:
                            walk_operand(o)
                        if rv.get("k") == "agg" and rv.get("adt") == BOARD_TY and any(n_ in flat for n_ in rv.get("fields") or []):
                            nf, no = [], []
                            ok = True
                            for n_, o in zip(rv["fields"], rv["ops"]):
                                if n_ in flat:
                                    parts = group_fields_of(o, n_)
                                    if parts is None:
                                        ok = False
                                        break
                                    nf += [i_["name"] for i_ in flat[n_]["variants"][0]["fields"]]
                                    no += parts
                                else:
                                    nf.append(n_)
                                    no.append(o)
                            if ok:
                                rv["fields"], rv["ops"] = nf, no
                        fix_place(st["pl"])
                        # a whole group assigned at once: one assignment per grouped field
                        tail = st["pl"]["p"][-1] if st["pl"]["p"] else None
                        if is_group(tail) and rv.get("k") == "use":
                            parts = group_fields_of(rv["op"], tail["n"])
                            if parts is not None:
                                tpath = flat[tail["n"]]["path"]
                                for ix, (i_, o) in enumerate(zip(flat[tail["n"]]["variants"][0]["fields"], parts)):
                                    new_stmts.append(dict(st, pl={"l": st["pl"]["l"], "p": st["pl"]["p"][:-1] + [{"f": ix, "n": i_["name"], "of": BOARD_TY, "ty": i_["ty"]}]},
                                                          rv={"k": "use", "op": o}))
                                continue
                    new_stmts.append(st)
                blk["stmts"] = new_stmts
                t = blk.get("term") or {}
                for a in t.get("args") or []:
                    walk_operand(a)
                if "discr" in t:
                    walk_operand(t["discr"])
                if "dest" in t and isinstance(t["dest"], dict) and "p" in t["dest"]:
                    fix_place(t["dest"])
                if "cond" in t:
                    walk_operand(t["cond"])
    return {k: v["path"] for k, v in flat.items()}


COLOR_TY = "cozy_chess_types::color::Color"


def per_colour_structs_as_arrays(crates):
    """A private generic struct with one field per colour, read through accessors that `match` on the colour and hand
    out the field of that colour (`PerColor<T> { white, black }` with `get(Color)` / `get_mut(Color)`), is an array
    indexed by `colour as usize` written differently.  It is read as that array: the fields become constant indices, an
    accessor call becomes the indexed borrow, a literal becomes an array literal, its derived equality the equality of
    arrays.  The accessors themselves are checked here: the arm of variant k must borrow field k.  -> [struct paths]"""
    import re as _re
    adts = {}
    for j in crates.values():
        for a in j["adts"]:
            adts[a["path"]] = a
    col = adts.get(COLOR_TY)
    if not col or col["kind"] != "Enum":
        return []
    n = len(col["variants"])
    done = []
    for path, a in sorted(adts.items()):
        if a["kind"] != "Struct" or a.get("pub") or not path.startswith("cozy_chess::"):
            continue
        fields = a["variants"][0]["fields"]
        if len(fields) != n or len({fl["ty"] for fl in fields}) != 1 or "::" in fields[0]["ty"] or not fields[0]["ty"].isidentifier():
            continue
        fnames = [fl["name"] for fl in fields]
        # accessors: (&self | &mut self, Color) -> &T | &mut T, arm k borrows field k
        accessors = {}
        ok = True
        for j in crates.values():
            for bj in j["bodies"]:
                isf = bj.get("impl_self") or ""
                if not isf.startswith(path + "<"):
                    continue
                argc = bj.get("argc", 0)
                locs = bj["locals"]
                if argc == 2 and locs[2]["ty"] == COLOR_TY and locs[0]["ty"].startswith("&") and locs[1]["ty"].startswith("&"):
                    arms = None
                    for blk in bj["blocks"]:
                        t = blk["term"]
                        if t["k"] == "switch":
                            arms = {v_: b_ for v_, b_ in t["arms"]}
                            if t.get("otherwise") is not None and len(arms) == n - 1:
                                missing = [k_ for k_ in range(n) if k_ not in arms]
                                if len(missing) == 1 and bj["blocks"][t["otherwise"]]["term"]["k"] != "unreachable":
                                    arms[missing[0]] = t["otherwise"]
                    good = arms is not None and sorted(arms) == list(range(n))
                    for k_ in (range(n) if good else ()):
                        refs = [st["rv"]["pl"]["p"] for st in bj["blocks"][arms[k_]]["stmts"]
                                if st["k"] == "assign" and st["rv"]["k"] == "ref" and len(st["rv"]["pl"]["p"]) == 2 and isinstance(st["rv"]["pl"]["p"][1], dict)]
                        if not any(p_[0] == "deref" and p_[1].get("n") == fnames[k_] and st_l == 1 for p_, st_l in
                                   [(st["rv"]["pl"]["p"], st["rv"]["pl"]["l"]) for st in bj["blocks"][arms[k_]]["stmts"]
                                    if st["k"] == "assign" and st["rv"]["k"] == "ref" and len(st["rv"]["pl"]["p"]) == 2 and isinstance(st["rv"]["pl"]["p"][1], dict)]):
                            good = False
                    if good:
                        accessors[bj.get("key") or bj.get("path")] = locs[0]["ty"].startswith("&mut")
                    else:
                        ok = False
        if not ok or not accessors:
            continue
        pat = _re.compile(_re.escape(path) + r"<([^<>]*)>")
        arr = lambda m_: "[%s; %d]" % (m_.group(1), n)

        def retype(x):
            if isinstance(x, str):
                return pat.sub(arr, x) if path in x else x
            if isinstance(x, list):
                return [retype(y) for y in x]
            if isinstance(x, dict):
                return {k_: retype(v_) for k_, v_ in x.items()}
            return x
        for j in crates.values():
            for bi_, bj in enumerate(j["bodies"]):
                key_ = bj.get("key") or bj.get("path")
                for blk in bj["blocks"]:
                    for st in blk["stmts"]:
                        if st.get("k") != "assign":
                            continue
                        rv = st["rv"]
                        if rv.get("k") == "agg" and rv.get("adt") == path:
                            order = {nm: o for nm, o in zip(rv["fields"], rv["ops"])}
                            st["rv"] = {"k": "agg", "ak": "array", "ty": "?", "ops": [order[nm] for nm in fnames]}
                    t = blk["term"]
                    if t.get("k") == "call":
                        cn = t["callee"].get("res") or t["callee"].get("fn")
                        if cn in accessors and t.get("t") is not None and t["args"][0].get("k") in ("move", "copy") and not t["args"][0]["pl"]["p"]:
                            locs = bj["locals"]
                            base = len(locs)
                            locs += [{"ty": COLOR_TY}, {"ty": "isize"}, {"ty": "usize"}]
                            sp = t["sp"]
                            selfty = retype(locs[t["args"][0]["pl"]["l"]]["ty"]).lstrip("&").replace("mut ", "").strip()
                            blk["stmts"] += [
                                {"k": "assign", "pl": {"l": base, "p": []}, "rv": {"k": "use", "op": t["args"][1]}, "sp": sp},
                                {"k": "assign", "pl": {"l": base + 1, "p": []}, "rv": {"k": "discr", "pl": {"l": base, "p": []}, "of": COLOR_TY}, "sp": sp},
                                {"k": "assign", "pl": {"l": base + 2, "p": []}, "rv": {"k": "cast", "ck": "int2int", "ckd": "IntToInt", "op": {"k": "move", "pl": {"l": base + 1, "p": []}}, "from": "isize", "ty": "usize"}, "sp": sp},
                                {"k": "assign", "pl": t["dest"], "rv": {"k": "ref", "mut": accessors[cn], "pl": {"l": t["args"][0]["pl"]["l"], "p": ["deref", {"idx": base + 2, "of": selfty}]}}, "sp": sp},
                            ]
                            blk["term"] = {"k": "goto", "t": t["t"], "sp": sp}
                        elif cn and cn.startswith("<" + path + "<") and cn.endswith("core::cmp::PartialEq>::eq"):
                            t["callee"] = dict(t["callee"], res="<[T; N] as core::cmp::PartialEq<[U; N]>>::eq", rlocal=False, local=False, krate="core", rkrate="core")
                # field projections -> constant indices
                def fix(x):
                    if isinstance(x, list):
                        return [fix(y) for y in x]
                    if isinstance(x, dict):
                        if "f" in x and "n" in x and isinstance(x.get("of"), str) and x["of"].startswith(path + "<") and x["n"] in fnames:
                            return {"cidx": fnames.index(x["n"]), "of": x["of"]}
                        return {k_: fix(v_) for k_, v_ in x.items()}
                    return x
                bj["blocks"] = fix(bj["blocks"])
                j["bodies"][bi_] = retype(bj)
            j["adts"] = [retype(a_) for a_ in j["adts"]]
        done.append(path)
    return done


class Facts:
    """All crates of one configuration."""

    def __init__(self, directory, config):
        self.dir = directory
        self.config = config
        self.crates = {}
        self.build_script = None
        for n in sorted(os.listdir(directory)):
            if not n.endswith(".json"):
                continue
            with open(os.path.join(directory, n)) as f:
                j = json.load(f)
            name = j["crate"]
            if name == "build_script_build":
                self.build_script = j
            # the host and target instance of the types crate are identical unless
            # features differ; keep the one with most features (target instance)
            if name in self.crates and len(self.crates[name]["features"]) >= len(j["features"]):
                continue
            self.crates[name] = j
        self.per_colour_arrays = per_colour_structs_as_arrays(self.crates)
        self.flattened = flatten_private_groups(self.crates)
        self.bodies = {}
        for cname, j in self.crates.items():
            for bj in j["bodies"]:
                b = Body(bj, cname, self)
                self.bodies[b.key] = b
        self.adts = {}
        self.consts = {}
        self.fns = {}
        self.impls = []
        for cname, j in self.crates.items():
            for a in j["adts"]:
                self.adts[a["path"]] = a
            for c in j["consts"]:
                self.consts[c["path"]] = c
            for f in j["fns"]:
                self.fns[f["path"]] = f
            self.impls.extend(j["impls"])

    def desugared(self):
        """view of the same facts with iterator terminals and Option/bool combinators rewritten into
        explicit loops and matches (cva/desugar.py); bodies without such calls are shared"""
        if getattr(self, "_desugared", None) is None:
            import copy
            from . import desugar
            v = copy.copy(self)
            raw = {k: b.j for k, b in self.bodies.items()}
            v.bodies = {}
            v.rewrites = {}
            for k, b in self.bodies.items():
                if not b.crate.startswith("cozy_chess"):
                    v.bodies[k] = b
                    continue
                j2, n = desugar.desugar(b.j, raw)
                if n:
                    v.bodies[k] = Body(j2, b.crate, v)
                    v.rewrites[k] = n
                else:
                    v.bodies[k] = b
            v._desugared = v
            self._desugared = v
        return self._desugared

    def body(self, path):
        return self.bodies.get(path)

    def need(self, path):
        b = self.bodies.get(path)
        if b is None:
            raise MissingAnchor(path)
        return b

    def find(self, suffix):
        return [b for k, b in self.bodies.items() if k.endswith(suffix)]

    def overflow_checks(self):
        return self.crates["cozy_chess"]["overflow_checks"]


class MissingAnchor(Exception):
    pass


_loaded = {}


def load(config="A"):
    if config not in _loaded:
        d = extract(config)
        _loaded[config] = Facts(d, config)
    return _loaded[config]


if __name__ == "__main__":
    cfg = sys.argv[1] if len(sys.argv) > 1 else "A"
    t0 = time.time()
    f = load(cfg)
    print("config", cfg, "dir", f.dir, "bodies", len(f.bodies), "consts", len(f.consts),
          "adts", len(f.adts), "%.1fs" % (time.time() - t0))
