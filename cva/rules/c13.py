"""C13 same_position is FIDE position identity.

Decided on all paths: (1) clocks never matter -- the transitive field read set of
same_position (resolved call graph, including the legality predicate) contains neither clock
field; (2) kernel form -- the answer is true only on paths on which every decision is an
equality F(self) == F(other) of the same function of the two boards (hence reflexive,
symmetric, transitive); (3) coverage -- the compared functions are: every field of the
position state except the en-passant file and the hash (placement, side, rights), the hash
without en passant, and the *effective* en-passant file; (4) effective en passant -- None
without an en-passant file; otherwise the candidates are exactly
pawn_attacks(ep square, opponent) ∩ side-to-move's pawns (sibling of the generator's
en-passant origin set, compared by set-algebra equivalence), every candidate is tried in a
loop, Some(file) is returned exactly when the legality predicate accepts the capture
(from candidate, to ep square, no promotion), and None only after the loop is exhausted.
Not decided: that the legality predicate answers the capture question correctly (C04)."""
from .. import sym, lift, setalg
from . import movegen, zob
from .movegen import AND, STM, NSTM, SELF
from .common import B, loc, transitive_field_access


def swap(e, a="self", b="other"):
    if not isinstance(e, tuple):
        return e
    if e == ("obj", a):
        return ("obj", b)
    if e == ("obj", b):
        return ("obj", a)
    if e and e[0] == "ptr" and e[1] == ("P", a):
        return ("ptr", ("P", b)) + e[2:]
    if e and e[0] == "ptr" and e[1] == ("P", b):
        return ("ptr", ("P", a)) + e[2:]
    return tuple(swap(x, a, b) for x in e)


def kernel(e):
    """Eq(X, Y) with Y == swap(X) -> X (oriented on self) else None"""
    if e[0] == "bin" and e[1] == "Eq":
        x, y = e[2], e[3]
        if swap(x) == y:
            return x if sym.contains(x, lambda t: t == ("obj", "self") or (t[0] == "ptr" and t[1] == ("P", "self"))) else y
    if e[0] == "call" and e[1].endswith("PartialEq>::eq") and len(e[2]) == 2:
        x, y = e[2]
        if swap(x) == y:
            return x if sym.contains(x, lambda t: t[0] == "ptr" and t[1] == ("P", "self")) else y
    return None


class _Unknown(Exception):
    pass


def decision_table(f, L, roles, paths, eff, hwe, want_fields, epfield):
    """same_position evaluated over a finite abstraction of two boards: per state field compared `equal?`, the hash
    without en passant `equal?`, each board's raw en-passant file in {None, a, b} and its effective file in {None, raw}.
    Admissible abstractions: equal fields and equal raw files give equal effective files (the helper reads nothing
    else), equal fields give equal hashes without en passant (C10).  The answer must be
    `all fields equal & hashes-without-ep equal & effective files equal` on every admissible abstraction.
    -> (True, n) | (False, description) | (None, reason) when a decision cannot be read in these terms"""
    inner_of = lambda x: ("field", ("obj", x), roles.inner_field)

    def who(e):
        s_ = sym.contains(e, lambda t: t == ("obj", "self") or (t[0] == "ptr" and t[1] == ("P", "self")))
        o_ = sym.contains(e, lambda t: t == ("obj", "other") or (t[0] == "ptr" and t[1] == ("P", "other")))
        return "self" if s_ and not o_ else ("other" if o_ and not s_ else None)

    def val(e, m):
        """abstract Option<File> value: None or a file number"""
        if e[0] in ("ref", "deref"):
            return val(e[1], m)
        if e[0] == "get" and e[1] == "en_passant":
            return m["raw"][who(e)]
        if e[0] == "field" and e[2] == epfield and who(e):
            return m["raw"][who(e)]
        if e[0] == "call" and e[1] in eff and who(e):
            return m["eff"][who(e)]
        if e[0] == "agg" and e[2] == "None":
            return None
        if e[0] == "agg" and e[2] == "Some":
            v_ = val(dict(e[4])["0"], m)
            if v_ is None:
                raise _Unknown("Some(None)")
            return v_
        if e[0] == "field" and e[2] == "0" and e[1][0] == "downcast" and e[1][2] == "Some":
            v_ = val(e[1][1], m)
            if v_ is None:
                raise _Unknown("payload of None")
            return v_
        raise _Unknown(sym.show(e)[:100])

    def truth(e, m):
        if e == sym.TRUE:
            return True
        if e == sym.FALSE:
            return False
        if e[0] == "un" and e[1] == "Not":
            return not truth(e[2], m)
        if e[0] == "bin" and e[1] in ("BitAnd", "BitOr"):
            a_, b_ = truth(e[2], m), truth(e[3], m)
            return (a_ and b_) if e[1] == "BitAnd" else (a_ or b_)
        neg = False
        if e[0] == "bin" and e[1] == "Ne":
            e, neg = ("bin", "Eq", e[2], e[3]), True
        elif e[0] == "call" and e[1].endswith("PartialEq>::ne") and len(e[2]) == 2:
            e, neg = ("call", e[1][:-2] + "eq", e[2]), True
        k = kernel(e)
        r = None
        if k is not None:
            if k[0] == "field" and k[1] == inner_of("self") and k[2] in want_fields:
                r = m["eqf"][k[2]]
            elif k[0] == "ptr" and k[1] == ("P", "self") and len(k[2]) == 2 and k[2][0] == ("f", roles.inner_field) and k[2][1][1] in want_fields:
                r = m["eqf"][k[2][1][1]]
            elif k[0] == "get" and k[1] in m["getters"]:
                r = m["eqf"][m["getters"][k[1]]]
            elif k[0] == "call" and k[1] == hwe:
                r = m["eqh"]
            elif k[0] == "field" and k[1] == inner_of("self") and k[2] == roles.hash_field:
                r = m["eqh"] and m["raw"]["self"] == m["raw"]["other"]        # the full hash also carries the raw file's key
        if r is None and (e[0] == "bin" and e[1] == "Eq" or (e[0] == "call" and e[1].endswith("PartialEq>::eq"))):
            x_, y_ = (e[2], e[3]) if e[0] == "bin" else e[2]
            if x_[0] == "discr" or y_[0] == "discr":
                dx = (0 if val(x_[1], m) is None else 1) if x_[0] == "discr" else (x_[1] if x_[0] == "int" else None)
                dy = (0 if val(y_[1], m) is None else 1) if y_[0] == "discr" else (y_[1] if y_[0] == "int" else None)
                if dx is None or dy is None:
                    raise _Unknown(sym.show(e)[:100])
                r = dx == dy
            else:
                r = val(x_, m) == val(y_, m)
        if r is None:
            if e[0] == "call" and e[1].rsplit("::", 1)[-1] in ("is_none", "is_some") and len(e[2]) == 1:
                v_ = val(e[2][0], m)
                r = (v_ is None) == (e[1].endswith("is_none"))
            else:
                raise _Unknown(sym.show(e)[:100])
        return (not r) if neg else r

    def holds(c, m):
        e, v = L.lift(c[0]), c[1]
        if e[0] == "discr":
            d = 0 if val(e[1], m) is None else 1
            return d == v if isinstance(v, int) else d not in v[1]
        if not isinstance(v, int):
            raise _Unknown("switch on %s" % sym.show(e)[:80])
        return truth(e, m) == bool(v)

    # getters that read one state field (side_to_move, castle_rights(..) ...) compare that field
    getters = {}
    for (n_, t_, p_, pt_) in L.templates:
        if t_[0] == "field" and t_[2] in want_fields:
            getters[n_] = t_[2]
        elif t_[0] == "field" and t_[1][0] == "field" and t_[1][2] == roles.inner_field and t_[2] in want_fields:
            getters[n_] = t_[2]
    fields = sorted(want_fields)
    nmodels = 0
    import itertools
    for bits in itertools.product((True, False), repeat=len(fields)):
        eqf = dict(zip(fields, bits))
        allf = all(bits)
        for eqh in ((True,) if allf else (True, False)):              # equal fields => equal hash without ep (C10)
            for rs in (None, 0, 1):
                for ro in (None, 0, 1):
                    for es in ({None, rs}):
                        for eo in ({None, ro}):
                            if allf and rs == ro and es != eo:
                                continue                                 # congruence of the effective-ep helper
                            m = {"eqf": eqf, "eqh": eqh, "raw": {"self": rs, "other": ro}, "eff": {"self": es, "other": eo}, "getters": getters}
                            want = allf and eqh and es == eo
                            nmodels += 1
                            hit = 0
                            for p in paths:
                                if p.end != "return":
                                    return None, "a path ends in %s" % p.end
                                try:
                                    if not all(holds(c, m) for c in p.conds):
                                        continue
                                    got = truth(L.lift(p.ret), m)
                                except _Unknown as ex:
                                    return None, "cannot read %s" % ex
                                hit += 1
                                if got != want:
                                    return False, ("fields equal: %s, hash without en passant equal: %s, raw en-passant files (self, other): %s, effective files: %s -> same_position answers %s"
                                                   % ({k_: v_ for k_, v_ in eqf.items()}, eqh, (rs, ro), (es, eo), got))
                            if hit == 0:
                                return None, "no path applies to an abstraction"
    return True, nmodels


def run(ctx):
    ctx.explanation = __doc__
    f = ctx.facts("A")
    L = lift.Lifter(f)
    roles = zob.Roles(ctx, f)
    ctx.rule("clocks-never-read")
    acc = transitive_field_access(f, [B + "::same_position"], kinds=("read", "ref", "refmut"))
    clock_fields = []
    for g in ("halfmove_clock", "fullmove_number"):
        t = [t for (n, t, p, pt) in L.templates if n == g][0]
        clock_fields.append(t[2])
    for cf in clock_fields:
        hits = acc.get((B, cf), [])
        ctx.check(not hits, "reads:%s" % cf, "same_position (or something it calls) reads the clock field %s: %s" % (cf, hits[:3]),
                  sample={"field": cf, "readers": 0, "functions_scanned": len({k for v in acc.values() for k, _ in v})})
    # ---- kernel form & coverage
    ctx.rule("kernel-form+coverage")
    body = f.need(B + "::same_position")
    from .names import names as role_names
    try:
        eff = [role_names(f).effective_ep]
    except Exception:
        eff = [k for k in f.bodies if k.startswith(B + "::same_position::") and f.bodies[k].kind == "Fn"]
    hwe = B + "::hash_without_ep"
    paths = sym.SymExec(f, body, inline=lambda n: False if (n in eff or n == hwe) else None).run()
    ctx.saw("%s: %d paths" % (body.key, len(paths)))
    inner = ("field", SELF, roles.inner_field)
    epfield = [t for (n, t, p, pt) in L.templates if n == "en_passant"][0][2]
    want_fields = set(roles.state_fields) - {roles.hash_field, epfield}
    n_true = 0
    eff_fn = None
    # first as a decision table over a finite abstraction (any arrangement of the comparisons, fast paths on the raw
    # en-passant files included); the per-path kernel form below is the fallback when a decision cannot be read so
    verdict, info = decision_table(f, L, roles, paths, eff, hwe, want_fields, epfield)
    if verdict is True:
        ctx.ok("same_position:decision-table", {"abstractions": info, "answer": "fields equal & hash-without-ep equal & effective en-passant files equal"})
        used = [k_ for p in paths for c in list(p.conds) + [(p.ret,)] for k_ in eff if sym.contains(c[0], lambda y: y[0] == "call" and y[1] == k_)]
        eff_fn = used[0] if used else None
        n_true = sum(1 for p in paths if p.end == "return" and p.ret != sym.FALSE)
        paths = []
    elif verdict is False:
        ctx.fail("same_position:decision-table", "same_position is not `all position fields equal, hash without en passant equal, effective en-passant files equal`: %s" % info, loc(body))
        used = [k_ for p in paths for c in list(p.conds) + [(p.ret,)] for k_ in eff if sym.contains(c[0], lambda y: y[0] == "call" and y[1] == k_)]
        eff_fn = used[0] if used else None
        n_true = 1
        paths = []
    else:
        ctx.note("same_position: decision table not applicable (%s); per-path kernel form used" % info)
    for p in paths:
        if p.end != "return":
            ctx.fail("same_position:path-end", "same_position has a path ending in %s" % p.end, loc(body))
            continue
        if p.ret == sym.FALSE:
            continue
        n_true += 1
        kernels = []
        ok = True
        decisions = [c for c in p.conds] + ([(p.ret, 1, None, 0)] if p.ret != sym.TRUE else [])
        hash_ok = False
        for c in decisions:
            e, v = c[0], c[1]
            if e[0] == "discr":
                continue     # which-variant tests of the en-passant option inside hash_without_ep
            if e[0] == "bin" and e[1] == "Ne" and v == 0:
                e, v = ("bin", "Eq", e[2], e[3]), 1          # `if a != b { return false }`
            elif e[0] == "call" and e[1].endswith("PartialEq>::ne") and len(e[2]) == 2 and v == 0:
                e, v = ("call", e[1][:-2] + "eq", e[2]), 1
            k = kernel(e)
            if k is None or v != 1:
                ok = False
                ctx.fail("same_position:not-kernel", "same_position answers true on a path with a decision that is not `F(self) == F(other)`: %s = %s"
                         % (sym.show(L.lift(e))[:200], v), loc(body))
                continue
            kernels.append(k)
        compared = set()
        for k in kernels:
            if k[0] == "field" and k[1] == inner:
                compared.add(k[2])
            elif k[0] == "ptr" and k[1] == ("P", "self") and len(k[2]) == 2 and k[2][0] == ("f", roles.inner_field):
                compared.add(k[2][1][1])
            elif k[0] == "call" and k[1] in eff:
                eff_fn = k[1]
                compared.add("<effective-ep>")
            elif k[0] == "call" and k[1] == hwe:
                compared.add("<hash-without-ep>")
            else:
                # hash without ep: hash [^ key(ep)]
                leaves = zob.cancel(zob.xor_leaves(k))
                if ("field", inner, roles.hash_field) in leaves:
                    hash_ok = True
                    compared.add("<hash-without-ep>")
        if ok:
            missing = want_fields - compared
            ctx.check(not missing, "same_position:covers-state",
                      "same_position can answer true without comparing %s" % sorted(missing), loc(body),
                      sample={"compared": sorted(compared)})
            ctx.check("<effective-ep>" in compared, "same_position:effective-ep-compared",
                      "same_position can answer true without comparing the effective en-passant file", loc(body))
    ctx.floor("true-answering paths of same_position", n_true, 1)
    # ---- effective ep
    ctx.rule("effective-en-passant")
    if eff_fn is None:
        ctx.fail("effective_ep:missing", "no effective-en-passant helper is compared by same_position")
        return
    eb = f.bodies[eff_fn]
    pname = eb.local_name(1)
    obj = ("obj", pname)
    eps = sym.SymExec(f, eb).run()
    ctx.saw("%s: %d paths" % (eb.key, len(eps)))
    stm = ("get", "side_to_move", obj)
    ep = ("get", "en_passant", obj)
    epfile = ("field", ("downcast", ep, "Some"), "0")
    epsq = ("sq", epfile, ("relrank", 5, stm))
    want_loop = AND(("pawnatt", epsq, ("cnot", stm)), movegen.colors(stm, obj), movegen.pieces("Pawn", obj))
    seen = {"none-noep": 0, "some": 0, "none-exhausted": 0, "continue": 0}
    for p in eps:
        conds = [(L.lift(c[0]), c[1]) for c in p.conds]
        ret = L.lift(p.ret) if p.ret else None
        epstate = None
        loop = None
        exhausted = False
        legal = None
        for e, v in conds:
            if e == ("discr", ep):
                epstate = "Some" if v == 1 else "None"
            elif e[0] == "bin" and e[1] in ("Eq", "Ne") and ("discr", ep) in (e[2], e[3]) and \
                    (e[3] if e[2] == ("discr", ep) else e[2])[0] == "int" and isinstance(v, int):
                k = (e[3] if e[2] == ("discr", ep) else e[2])[1]
                holds = (e[1] == "Eq") == bool(v)           # discr == k holds on this path
                epstate = "Some" if (k == 1) == holds else "None"
            elif e[0] == "discr" and e[1][0] == "next":
                if v == 1:
                    loop = e[1][1]
                else:
                    exhausted = e[1][1]
            elif e[0] == "call" and e[1] == B + "::is_legal":
                legal = (e, v)
            else:
                ctx.fail("effective_ep:unknown-decision", "effective en passant depends on an unexpected decision: %s" % sym.show(e)[:160], loc(eb))
        if epstate == "None":
            seen["none-noep"] += 1
            ctx.check(p.end == "return" and ret is not None and ret[0] == "agg" and ret[2] == "None", "effective_ep:no-ep-none",
                      "without an en-passant file the effective en passant is not None", loc(eb))
            continue
        if epstate != "Some":
            ctx.fail("effective_ep:undecided", "a path of the helper never looks at the en-passant file", loc(eb))
            continue
        if legal is not None:
            e, v = legal
            mv = e[2][1]
            frm = dict(mv[4]).get("from") if mv[0] == "agg" else None
            to = dict(mv[4]).get("to") if mv[0] == "agg" else None
            promo = dict(mv[4]).get("promotion") if mv[0] == "agg" else None
            ok_loop = loop is not None and setalg.equivalent(loop, want_loop)
            d = None if ok_loop or loop is None else setalg.difference(loop, want_loop)
            ctx.check(ok_loop, "effective_ep:candidates",
                      "capture candidates are not pawn_attacks(ep square, opponent) ∩ side-to-move's pawns, tried in a loop: %s %s"
                      % (sym.show(loop)[:300] if loop else "no loop over candidates", d and {k: (list(map(lambda x: sym.show(x)[:80], v)) if isinstance(v, list) else v) for k, v in d.items()}),
                      loc(eb), sample={"candidates": sym.show(loop)[:200] if loop else None})
            ok_mv = loop is not None and frm == ("elem", loop) and to == epsq and promo is not None and promo[0] == "agg" and promo[2] == "None" \
                and e[2][0][0] == "ptr" and e[2][0][1] == ("P", pname)
            ctx.check(ok_mv, "effective_ep:move", "the capture tested for legality is not (candidate -> ep square, no promotion) on the same board: %s"
                      % sym.show(mv)[:300], loc(eb))
            if v == 1:
                seen["some"] += 1
                ctx.check(p.end == "return" and ret is not None and ret[0] == "agg" and ret[2] == "Some" and dict(ret[4]).get("0") == epfile,
                          "effective_ep:legal-some", "a legal capture does not make the effective en passant Some(file)", loc(eb))
            else:
                seen["continue"] += 1
                ctx.check(p.end == "loopback", "effective_ep:illegal-continue",
                          "an illegal candidate does not lead to trying the next candidate (path ends with %s)" % p.end, loc(eb))
        else:
            seen["none-exhausted"] += 1
            ok = p.end == "return" and ret is not None and ret[0] == "agg" and ret[2] == "None" and exhausted is not False \
                and setalg.equivalent(exhausted, want_loop)
            ctx.check(ok, "effective_ep:none-only-when-exhausted",
                      "None is returned with an en-passant file present on a path that did not exhaust the candidate loop", loc(eb))
    for k, n in seen.items():
        ctx.floor("effective_ep paths of kind %s" % k, n, 1)
    # "allow a legal en-passant capture" is decided through is_legal: its agreement with move generation (owned by
    # C04) is a prerequisite of this property and is re-run here
    from . import c04
    ctx.rule("is_legal.reference-function")
    c04.check_is_legal(ctx, f, L)
    ctx.rule("king_is_legal.reference-function")
    c04.check_king_is_legal(ctx, f, L)
    ctx.assumptions.append("the pawn generator is_legal delegates to is the audited one (C01/C04 batch specification)")
    # the comparison goes through hash_without_ep: it separates exactly the positions only if the position-state writers
    # keep hash and state in lock-step for every history (owned by C10; re-run here, a stale key makes same_position
    # answer false for identical positions)
    from . import c10, c03, c01
    expl = ctx.explanation
    # "a legal en-passant capture": is_legal hands the question to the pawn generator's en-passant branch, whose agreement
    # with the rules is C01's (generator batches, king exposure test); re-run here
    c01.run(ctx)
    c10.run(ctx)
    # "a legal en-passant capture exists" is decided by is_legal from the stored checkers and pins: they must equal their
    # definition for every history (owned by C03; re-run here)
    c03.run(ctx)
    ctx.explanation = expl
