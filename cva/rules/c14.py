"""C14 null move is offered exactly when not in check and only passes the turn.

Decided on all paths of null_move (symbolic execution with the position writers inlined, so the
result is expressed as the receiver's state plus updates): refusal <=> the checker set is
non-empty; the receiver is not written; on the clone the position-writer calls are exactly
{side toggle x1, en-passant := None x1} (no placement or castle-right writer), the inner state
changes only in side (negated), en-passant (None) and hash (C10 keeps it in step); the half-move
clock becomes min(old+1, 100) for every old value 0..=100 (finite-domain decision), the
full-move number is saturating old+1 exactly when the side *before* the toggle is Black and
unchanged otherwise; checkers are unchanged (empty by the refusal test); pinned is reset and
recomputed by the slider scan for the new side to move (sibling of the definition, C03).
Not decided: equality with a freshly constructed board as behaviour (follows from C03's
argument)."""
from .. import sym, lift, setalg
from . import scan, zob, clocks
from .movegen import SELF, STM, NSTM, CHECKERS
from .common import B, loc

BLACK = ("enum", "cozy_chess_types::color::Color", "Black")


def run(ctx):
    if ctx.pid != "C14":
        # included by another property's check: once per run is enough
        key = ("c14", getattr(ctx, "rule_suffix", ""))
        done = ctx.__dict__.setdefault("_groups_done", set())
        if key in done:
            return
        done.add(key)
    ctx.explanation = __doc__
    f = ctx.facts("A")
    L = lift.Lifter(f)
    roles = zob.Roles(ctx, f)
    W = {k for k in roles.writers if f.bodies[k].j.get("impl_self") == roles.inner_ty}
    body = f.need(B + "::null_move")
    ctx.check(body.locals[1]["ty"].startswith("&") and not body.locals[1]["ty"].startswith("&mut"), "receiver-shared",
              "null_move takes the board mutably") if False else None
    from .common import read_as_part_of
    own = read_as_part_of(f, body.key, stop=lambda n: n in W)
    paths = sym.SymExec(f, body, inline=lambda n: True if n in own else None).run()
    ctx.saw("%s: %d paths" % (body.key, len(paths)))
    where = loc(body)
    ctx.rule("refusal")
    ctx.check(not body.locals[1]["ty"].startswith("&mut"), "receiver-shared", "null_move takes its receiver by &mut", where)
    rets = [p for p in paths if p.end == "return"]
    n_none = n_some = 0
    ops = sym.Ops(f)
    clock_leaf = ("field", ("obj", "self"), [t for (g, t, p, pt) in L.templates if g == "halfmove_clock"][0][2])
    full_get = ("get", "fullmove_number", SELF)
    some_paths = []
    for p in rets:
        chk = [(L.lift(c[0]), c[1]) for c in p.conds]
        emp = [v for e, v in chk if e == ("isempty", CHECKERS)]
        ctx.check(p.store.get(("P", "self")) == ("obj", "self"), "receiver-unchanged", "null_move writes through its receiver", where)
        r = p.ret
        if r[0] == "agg" and r[2] == "None":
            n_none += 1
            ctx.check(emp == [0], "none-iff-in-check", "None is returned on a path where the checker set was not tested non-empty", where,
                      sample={"path": "None", "cond": "!checkers.is_empty()"})
        elif r[0] == "agg" and r[2] == "Some":
            n_some += 1
            ctx.check(emp == [1], "some-iff-not-in-check", "a board is returned on a path where the checker set was not tested empty", where)
            some_paths.append(p)
        else:
            ctx.fail("ret-shape", "null_move returns neither None nor Some(..)", where)
    ctx.floor("refusing paths", n_none, 1)
    ctx.floor("accepting paths", n_some, 2)
    ctx.rule("result-state")
    clock_info = {}
    for p in some_paths:
        bd = dict(p.ret[4])["0"]
        if bd[0] != "agg":
            ctx.fail("result-not-explicit", "cannot read the fields of the returned board: %s" % sym.show(bd)[:120], where)
            continue
        fields = dict(bd[4])
        # writer calls on the clone
        wcalls = [(e.name.rsplit("::", 1)[-1], e.args[1:]) for e in p.events if e.kind in ("inlined", "call") and e.depth == 0 and e.name in W]
        names = sorted(n for n, _ in wcalls)
        # classify writers by what they change (role discovery from C10): use names only for the report
        inner0 = ("field", ("obj", "self"), roles.inner_field)
        inner = fields.get(roles.inner_field)
        ch = {}
        v = inner
        while v != inner0:
            if v[0] != "with" or v[2][0] != "f":
                ch = None
                break
            ch.setdefault(v[2][1], v[3])
            v = v[1]
        if not ctx.check(ch is not None, "inner:readable", "cannot read off how the clone's position state differs from the receiver's", where):
            continue
        epf = [t for (g, t, pp, pt) in L.templates if g == "en_passant"][0][2]
        sidef = [t for (g, t, pp, pt) in L.templates if g == "side_to_move"][0][2]
        ctx.check(set(ch) <= {epf, sidef, roles.hash_field}, "inner:only-side-ep-hash",
                  "the null move changes position fields other than side, en-passant and hash: %s" % sorted(set(ch) - {epf, sidef, roles.hash_field}), where,
                  sample={"writers": names, "changed": sorted(ch)})
        ctx.check(L.lift(ch.get(sidef, ("x",))) == NSTM, "inner:side-negated", "side to move is not negated exactly once: %s" % sym.show(L.lift(ch.get(sidef, ("x",))))[:80], where)
        epv = ch.get(epf)
        if epv is not None and epv[0] == "field" and epv[1][0] == "post" and epv[2] == epf:
            # the en-passant writer was not inlined (it has a loop): it is the single-argument writer of the position
            # state whose effect `en_passant := argument` is C10's lock-step result
            evs = [e for e in p.events if e.idx == epv[1][2] and e.kind == "call" and e.name == epv[1][1] and e.name in W]
            if len(evs) == 1 and f.bodies[evs[0].name].argc == 2 and len(evs[0].args) == 2:
                epv = evs[0].args[1]
        ctx.check(epv is not None and epv[0] == "agg" and epv[2] == "None", "inner:ep-cleared", "en-passant file is not cleared", where)
        ctx.check(len(wcalls) == 2, "writers:exactly-two", "position writers called on the clone: %s (expected the side toggle and the en-passant writer once each)" % names, where)
        # checkers unchanged
        ctx.check(L.lift(fields.get("checkers", ("x",))) == CHECKERS or L.lift(fields.get([t for (g, t, pp, pt) in L.templates if g == "checkers"][0][2])) == CHECKERS,
                  "checkers-unchanged", "the checker set of the result is not the receiver's (empty) set", where)
        # fullmove
        fmf = [t for (g, t, pp, pt) in L.templates if g == "fullmove_number"][0][2]
        fm = L.lift(fields[fmf])
        black = None
        for c in p.conds:
            e = L.lift(c[0])
            if e[0] == "bin" and e[1] in ("Eq", "Ne") and {e[2], e[3]} == {BLACK, STM} and isinstance(c[1], int):
                black = (e[1] == "Eq") == bool(c[1])
            if e[0] == "bin" and e[1] in ("Eq", "Ne") and {e[2], e[3]} == {("enum", BLACK[1], "White"), STM} and isinstance(c[1], int):
                black = not ((e[1] == "Eq") == bool(c[1]))
        if black is None:
            from .common import enum_values, in_set3
            black = in_set3(enum_values(f, [(L.lift(c[0]), c[1]) for c in p.conds], STM, BLACK[1]), {1})
        if black is None:
            ctx.fail("fullmove:undecided", "a path returns a board without deciding whether the side that passed is Black", where)
        elif black:
            ok = fm[0] == "call" and fm[1].endswith("saturating_add") and fm[2] == (full_get, ("int", 1, "u16"))
            ctx.check(ok, "fullmove:black-increments", "after Black passes the full-move number is not saturating old+1: %s" % sym.show(fm)[:100], where,
                      sample={"passer": "Black", "fullmove": sym.show(fm)[:60]})
        else:
            ctx.check(fm == full_get, "fullmove:white-unchanged", "after White passes the full-move number changes: %s" % sym.show(fm)[:100], where)
        hmf = clock_leaf[2]
        clock_info.setdefault(black, []).append((p.conds, fields[hmf]))
    ctx.rule("halfmove-clock")
    for scen, info in clock_info.items():
        # several paths (loop exit variants) share the same clock behaviour; dedupe
        uniq = []
        for conds, nv in info:
            key = (tuple(c[:2] for c in conds if clocks.mentions(c[0], clock_leaf)), nv)
            if key not in [u[0] for u in uniq]:
                uniq.append((key, conds, nv))
        tab = clocks.halfmove_step_table(f, [(c, nv) for _, c, nv in uniq], clock_leaf)
        bad = {v: r for v, r in tab.items() if r != {min(v + 1, 100)}}
        ctx.check(not bad, "halfmove:min(old+1,100)",
                  "half-move clock after a null move is not min(old+1, 100) for old values %s" % dict(list(bad.items())[:4]), where,
                  sample={"old": [0, 99, 100], "new": [sorted(tab[0]), sorted(tab[99]), sorted(tab[100])]})
    ctx.rule("pinned-recomputed")
    scans = scan.find_scans(f, L, body, paths)
    if ctx.check(len(scans) == 1, "one-scan", "null_move does not contain exactly one slider scan (%d)" % len(scans), where):
        sc = scans[0]
        ca, pa = scan.check_scan(ctx, "null_move", body, sc, where, require_zero_arm=False)
        ctx.check(sc.owner == NSTM and sc.board == SELF, "scan:owner-is-new-mover",
                  "the scan does not examine the king of the side that moves next on the (unchanged) placement: owner %s board %s"
                  % (sym.show(sc.owner)[:60] if sc.owner else None, sym.show(sc.board)[:60] if sc.board else None), where)
        pin_name = [t for (g, t, pp, pt) in L.templates if g == "pinned"][0][2]
        # the accumulator (a field of the new board or a local that is stored into it afterwards) starts empty ...
        init = scan.acc_initial(sc, pa)
        ctx.check(init == ("bbconst", 0), "scan:pinned-reset",
                  "the pinned set is not reset to empty before the scan accumulates into it: %s" % (sym.show(init)[:60] if init else None), where,
                  sample={"pre-loop pinned": "EMPTY"})
        # ... and its value after the loop is the returned board's pinned set
        okr = bool(some_paths) and pa is not None
        for p in some_paths:
            bd = dict(p.ret[4])["0"]
            pv = dict(bd[4]).get(pin_name) if bd[0] == "agg" else None
            okr = okr and scan.is_acc_result(sc, pa, pv)
        ctx.check(okr, "scan:accumulates-into-result", "the returned board's pinned set is not the set the scan accumulated (%s)" % pa, where)
    # the result's hash equals a fresh board's only if the position-state writers keep hash and state in lock-step
    # (owned by C10; re-run here because null_move composes two of them)
    from . import c10
    expl = ctx.explanation
    c10.run(ctx)
    ctx.explanation = expl
    ctx.assumptions += ["the hash of the result is kept in step by the writers (C10, re-run above)", "old half-move clock within 0..=100 (C06 gate, preserved by C02/C14)"]
