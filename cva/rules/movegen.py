"""Shared analysis of the move generators (used by C01, C04, C16).

Every generator is executed symbolically (all paths, loops cut at their headers) for both
values of IN_CHECK; each call of the listener is a *site* with: the set its origin square
ranges over, the destination set, and the guard under which it is reached.  Sites are
compared with a specification written in the library's public vocabulary; sets are compared
by Boolean equivalence over atoms (cva/setalg.py), so any algebraically equivalent rewrite
of the generator passes and any change of meaning is reported with a witness."""
from .. import sym, lift, setalg
from ..sym import TRUE, FALSE
from .common import B, loc
from .names import names

T = "cozy_chess_types::"
PIECE = T + "piece::Piece"
COLOR = T + "color::Color"
FILE = T + "file::File"
SELF = ("obj", "self")
STM = ("get", "side_to_move", SELF)
NSTM = ("cnot", STM)
WHITE = ("enum", COLOR, "White")
BLACK = ("enum", COLOR, "Black")


def colors(c, s=SELF):
    return ("get", "colors", s, c)


def pieces(p, s=SELF):
    return ("get", "pieces", s, ("enum", PIECE, p))


def AND(*xs):
    r = xs[0]
    for x in xs[1:]:
        r = ("and", r, x)
    return r


def OR(*xs):
    r = xs[0]
    for x in xs[1:]:
        r = ("or", r, x)
    return r


def NOT(x):
    return ("not", x)


OWN = colors(STM)
ENEMY = colors(NSTM)
OCC = OR(colors(WHITE), colors(BLACK))
PINNED = ("get", "pinned", SELF)
CHECKERS = ("get", "checkers", SELF)
MASK = ("param", "mask")
K = ("king", SELF, STM)
CHECKER = ("the", CHECKERS)
EP = ("get", "en_passant", SELF)
EPFILE = ("field", ("downcast", EP, "Some"), "0")
FULLBB = ("bbconst", setalg.FULL)


def bb(s):
    return ("bbof", s)


def targets(in_check):
    if in_check:
        return AND(OR(("between", CHECKER, K), bb(CHECKER)), NOT(OWN))
    return NOT(OWN)


def pseudo(piece, frm):
    if piece == "Bishop":
        return ("bishopmoves", frm, OCC)
    if piece == "Rook":
        return ("rookmoves", frm, OCC)
    if piece == "Queen":
        return OR(("bishopmoves", frm, OCC), ("rookmoves", frm, OCC))
    if piece == "Knight":
        return ("knight", frm)
    if piece == "Pawn":
        return OR(("pawnquiets", frm, STM, OCC), AND(("pawnatt", frm, STM), ENEMY))
    raise ValueError(piece)


def mover_set(piece, pinned):
    return AND(OWN, pieces(piece), MASK, PINNED if pinned else NOT(PINNED))


def ep_squares():
    dest = ("sq", EPFILE, ("relrank", 5, STM))
    victim = ("sq", EPFILE, ("relrank", 4, STM))
    return dest, victim


def spec_sites(piece, in_check):
    """list of dict(name, loop, to(frm), guards(frm) as list of (atom, polarity) conjunctions, single)"""
    sites = []
    tg = targets(in_check)
    sites.append(dict(name="%s:unpinned" % piece, loop=mover_set(piece, False),
                      to=lambda frm: AND(pseudo(piece, frm), tg), guards=lambda frm: [[]], single=False))
    if piece != "Knight" and not in_check:
        sites.append(dict(name="%s:pinned" % piece, loop=mover_set(piece, True),
                          to=lambda frm: AND(pseudo(piece, frm), tg, ("line", K, frm)),
                          guards=lambda frm: [[]], single=False))
    if piece == "Pawn":
        dest, victim = ep_squares()
        loop = AND(("pawnatt", dest, NSTM), OWN, pieces("Pawn"), MASK)

        def ep_guards(frm):
            occ2 = OR(("xor", ("xor", OCC, bb(victim)), bb(frm)), bb(dest))
            diag = AND(("bishopmoves", K, occ2), ENEMY, OR(pieces("Bishop"), pieces("Queen")))
            orth = AND(("rookmoves", K, occ2), ENEMY, OR(pieces("Rook"), pieces("Queen")))
            return [[(("discr", EP), 1, True),
                     (("isempty", setalg.canon(diag)), None, True),
                     (("isempty", setalg.canon(orth)), None, True)]]
        sites.append(dict(name="Pawn:en-passant", loop=loop, to=lambda frm: bb(dest), guards=ep_guards, single=True))
    return sites


# ------------------------------------------------------------------------------ extraction

class Site:
    def __init__(self):
        self.bb = None
        self.line = None
        self.frm = None
        self.to = None
        self.piece = None
        self.loop = None
        self.guards = []       # list (per path) of [(atom, polarity)]
        self.nonempty_guard = True
        self.raw = None


def is_listener_call(e):
    """a call of the generator's listener parameter, made by the generator itself or by a private helper /
    closure inlined into it (the callee is the pointer to the caller's `listener`)"""
    if not (e.kind == "call" and e.decl.endswith("FnMut::call_mut") and e.args):
        return False
    if e.depth == 0:
        return True
    a = e.args[0]
    return a[0] == "ptr" and a[1][0] == "P" and a[2] == ()


def site_keys(p):
    """key of each listener call: the call site in the analysed function (+ the inner site when the call is made
    by an inlined helper)"""
    out = {}
    top = None
    for e in p.events:
        if e.depth == 0:
            top = e.bb
        if is_listener_call(e):
            out[e.idx] = top if e.depth == 0 else (top, e.fn, e.bb)
    return out


def split_conds(L, conds, to_expr):
    """-> (loop set of the innermost active loop, other guard atoms, saw nonempty(to) guard)"""
    loop = None
    guards = []
    nonempty = False
    to_c = setalg.canon(to_expr) if to_expr is not None else None
    for c in conds:
        e = L.lift(c[0])
        v = c[1]
        if e[0] == "discr" and e[1][0] == "next":
            if v == 1:
                loop = e[1][1]
            continue
        a, pol = setalg.cond_atom((e, v))
        if a[0] == "isempty" and to_c is not None and a[1] == to_c and pol is False:
            nonempty = True
            continue
        guards.append((a, pol))
    return loop, guards, nonempty


def extract_sites(f, L, name, cgen=None, tgen=None):
    body = f.need(name)
    se = sym.SymExec(f, body, cgen=cgen or {}, tgen=tgen or {}, **gen_kw(f, name, cgen))
    paths = se.run()
    sites = {}
    for p in paths:
        keys = site_keys(p)
        for e in p.events:
            if not is_listener_call(e):
                continue
            skey = keys[e.idx]
            arg = e.args[1]
            pm = arg[1][0] if arg[0] == "tuple" and arg[1] else None
            if pm is None or pm[0] != "agg":
                continue
            fields = dict(pm[4])
            to = L.lift(fields.get("to"))
            frm = L.lift(fields.get("from"))
            loop, guards, nonempty = split_conds(L, p.conds[:e.ncond], to)
            s = sites.get(skey)
            if s is None:
                s = Site()
                s.bb = skey
                s.line = e.line
                s.frm = frm
                s.to = to
                s.piece = L.lift(fields.get("piece"))
                s.loop = loop
                s.nonempty_guard = nonempty
                sites[skey] = s
            else:
                s.nonempty_guard = s.nonempty_guard and nonempty
            s.guards.append(guards)
    return body, paths, [sites[k] for k in sorted(sites, key=repr)]


def slider_implications(atoms):
    """isempty(A) => isempty(B) whenever B ⊆ A given that slider attacks lie on the empty-board rays"""
    def inject(e):
        if not isinstance(e, tuple) or not e:
            return e
        if e[0] == "bishopmoves":
            return ("and", e, ("bishoprays", e[1]))
        if e[0] == "rookmoves":
            return ("and", e, ("rookrays", e[1]))
        if e[0] == "bool":
            # re-expand is not possible; handled by the caller using original expressions
            return e
        return tuple(inject(x) if isinstance(x, tuple) else x for x in e)
    return inject


def bool_to_expr(c):
    """turn a canonical ('bool', atoms, tt) back into an and/or/not expression (DNF)"""
    if not (isinstance(c, tuple) and c and c[0] == "bool"):
        return c
    atoms, tt = c[1], c[2]
    n = len(atoms)
    terms = []
    for r in range(1 << n):
        if (tt >> r) & 1:
            lits = [atoms[i] if (r >> i) & 1 else ("not", atoms[i]) for i in range(n)]
            t = lits[0] if lits else ("bbconst", setalg.FULL)
            for x in lits[1:]:
                t = ("and", t, x)
            terms.append(t)
    if not terms:
        return ("bbconst", 0)
    e = terms[0]
    for t in terms[1:]:
        e = ("or", e, t)
    return e


def with_ray_axiom(e):
    """conjoin every slider-attack atom with its empty-board ray (moves ⊆ rays, proved in C05)"""
    if not isinstance(e, tuple) or not e:
        return e
    if e[0] == "bool":
        e = bool_to_expr(e)
    if e[0] == "bishopmoves":
        return ("and", e, ("bishoprays", e[1]))
    if e[0] == "rookmoves":
        return ("and", e, ("rookrays", e[1]))
    if e[0] in setalg.SETOPS:
        return (e[0],) + tuple(with_ray_axiom(x) for x in e[1:])
    return e


def implications_among(atoms):
    out = []
    iso = [a for a in atoms if isinstance(a, tuple) and a and a[0] == "isempty"]
    for a in iso:
        for b in iso:
            if a is b or a == b:
                continue
            A = with_ray_axiom(a[1])
            Bx = with_ray_axiom(b[1])
            try:
                if setalg.subset(Bx, A):
                    out.append((a, b))     # isempty(A) => isempty(B)
            except ValueError:
                pass
    return out


def compare_sites(ctx, tag, body, code_sites, spec, lenient_extra=False):
    """match code sites against spec sites; report differences"""
    used = set()
    for cs in code_sites:
        best = None
        reasons = []
        for i, ss in enumerate(spec):
            if i in used:
                continue
            if cs.loop is None:
                reasons.append("%s: site is not inside a loop over a square set" % ss["name"])
                continue
            if not setalg.equivalent(cs.loop, ss["loop"]):
                continue
            best = (i, ss)
            break
        key = "%s:site@%s" % (tag, sym.show(cs.loop)[:60] if cs.loop else "noloop")
        if best is None:
            ctx.fail("%s:unexpected-batch" % tag,
                     "generator hands the listener a batch whose origin set matches no prescribed batch: from ∈ %s, to = %s"
                     % (sym.show(cs.loop)[:300] if cs.loop else None, sym.show(cs.to)[:300]), loc(body, cs.line))
            continue
        i, ss = best
        used.add(i)
        frm = ("elem", cs.loop)
        ok_from = cs.frm == frm
        ctx.check(ok_from, "%s:%s:from" % (tag, ss["name"]),
                  "batch origin is not the loop variable: from = %s" % sym.show(cs.frm)[:200], loc(body, cs.line))
        want_to = ss["to"](frm)
        eq = setalg.equivalent(cs.to, want_to)
        detail = None
        if not eq:
            d = setalg.difference(cs.to, want_to)
            detail = {"witness": {k: ([sym.show(x)[:160] for x in v] if isinstance(v, list) else v) for k, v in d.items()}}
        ctx.check(eq, "%s:%s:to" % (tag, ss["name"]),
                  "destination set differs from the rules: code to = %s ; required = %s ; differs when %s"
                  % (sym.show(cs.to)[:400], sym.show(want_to)[:400], detail), loc(body, cs.line), detail,
                  sample={"site": ss["name"], "config": tag, "from∈": sym.show(cs.loop)[:200], "to": sym.show(cs.to)[:300]})
        # guards
        want_g = [[(a, pol) for (a, _, pol) in conj] for conj in ss["guards"](frm)]
        want_g = [[(setalg.norm_atom(a), pol) for a, pol in conj] for conj in want_g]
        # inside the loop the origin set has a member: every superset of it is non-empty (early exits such as
        # `if pieces.is_empty() { return false }` add nothing), and a path claiming such a set empty is not a path
        code_g = []
        for conj in cs.guards:
            keep = []
            dead = False
            for a, pol in conj:
                if isinstance(a, tuple) and a and a[0] == "isempty" and cs.loop is not None:
                    try:
                        sup = setalg.subset(bool_to_expr(cs.loop), bool_to_expr(a[1]))
                    except Exception:
                        sup = False
                    if sup:
                        if pol is True:
                            dead = True
                        continue
                keep.append((a, pol))
            if not dead:
                code_g.append(keep)
        atoms = []
        for conj in code_g + want_g:
            for a, pol in conj:
                if a not in atoms:
                    atoms.append(a)
        try:
            ok, wit = setalg.guards_equivalent(code_g, want_g, implications_among(atoms))
        except ValueError as e:
            ok, wit = False, {"error": str(e)}
        ctx.check(ok, "%s:%s:guard" % (tag, ss["name"]),
                  "the condition under which this batch is delivered differs from the rules: %s"
                  % ({k: ([sym.show(x)[:200] for x in v] if isinstance(v, list) else v) for k, v in (wit or {}).items()}),
                  loc(body, cs.line))
        if not ss["single"]:
            ctx.check(cs.nonempty_guard, "%s:%s:nonempty" % (tag, ss["name"]),
                      "batch is delivered without testing that its destination set is non-empty", loc(body, cs.line))
    for i, ss in enumerate(spec):
        if i not in used:
            ctx.fail("%s:%s:missing" % (tag, ss["name"]),
                     "no batch is generated for %s (origin set %s)" % (ss["name"], sym.show(ss["loop"])[:200]), loc(body))


def gen_key(f, piece):
    """generator function of a piece kind, by role (resolved from the public dispatch function, see names.py)"""
    return names(f).generators["Slider" if piece in ("Bishop", "Rook", "Queen") else piece]


def slider_key(f):
    return names(f).generators["Slider"]


def slider_types(f):
    """the three instantiations of the slider generator: its type parameter's implementors, labelled by their PIECE constant"""
    out = {}
    for k, c in f.consts.items():
        if k.endswith("::PIECE") and k.startswith("<") and " as " in k and c.get("v") in (2, 3, 4):
            ty = k[1:k.index(" as ")]
            out[{2: "Bishop", 3: "Rook", 4: "Queen"}[c["v"]]] = ty
    if set(out) != {"Bishop", "Rook", "Queen"}:
        from ..facts import MissingAnchor
        raise MissingAnchor("the three slider kinds (found %s)" % sorted(out))
    return out


def gen_rename(f, key):
    """canonical parameter names for a (private) generator: self, mask, listener"""
    N = names(f)
    b = f.need(key)
    rn = {b.local_name(1): "self"}
    try:
        rn[N.mask_param(key)] = "mask"
        rn[N.listener_param(key)] = "listener"
    except Exception:
        pass
    return rn


def gen_kw(f, key, cgen=None):
    """engine options for analysing a generator on its own: canonical parameter names, and the parameters the roster
    computes and hands in bound to those values (for the IN_CHECK instance being analysed)"""
    kw = {"rename": gen_rename(f, key)}
    N = names(f)
    if key in N.generators.values():
        ic = bool(cgen) and cgen.get("IN_CHECK") == TRUE
        bound = N.gen_bound_params(key, ic)
        if bound:
            kw["params"] = bound
        helpers = set(N.exclusive_helpers(key))
        subgens = N.exclusive_subgenerators(key)
        for sg in subgens:
            helpers |= {sg} | set(N.exclusive_helpers(sg))
        if helpers:
            kw["inline"] = lambda n, hs=helpers: True if n in hs else None
    return kw


def tparam(f):
    return names(f).slider_type_param


def check_generators(ctx, f, L):
    """C01/C16: sites of the pawn, knight and slider generators against the specification"""
    n = 0
    for in_check in (False, True):
        cg = {"IN_CHECK": TRUE if in_check else FALSE}
        for piece in ("Pawn", "Knight", "Bishop", "Rook", "Queen"):
            tag = "%s/%s" % (piece, "check" if in_check else "nocheck")
            if piece in ("Pawn", "Knight", "King"):
                body, paths, sites = extract_sites(f, L, gen_key(f, piece), cg)
            else:
                body, paths, sites = extract_sites(f, L, slider_key(f), cg, {tparam(f): slider_types(f)[piece]})
            ctx.saw("%s [%s]: %d paths, %d listener sites" % (body.key, tag, len(paths), len(sites)))
            # piece tag of the batch
            for s in sites:
                ctx.check(s.piece == ("enum", PIECE, piece), "%s:piece-tag" % tag,
                          "batch is labelled %s instead of %s" % (sym.show(s.piece), piece), loc(body, s.line))
            compare_sites(ctx, tag, body, sites, spec_sites(piece, in_check))
            n += len(sites)
    return n


# ------------------------------------------------------------------------------ king safety

def king_safe_spec(square, s=SELF):
    stm = ("get", "side_to_move", s)
    nstm = ("cnot", stm)
    own, enemy = colors(stm, s), colors(nstm, s)
    occ = OR(colors(WHITE, s), colors(BLACK, s))
    occ2 = OR(("xor", occ, AND(own, pieces("King", s))), bb(square))
    return {
        "diagonal sliders": AND(("bishopmoves", square, occ2), enemy, OR(pieces("Bishop", s), pieces("Queen", s))),
        "orthogonal sliders": AND(("rookmoves", square, occ2), enemy, OR(pieces("Rook", s), pieces("Queen", s))),
        "knights": AND(("knight", square), enemy, pieces("Knight", s)),
        "king": AND(("kingmoves", square), enemy, pieces("King", s)),
        "pawns": AND(("pawnatt", square, stm), enemy, pieces("Pawn", s)),
    }


def check_king_safe_on(ctx, f, L):
    """king_safe_on(square) is true iff none of the five attacker sets (with the own king lifted) is non-empty"""
    body = f.need(names(f).king_safe_on)
    paths = sym.SymExec(f, body, rename={body.local_name(1): "self", body.local_name(2): "square"}).run()
    ctx.saw("%s: %d paths" % (body.key, len(paths)))
    sq = ("param", "square")
    spec = {k: setalg.canon(v) for k, v in king_safe_spec(sq).items()}
    true_paths = []
    rejecting = []
    for p in paths:
        if p.end != "return":
            ctx.fail("king_safe_on:path-end", "king_safe_on has a path ending in %s" % p.end, loc(body))
            continue
        conds = [setalg.cond_atom((L.lift(c[0]), c[1])) for c in p.conds]
        if p.ret == TRUE:
            true_paths.append(conds)
        elif p.ret == FALSE:
            rejecting.append(conds)
        else:
            # `a && b && last` returns its last conjunct as a value: the same as branching on it
            r = L.lift(p.ret)
            if r[0] in ("isempty", "has", "bin", "un"):
                true_paths.append(conds + [setalg.cond_atom((r, 1))])
                rejecting.append(conds + [setalg.cond_atom((r, 0))])
            else:
                ctx.fail("king_safe_on:ret", "king_safe_on returns something that is not a test of attacker sets: %s" % sym.show(r)[:100], loc(body))
    # safe  <=>  all spec sets empty
    want = [[(("isempty", c), True) for c in spec.values()]]
    ok, wit = setalg.guards_equivalent(true_paths, want)
    detail = None
    if not ok:
        # name the attacker kinds that are missing / unknown
        code_sets = set()
        for conds in true_paths:
            for a, pol in conds:
                if a[0] == "isempty":
                    code_sets.add(a[1])
        missing = [k for k, c in spec.items() if c not in code_sets]
        detail = {"attack kinds not consulted as specified": missing, "witness": str(wit)[:600]}
    ctx.check(ok, "king_safe_on:spec",
              "king_safe_on is not `no enemy bishop/queen, rook/queen, knight, king or pawn attacks the square with our king lifted`: %s" % detail,
              loc(body), detail, sample={"function": "king_safe_on", "attack_kinds": sorted(spec)})
    return spec


# ------------------------------------------------------------------------------ castling

def check_can_castle(ctx, f, L):
    from .. import geom, evalx
    N = names(f)
    body = f.need(N.can_castle)
    paths = sym.SymExec(f, body, rename={body.local_name(1): "self", body.local_name(2): "rook", body.local_name(3): "king_dest",
                                         body.local_name(4): "rook_dest"}).run()
    ctx.saw("%s: %d paths" % (body.key, len(paths)))
    # the castling rook is named by its file (on the mover's back rank) or handed over as a square
    rook = ("sq", ("param", "rook"), ("relrank", 0, STM)) if body.locals[2]["ty"].endswith("file::File") else ("param", "rook")
    kd = ("sq", ("param", "king_dest"), ("relrank", 0, STM))
    rd = ("sq", ("param", "rook_dest"), ("relrank", 0, STM))
    safe_set = OR(("between", K, kd), bb(kd))
    empty_set = OR(safe_set, ("between", K, rook), bb(rd))
    blockers = ("xor", ("xor", OCC, bb(K)), bb(rook))
    pinned_atom = ("isempty", setalg.canon(AND(PINNED, bb(rook))))
    empty_atom = ("isempty", setalg.canon(AND(blockers, empty_set)))
    # After desugaring (cva/desugar.py) `S.iter().all(p)` and a hand-written loop are the same thing:
    # the answer is true exactly when the loop over S runs out, and an iteration leaves with false exactly when
    # its predicate fails.  S must be the safety set and the predicate king_safe_on(self, square).
    exits = []
    false_paths = []
    iters = []
    S = None
    for p in paths:
        if p.end not in ("return", "loopback"):
            ctx.fail("can_castle:path-end", "can_castle has a path ending in %s" % p.end, loc(body))
            continue
        li = None
        for i, c in enumerate(p.conds):
            if c[0][0] == "discr" and c[0][1][0] == "next":
                li = i
                break
        if li is None:
            conds = [setalg.cond_atom((L.lift(c[0]), c[1])) for c in p.conds]
            if p.end == "return" and p.ret == FALSE:
                false_paths.append(conds)
            else:
                ctx.fail("can_castle:shape", "can_castle answers %s without testing the king's path for attacks" % sym.show(p.ret)[:80], loc(body))
            continue
        pre = [setalg.cond_atom((L.lift(c[0]), c[1])) for c in p.conds[:li]]
        s_here = L.lift(p.conds[li][0][1][1])
        if S is None:
            S = s_here
        elif S != s_here:
            ctx.fail("can_castle:shape", "can_castle loops over two different square sets", loc(body))
        if p.conds[li][1] == 0:
            if p.end == "return" and p.ret == TRUE and len(p.conds) == li + 1:
                exits.append(pre)
            else:
                ctx.fail("can_castle:shape", "after testing every square can_castle answers %s" % sym.show(p.ret)[:80], loc(body))
            continue
        rest = p.conds[li + 1:]
        okp = len(rest) == 1
        if okp:
            e, v = rest[0][0], rest[0][1]
            okp = e[0] == "call" and e[1] == N.king_safe_on and e[2][1] == ("elem", p.conds[li][0][1][1]) \
                and e[2][0][0] == "ptr" and e[2][0][1] == ("P", "self")
            if okp and v == 1:
                okp = p.end == "loopback"
            elif okp and v == 0:
                okp = p.end == "return" and p.ret == FALSE
            else:
                okp = False
        ctx.check(okp, "can_castle:safety-predicate",
                  "an iteration over the safety set does not decide by king_safe_on(self, square) alone (continue when safe, answer false when attacked)", loc(body))
        iters.append(p)
    ok = len(exits) == 1 and len(iters) == 2
    ctx.check(ok, "can_castle:shape", "can_castle does not have exactly one way to answer true, after a loop over the safety set (%d exits, %d iteration paths)"
              % (len(exits), len(iters)), loc(body))
    if not ok:
        return
    conds = exits[0]
    want = [(pinned_atom, True), (empty_atom, True)]
    okc, wit = setalg.guards_equivalent([conds], [want])
    ctx.check(okc, "can_castle:preconditions",
              "castling is not conditioned on exactly `castling rook not pinned` and `every square of (king path ∪ king destination ∪ king-to-rook ∪ rook destination) other than the king's and rook's own is empty`: %s"
              % (str(wit)[:900]), loc(body),
              sample={"function": "can_castle", "must_be_empty": sym.show(empty_set)[:200]})
    ctx.check(setalg.equivalent(S, safe_set), "can_castle:safety-set",
              "the squares tested for attack are not exactly king path ∪ king destination: %s" % sym.show(S)[:300], loc(body),
              sample={"function": "can_castle", "must_be_safe": sym.show(S)[:200]})
    # FIDE geometry: evaluate the code's own emptiness/safety sets for every Chess960 geometry
    bad = []
    n = 0
    # recover the code's emptiness set from its condition: isempty(blockers & X)
    code_empty = None
    for a, pol in conds:
        if a[0] == "isempty" and a != pinned_atom:
            code_empty = a[1]
    for color in range(2):
        rank = 0 if color == 0 else 7
        for kf in range(8):
            for rf in range(8):
                if rf == kf:
                    continue
                short = rf > kf
                kdf, rdf = (6, 5) if short else (2, 3)
                ks, rs = geom.sq(kf, rank), geom.sq(rf, rank)
                kds, rds = geom.sq(kdf, rank), geom.sq(rdf, rank)
                fide_empty = (geom.between(ks, kds) | geom.bit(kds) | geom.between(rs, rds) | geom.bit(rds)) \
                    & ~geom.bit(ks) & ~geom.bit(rs)
                code = (geom.between(ks, kds) | geom.bit(kds) | geom.between(ks, rs) | geom.bit(rds)) \
                    & ~geom.bit(ks) & ~geom.bit(rs)
                fide_safe = geom.between(ks, kds) | geom.bit(kds)
                n += 1
                if fide_empty != code:
                    bad.append(("WB"[color], geom.FILES[kf], geom.FILES[rf]))
    ctx.check(not bad, "can_castle:fide-geometry",
              "for some Chess960 geometries (colour, king file, rook file) the set required empty differs from the FIDE set: %s" % bad[:6],
              loc(body), sample={"geometries": n, "rule": "between(K,Kdest)|Kdest|between(K,R)|Rdest minus {K,R} == FIDE set"})


def check_king_generator(ctx, f, L):
    """add_king_legals: ordinary king steps filtered by king_safe_on plus the two castling moves"""
    for in_check in (False, True):
        tag = "King/%s" % ("check" if in_check else "nocheck")
        cg = {"IN_CHECK": TRUE if in_check else FALSE}
        body = f.need(gen_key(f, "King"))
        paths = sym.SymExec(f, body, cgen=cg, **gen_kw(f, body.key, cg)).run()
        ctx.saw("%s [%s]: %d paths" % (body.key, tag, len(paths)))
        step_set = AND(("kingmoves", K), NOT(OWN))
        # (a) accumulation loop: paths that come back to the loop header
        acc_local = None
        loop_ok = 0
        for p in paths:
            if p.end != "loopback":
                continue
            conds = [(L.lift(c[0]), c[1]) for c in p.conds]
            loopset = None
            safe = None
            for e, v in conds:
                if e[0] == "discr" and e[1][0] == "next" and v == 1:
                    loopset = e[1][1]
                if e[0] == "call" and e[1] == names(f).king_safe_on:
                    safe = (e, v)
            if loopset is None:
                continue
            if not ctx.check(setalg.equivalent(loopset, step_set), "%s:step-set" % tag,
                             "king steps are not taken from king_moves(king) & !own: %s" % sym.show(loopset)[:200], loc(body)):
                continue
            elem = ("elem", loopset)
            # which locals changed relative to their havoc value
            changed = {}
            for root, val in p.store.items():
                if root[0] == "L" and root[1] == 0:
                    nm = body.local_name(root[2])
                    hv = ("hv", "add_king_legals", nm, None)
                    if isinstance(val, tuple) and val and val[0] in ("or", "xor", "and") and \
                            any(isinstance(x, tuple) and x and x[0] == "hv" and x[2] == nm for x in val[1:]):
                        changed[nm] = L.lift(val)
            if safe is None:
                ctx.fail("%s:step-unsafe" % tag, "a king step is accumulated without consulting king_safe_on", loc(body))
                continue
            okarg = safe[0][2][1] == ("elem", loopset) or L.lift(safe[0][2][1]) == elem
            if safe[1] == 1:
                good = len(changed) == 1
                if good:
                    nm, val = next(iter(changed.items()))
                    good = val[0] == "or" and ("bbof", elem) in val[1:] and any(x[0] == "hv" for x in val[1:])
                    acc_local = nm
                ctx.check(good and okarg, "%s:step-accumulate" % tag,
                          "a safe king step is not added as `moves |= bb(to)`: %s" % {k: sym.show(v)[:100] for k, v in changed.items()},
                          loc(body), sample={"site": tag, "loop": sym.show(loopset)[:120], "adds": "bb(to) if king_safe_on(to)"})
                loop_ok += 1
            else:
                ctx.check(not changed and okarg, "%s:unsafe-step-dropped" % tag,
                          "an unsafe king step still changes the move set", loc(body))
                loop_ok += 1
        ctx.floor("%s step-loop paths" % tag, loop_ok, 2)
        # (b) listener site(s)
        nsite = 0
        for p in paths:
            for e in p.events:
                if not is_listener_call(e):
                    continue
                nsite += 1
                pm = e.args[1][1][0]
                fields = dict(pm[4])
                to = L.lift(fields["to"])
                frm = L.lift(fields["from"])
                conds = [(L.lift(c[0]), c[1]) for c in p.conds[:e.ncond]]
                ctx.check(frm == K and L.lift(fields["piece"]) == ("enum", PIECE, "King"), "%s:from" % tag,
                          "king batch does not start from the mover's king square", loc(body, e.line))
                # mask guard
                mg = [(ce, v) for ce, v in conds if ce[0] == "has" and ce[1] == MASK and ce[2] == K]
                ctx.check(mg and mg[0][1] == 1, "%s:mask" % tag, "king batch is not conditioned on mask.has(king)", loc(body, e.line))
                # destination = accumulated steps | castle squares decided on this path
                parts = flatten_or(to)
                hv = [x for x in parts if x[0] == "hv"]
                rest = [x for x in parts if x[0] != "hv"]
                ok = len(hv) == 1 and (acc_local is None or hv[0][2] == acc_local)
                want = []
                rights = ("get", "castle_rights", SELF, STM)
                for wing, kdst, rdst in (("short", "G", "F"), ("long", "C", "D")):
                    rf = ("field", rights, wing)
                    some = None
                    can = None
                    for ce, v in conds:
                        if ce == ("discr", rf):
                            some = (v == 1)
                        if ce[0] == "call" and ce[1] == names(f).can_castle:
                            a = ce[2]
                            # the rook named by its file or by its square on the mover's back rank
                            if a[1] in (("field", ("downcast", rf, "Some"), "0"), ("sq", ("field", ("downcast", rf, "Some"), "0"), ("relrank", 0, STM))):
                                can = (v == 1, a[2], a[3])
                    if in_check:
                        if some is not None or can is not None:
                            ctx.fail("%s:castle-in-check" % tag, "castling is considered while in check", loc(body, e.line))
                        continue
                    if some is None:
                        ctx.fail("%s:%s:undecided" % (tag, wing), "a king batch is delivered on a path that never looked at the %s castling right" % wing, loc(body, e.line))
                        continue
                    if some and can is None:
                        ctx.fail("%s:%s:no-can_castle" % (tag, wing), "%s castling right present but can_castle not consulted" % wing, loc(body, e.line))
                        continue
                    if some:
                        ctx.check(can[1] == ("enum", FILE, kdst) and can[2] == ("enum", FILE, rdst), "%s:%s:dest-files" % (tag, wing),
                                  "%s castling checks destinations (%s, %s) instead of (%s, %s)" % (wing, sym.show(can[1]), sym.show(can[2]), kdst, rdst),
                                  loc(body, e.line), sample={"site": tag, "wing": wing, "can_castle": "(rook, %s, %s)" % (kdst, rdst)})
                        if can[0]:
                            want.append(("bbof", ("sq", ("field", ("downcast", rf, "Some"), "0"), ("relrank", 0, STM))))
                ctx.check(ok and sorted(rest, key=repr) == sorted(want, key=repr), "%s:to" % tag,
                          "king batch destinations are not `safe steps ∪ rook squares of the permitted castlings`: extra/missing %s vs %s"
                          % ([sym.show(x)[:120] for x in rest], [sym.show(x)[:120] for x in want]), loc(body, e.line))
                ne = [(ce, v) for ce, v in conds if ce[0] == "isempty" and setalg.canon(ce[1]) == setalg.canon(to)]
                ctx.check(ne and ne[-1][1] == 0, "%s:nonempty" % tag, "king batch delivered without a non-emptiness test", loc(body, e.line))
        ctx.floor("%s listener paths" % tag, nsite, 1 if in_check else 4)


def flatten_or(e):
    if e[0] == "or":
        return flatten_or(e[1]) + flatten_or(e[2])
    return [e]


# ------------------------------------------------------------------------------ dispatch / roster / abort

def check_dispatch(ctx, f, L):
    body = f.need(B + "::generate_moves_for")
    paths = sym.SymExec(f, body, noinline=None).run() if False else \
        sym.SymExec(f, body, inline=lambda n: False if n in (names(f).roster, gen_key(f, "King")) else None,
                    rename={body.local_name(1): "self", names(f).mask_param(body.key): "mask"}).run()
    ctx.saw("%s: %d paths" % (body.key, len(paths)))
    arms = {}
    for p in paths:
        conds = [(L.lift(c[0]), c[1]) for c in p.conds]
        sel = [v for e, v in conds if e == ("len", CHECKERS)]
        if len(sel) != 1:
            ctx.fail("dispatch:selector", "generate_moves_for does not branch on the number of checkers exactly once per path", loc(body))
            continue
        k = sel[0] if isinstance(sel[0], int) else "other"
        if isinstance(sel[0], tuple) and set(sel[0][1]) != {0, 1}:
            ctx.fail("dispatch:selector-values", "unexpected checker-count cases %s" % (sel[0],), loc(body))
        r = p.ret
        if r is None or r[0] != "call":
            ctx.fail("dispatch:ret", "generate_moves_for does not return a generator's flag", loc(body))
            continue
        ok_args = r[2][0][0] == "ptr" and r[2][0][1] == ("P", "self") and r[2][1] == ("param", "mask")
        role = "roster" if r[1] == names(f).roster else ("king-generator" if r[1] == gen_key(f, "King") else r[1].rsplit("::", 1)[-1])
        flags_ = r[3] if len(r) > 3 else ()
        if not flags_:
            # the check mode handed on as a runtime flag: the one constant bool among the arguments
            flags_ = tuple("true" if a_ == TRUE else "false" for a_ in r[2] if a_ in (TRUE, FALSE))
        arms[k] = (role, flags_, ok_args)
    want = {0: ("roster", "false"), 1: ("roster", "true"), "other": ("king-generator", "true")}
    for k, (fn, flag) in want.items():
        got = arms.get(k)
        ok = got is not None and got[0] == fn and flag in got[1] and got[2]
        ctx.check(ok, "dispatch:%s-checkers" % k,
                  "with %s checker(s) generation must go to %s::<IN_CHECK=%s>(self, mask, listener); got %s" % (k, fn, flag, got),
                  loc(body), sample={"checkers": k, "dispatch": "%s::<%s>" % (fn, flag)})
    # generate_moves = generate_moves_for(FULL)
    b2 = f.need(B + "::generate_moves")
    ps = sym.SymExec(f, b2, inline=lambda n: False).run()
    ok = len(ps) == 1 and ps[0].ret is not None and ps[0].ret[0] == "call" and ps[0].ret[1] == B + "::generate_moves_for" \
        and ps[0].ret[2][1] == ("bbconst", setalg.FULL)
    ctx.check(ok, "generate_moves:full-mask", "generate_moves is not generate_moves_for(FULL, listener)", loc(b2))


def check_roster(ctx, f, L):
    """add_all_legals calls one generator per piece kind with (self, mask, listener, IN_CHECK) and aborts as soon as one reports true"""
    N = names(f)
    body = f.need(N.roster)
    gen_of = {v: k for k, v in N.generators.items()}
    st_of = {v: k for k, v in slider_types(f).items()}
    for in_check in (False, True):
        cg = {"IN_CHECK": TRUE if in_check else FALSE}
        paths = sym.SymExec(f, body, cgen=cg, inline=lambda n: False, rename=gen_rename(f, body.key)).run()

        def gen_calls(p_):
            return [e for e in p_.events if e.kind == "call" and e.depth == 0 and e.name in gen_of]
        # the path on which no generator aborted: it answers false, or hands back the verdict of the last generator
        full = [p for p in paths if p.ret == FALSE or (gen_calls(p) and p.ret == gen_calls(p)[-1].ret and
                                                       all(any(c[0] == e.ret and c[1] == 0 for c in p.conds) for e in gen_calls(p)[:-1]))]
        if not ctx.check(len(full) == 1, "roster:complete-path", "add_all_legals does not have exactly one path on which nothing aborted", loc(body)):
            continue
        p = full[0]
        seen = []
        for e in p.events:
            if e.kind != "call" or e.depth != 0:
                continue
            kind = gen_of.get(e.name)
            if kind == "Slider":
                kind = next((st_of[x] for x in e.targs if x in st_of), "?")
            if kind is None:
                continue
            flag = "true" if in_check else "false"
            # the caller's board, mask and listener exactly once each; anything else handed in is a value the roster
            # computed, which the generator analysis substitutes for that parameter
            cls = [N._classify(a) for a in e.args]
            wants_flag = "IN_CHECK" in f.bodies[e.name].j["generics"]
            rt_flag = [a for a in e.args if a in (TRUE, FALSE)]          # the mode as a runtime flag (bound for this analysis)
            if not wants_flag and rt_flag:
                wants_flag = True
                okflag = rt_flag == [TRUE if in_check else FALSE]
                cls = [c for c, a in zip(cls, e.args) if a not in (TRUE, FALSE)]
            else:
                okflag = flag in e.targs
            ok = (okflag or not wants_flag) and sorted(c for c in cls if c != "bound") == ["listener", "mask", "self"]
            ctx.check(ok, "roster:%s:args" % kind, "generator for %s is not called with (self, mask, listener) and the caller's IN_CHECK: %s %s"
                      % (kind, e.targs, [sym.show(a)[:40] for a in e.args]), loc(body, e.line))
            seen.append(kind)
        ctx.check(sorted(seen) == sorted(["Pawn", "Knight", "Bishop", "Rook", "Queen", "King"]), "roster:kinds:%s" % in_check,
                  "add_all_legals must call exactly one generator per piece kind; calls: %s" % seen, loc(body),
                  sample={"in_check": in_check, "roster": seen})
        # abort chain: every other returning path returns true right after a generator returned true
        for q in paths:
            if q is p:
                continue
            last = q.conds[-1] if q.conds else None
            ok = q.ret == TRUE and last is not None and last[0][0] == "call" and last[1] == 1
            ctx.check(ok, "roster:abort-chain", "add_all_legals has a path that does not end with `a generator returned true -> return true`", loc(body))
    # slider PIECE constants are three distinct slider kinds
    kinds = {}
    for p_, ty in slider_types(f).items():
        c = next((c_ for k_, c_ in f.consts.items() if k_.startswith("<%s as " % ty) and k_.endswith("::PIECE")), None)
        kinds[p_] = None if c is None else c.get("v")
    ctx.check(kinds == {"Bishop": 2, "Rook": 3, "Queen": 4}, "roster:slider-piece-consts",
              "slider generator instances are not labelled Bishop/Rook/Queen: %s" % kinds)
    for p_, ty in slider_types(f).items():
        b = next((b_ for k_, b_ in f.bodies.items() if k_.startswith("<%s as " % ty) and b_.argc == 2 and b_.locals[0]["ty"].endswith("BitBoard") and b_.promoted is None), None)
        if b is None:
            ctx.fail("roster:pseudo:%s" % p_, "no pseudo_legals for %s" % p_)
            continue
        ps = sym.SymExec(f, b).run()
        r = L.lift(ps[0].ret) if len(ps) == 1 and ps[0].ret else None
        sq, bl = ("param", b.local_name(1)), ("param", b.local_name(2))
        want = {"Bishop": ("bishopmoves", sq, bl), "Rook": ("rookmoves", sq, bl),
                "Queen": OR(("bishopmoves", sq, bl), ("rookmoves", sq, bl))}[p_]
        ctx.check(r is not None and setalg.equivalent(r, want), "roster:pseudo:%s" % p_,
                  "%s pseudo-legal moves are not %s: %s" % (p_, sym.show(want), sym.show(r)[:200] if r else None), loc(b))


def check_abort_contract(ctx, f, L):
    """every listener result is tested; true -> return true with no further listener call;
    all other exits return false"""
    nsite = 0
    for in_check in (False, True):
        cg = {"IN_CHECK": TRUE if in_check else FALSE}
        for piece in ("Pawn", "Knight", "Bishop", "Rook", "Queen", "King"):
            if piece in ("Pawn", "Knight", "King"):
                body = f.need(gen_key(f, piece))
                paths = sym.SymExec(f, body, cgen=cg, **gen_kw(f, body.key, cg)).run()
            else:
                body = f.need(slider_key(f))
                paths = sym.SymExec(f, body, cgen=cg, tgen={tparam(f): slider_types(f)[piece]}, **gen_kw(f, body.key, cg)).run()
            tag = "%s/%s" % (piece, "check" if in_check else "nocheck")
            for p in paths:
                ls = [e for e in p.events if is_listener_call(e)]
                nsite += len(ls)
                if p.end == "return":
                    if p.ret == TRUE:
                        ok = len(ls) >= 1 and p.conds and p.conds[-1][0] == ls[-1].ret and p.conds[-1][1] == 1
                        ctx.check(ok, "%s:true-only-after-abort" % tag,
                                  "generator returns true on a path whose last decision is not `listener returned true`", loc(body))
                    elif p.ret == FALSE:
                        # no listener call on this path may have returned true, and each result was tested
                        for e in ls:
                            tested = [c for c in p.conds if c[0] == e.ret]
                            ctx.check(tested and tested[0][1] == 0, "%s:false-exit" % tag,
                                      "generator returns false although a listener call's result was not tested to be false", loc(body, e.line))
                        if not ls:
                            ctx.ok("%s:false-exit-no-call" % tag)
                    elif ls and p.ret == ls[-1].ret:
                        # the last listener call's verdict handed back as it is: true exactly when it asked to abort
                        ctx.ok("%s:verdict-passed-through" % tag)
                    else:
                        ctx.fail("%s:ret" % tag, "generator returns a flag that is neither constant nor the last listener verdict: %s" % sym.show(p.ret)[:80], loc(body))
                elif p.end == "loopback":
                    for e in ls:
                        tested = [c for c in p.conds if c[0] == e.ret]
                        ctx.check(tested and tested[0][1] == 0, "%s:continue-only-if-false" % tag,
                                  "iteration continues after a listener call whose result was not tested to be false "
                                  "(the abort request is dropped)", loc(body, e.line))
                elif p.end in ("diverge", "panic", "unreachable"):
                    pass
                else:
                    ctx.fail("%s:path-end" % tag, "unexpected path end %s" % p.end, loc(body))
                # at most one listener call per path segment, and none after one returned true
                for i, e in enumerate(ls[:-1]):
                    tested = [c for c in p.conds if c[0] == e.ret]
                    ctx.check(tested and tested[0][1] == 0, "%s:no-call-after-true" % tag,
                              "listener is called again after an earlier call on the same path was not tested false", loc(body, e.line))
    return nsite
