"""C20 SAN and UCI helpers (structural necessary conditions).

Decided:
 * UCI pair -- decision tables of parse_uci_move and display_uci_move over their atoms (king on
   from, from on the e-file of the back rank, to == g/c square, right present / to == right's rook
   square): the reader rewrites to the rook square of the *short* right exactly for the g-file
   target and of the *long* right for the c-file target, only for a king move from e on the mover's
   back rank; the writer rewrites the short right's rook square to g and the long one's to c, only
   for king moves; both use the same rights fields and the same back rank (inverse tables);
   a parse error of the move text is passed through;
 * SAN reader -- the returned move can only be one yielded by iterating a batch of
   generate_moves_for on the same board (provenance of the result slot), restricted to the
   destination, with the promotion compared; a second match clears the result and aborts; the
   origin mask is own pieces of the written kind intersected with the written file / rank masks;
   castling text maps to the rook square of the right named by the number of O's on the king's
   rank; end of input is required before generation; the reader calls only total core functions
   and its asserts/panicking calls are discharged;
 * SAN writer -- check / mate suffix from the successor's checker set and generate_moves(|_| true);
   castle detection compares `to` with the rights' rook squares on the mover's back rank
   (file of the right, relative first rank); disambiguation scans generate_moves_for restricted to
   own pieces of the same kind and records file / rank clashes of other origins that reach `to`;
   the text is assembled as piece letter, origin file, origin rank, 'x', destination,
   '=' promotion, then '#' or '+'; castling as O-O / O-O-O.
Not decided: canonical PGN form, minimal disambiguation and reader/writer inverse as behaviour
(whole-position facts); the capture mark and check suffix in the text are ignored by the reader."""
import os
from .. import sym, lift, panics, setalg
from . import movegen
from .movegen import PIECE, FILE
from .common import B, loc, run_closure_in_context
from .c19 import parser_callees
from .c07 import tmpl

U = "cozy_chess::util::"
BOARD = ("obj", "board")
STM = ("get", "side_to_move", BOARD)
BACK = ("relrank", 0, STM)
RIGHTS = ("get", "castle_rights", BOARD, STM)
KING = ("king", BOARD, STM)


def sqf(letter):
    return ("sq", ("enum", FILE, letter), BACK)


def right_sq(w):
    return ("sq", ("field", ("downcast", ("field", RIGHTS, w), "Some"), "0"), BACK)


def truth(conds, atom_fn):
    """value of the first decision matching atom_fn(expr) -> key"""
    out = {}
    for e, v in conds:
        k = atom_fn(e)
        if k is not None and isinstance(v, int):
            pol = bool(v)
            if isinstance(k, tuple) and k[0] == "neg":
                k, pol = k[1], not pol
            out.setdefault(k, pol)
        elif k is not None:
            if isinstance(k, tuple) and k[0] == "opt":
                out.setdefault(k[1], False if 1 in v[1] else True)
    return out


def check_uci(ctx, f, L):
    ctx.rule("uci-pair")
    # ---- reader
    b = f.need(U + "parse_uci_move")
    ps = sym.SymExec(f, b).run()
    where = loc(b)
    parsed = ("call", "str::parse", (("ptr", ("P", "mv"), (), False),))
    m = ("field", ("downcast", parsed, "Ok"), "0")
    mfrom, mto = ("field", m, "from"), ("field", m, "to")
    n = 0
    seen = set()
    for p in ps:
        conds = [(L.lift(c[0]), c[1]) for c in p.conds]
        r = L.lift(p.ret)
        if r[0] == "agg" and r[2] == "Err":
            ok = any(e == ("discr", parsed) and v == 1 for e, v in conds)
            ctx.check(ok, "uci-read:error-passthrough", "parse_uci_move reports an error on a path where the move text parsed", where)
            seen.add("err")
            continue

        def atom(e):
            if e[0] == "bin" and e[1] == "Ne":
                k_ = atom(("bin", "Eq", e[2], e[3]))
                return ("neg", k_) if isinstance(k_, str) else None
            if e[0] == "bin" and e[1] == "Eq":
                s = {e[2], e[3]}
                if s == {KING, mfrom}:
                    return "king_from"
                if s == {sqf("E"), mfrom}:
                    return "from_e"
                if sqf("G") in s and (mto in s):
                    return "to_g"
                if sqf("C") in s and (mto in s):
                    return "to_c"
                if sqf("C") in s and right_sq("short") in s:
                    return "short_is_c"
            if e == ("discr", ("field", RIGHTS, "short")):
                return ("opt", "short")
            if e == ("discr", ("field", RIGHTS, "long")):
                return ("opt", "long")
            return None
        t = {}
        for e, v in conds:
            k = atom(e)
            if k is None:
                continue
            if isinstance(k, tuple) and k[0] == "neg":
                if isinstance(v, int):
                    t.setdefault(k[1], not bool(v))
            elif isinstance(k, tuple):
                t.setdefault(k[1], (v == 1) if isinstance(v, int) else (False if 1 in v[1] else True))
            elif isinstance(v, int):
                t.setdefault(k, bool(v))
        newto = None
        val = dict(r[4])["0"] if r[0] == "agg" and r[2] == "Ok" else None
        if val is None:
            ctx.fail("uci-read:ret", "parse_uci_move returns something unexpected: %s" % sym.show(r)[:80], where)
            continue
        if val == m:
            newto = "unchanged"
        elif val[0] == "with" and val[1] == m and val[2] == ("f", "to"):
            newto = "short" if val[3] == right_sq("short") else ("long" if val[3] == right_sq("long") else "other")
        n += 1
        gate = t.get("king_from") and t.get("from_e")
        if newto == "short":
            ok = gate and t.get("to_g") and t.get("short") and not (t.get("short_is_c") and t.get("long"))
            ctx.check(bool(ok), "uci-read:short", "the reader rewrites to the short right's rook square without (king from e on the back rank, to == g-square, short right present): %s" % t, where,
                      sample={"uci reader": "e->g  =>  short right's rook square"} if "s" not in seen else None)
            seen.add("s")
        elif newto == "long":
            ok = gate and t.get("long") and (t.get("to_c") or (t.get("to_g") and t.get("short") and t.get("short_is_c")))
            ctx.check(bool(ok), "uci-read:long", "the reader rewrites to the long right's rook square without (king from e on the back rank, to == c-square, long right present): %s" % t, where,
                      sample={"uci reader": "e->c  =>  long right's rook square"} if "l" not in seen else None)
            seen.add("l")
        elif newto == "unchanged":
            could_short = gate and t.get("to_g") and t.get("short")
            could_long = gate and t.get("to_c") and t.get("long")
            ctx.check(not could_short and not could_long, "uci-read:unchanged", "the reader leaves a standard castling move unrewritten although all conditions hold: %s" % t, where)
            seen.add("u")
        else:
            ctx.fail("uci-read:other-target", "the reader rewrites the destination to something that is not a right's rook square on the back rank: %s" % sym.show(val)[:120], where)
    ctx.check({"err", "s", "l", "u"} <= seen, "uci-read:cases", "parse_uci_move lacks a case: %s" % sorted(seen), where)
    # ---- writer
    b = f.need(U + "display_uci_move")
    ps = sym.SymExec(f, b).run()
    where = loc(b)
    MV = ("param", "mv")
    mfrom, mto = ("field", MV, "from"), ("field", MV, "to")
    seen = set()
    for p in ps:
        conds = [(L.lift(c[0]), c[1]) for c in p.conds]
        r = L.lift(p.ret)
        kf = [(v if e[1] == "Eq" else 1 - v) for e, v in conds if e[0] == "bin" and e[1] in ("Eq", "Ne") and {e[2], e[3]} == {KING, mfrom} and isinstance(v, int)]
        eqs = []
        for e, v in conds:
            # comparisons of the (current) destination with a right's rook square (right's file, mover's back rank)
            if e[0] == "bin" and e[1] == "Eq":
                for wing in ("short", "long"):
                    if right_sq(wing) in (e[2], e[3]):
                        other = e[3] if e[2] == right_sq(wing) else e[2]
                        if other in (mto, sqf("G"), sqf("C")):
                            eqs.append((wing, bool(v)))
                        else:
                            ctx.fail("uci-write:rook-squares", "the writer compares a right's rook square with something other than the destination: %s" % sym.show(other)[:80], where)
            elif e[0] == "bin" and e[1] in ("Eq", "Ne") and any(x_[0] == "field" and x_[1] == RIGHTS and x_[2] in ("short", "long") for x_ in (e[2], e[3])) and \
                    any(x_[0] == "agg" and x_[2] == "Some" for x_ in (e[2], e[3])):
                pass        # `rights.W == Some(file)`: read together with the rank comparison below
            elif sym.contains(e, lambda y: y[0] == "field" and y[2] in ("short", "long") and y[1] == RIGHTS) and not (e[0] == "discr" and e[1][0] == "field" and e[1][1] == RIGHTS):
                ctx.fail("uci-write:rook-squares", "the writer's castle squares are not (right's file, mover's back rank): %s" % sym.show(e)[:120], where)
        # `Move { to: X, ..mv }` is mv with its destination replaced
        if r[0] == "agg" and r[1].endswith("chess_move::Move") and dict(r[4]).get("from") == mfrom and dict(r[4]).get("promotion") == ("field", MV, "promotion"):
            r = MV if dict(r[4]).get("to") == mto else ("with", MV, ("f", "to"), dict(r[4]).get("to"))
        target = None
        if r == MV:
            target = "unchanged"
        elif r[0] == "with" and r[1] == MV and r[2] == ("f", "to"):
            target = "G" if r[3] == sqf("G") else ("C" if r[3] == sqf("C") else "other")
        d = dict(eqs)
        # the same comparison made through the components: the right's file equals the destination's file and the
        # destination stands on the mover's back rank
        from .common import option_is_some_of3
        rank_at = None
        for e, v in conds:
            if e[0] == "bin" and e[1] in ("Eq", "Ne") and {e[2], e[3]} == {BACK, ("rank", mto)} and isinstance(v, int):
                rank_at = (e[1] == "Eq") == bool(v)
        for wing in ("short", "long"):
            if wing in d:
                continue
            for X in (mto, sqf("G"), sqf("C")):
                sf = option_is_some_of3(conds, ("field", RIGHTS, wing), ("file", mto) if X == mto else X[1])
                ra = rank_at if X == mto else True
                if sf is False or ra is False:
                    val_ = False
                elif sf is True and ra is True:
                    val_ = True
                else:
                    continue
                d[wing] = val_
                eqs.append((wing, val_))
                break
        if target == "G":
            ctx.check(kf == [1] and d.get("short") is True and d.get("long") is not True, "uci-write:short->g",
                      "the writer emits the g-square without (king move, to == short right's rook square): %s" % eqs, where, sample={"uci writer": "short rook square => g"})
            seen.add("G")
        elif target == "C":
            ctx.check(kf == [1] and d.get("long") is True, "uci-write:long->c", "the writer emits the c-square without (king move, to == long right's rook square): %s" % eqs, where,
                      sample={"uci writer": "long rook square => c"})
            seen.add("C")
        elif target == "unchanged":
            ctx.check(not (kf == [1] and (d.get("short") or d.get("long"))), "uci-write:unchanged", "the writer leaves a castling move in king-takes-rook form: %s" % eqs, where)
            # ... and only a move shown not to be a castle is left as it is: not a king move, or for both wings the right
            # is absent or its rook square is not the destination (an extra test -- "only on the standard set-up" -- that
            # lets a castle through unrewritten when it fails is a path on which neither is established)
            absent = {w_: any(e_ == ("discr", ("field", RIGHTS, w_)) and (v_ == 0 or (not isinstance(v_, int) and 1 in v_[1])) for e_, v_ in conds) or
                      any(e_[0] == "bin" and e_[1] in ("Eq", "Ne") and ("discr", ("field", RIGHTS, w_)) in (e_[2], e_[3]) and isinstance(v_, int) and
                          ((e_[3] if e_[2] == ("discr", ("field", RIGHTS, w_)) else e_[2]) == ("int", 1, "isize")) and ((e_[1] == "Eq") != bool(v_)) for e_, v_ in conds)
                      for w_ in ("short", "long")}
            refuted = all(d.get(w_) is False or absent[w_] for w_ in ("short", "long"))
            ctx.check(kf == [0] or refuted, "uci-write:unchanged-only-if-not-castle",
                      "the writer returns the move as it is on a path that does not establish that it is no castle (king move: %s, rook-square comparisons: %s, rights absent: %s)"
                      % (kf, eqs, absent), where)
            seen.add("u")
        else:
            ctx.fail("uci-write:other", "the writer rewrites the destination to an unexpected square: %s" % sym.show(r)[:100], where)
    ctx.check({"G", "C", "u"} <= seen, "uci-write:cases", "display_uci_move lacks a case: %s" % sorted(seen), where)


def check_san_reader(ctx, f, L):
    ctx.rule("san-reader")
    name = U + "parse_san_move"
    b = f.need(name)
    where = loc(b)
    noin = lambda n_: False if ("generate_moves" in n_) else None
    ps = sym.SymExec(f, b, inline=noin, max_paths=200000).run()
    ctx.saw("%s: %d paths" % (b.key, len(ps)))
    gm = B + "::generate_moves_for"
    n_ok = 0
    kinds = set()
    for p in ps:
        r = p.ret
        gens = [e for e in p.events if e.kind == "call" and e.depth == 0 and e.name == gm]
        if p.end != "return":
            ctx.fail("san-read:path-end", "parse_san_move has a path ending in %s" % p.end, where)
            continue
        if r[0] == "agg" and r[2] == "Err":
            continue
        n_ok += 1
        # the only source of a successful result: ok_or(result slot after generation)
        slot = None
        if r[0] == "call" and r[1].endswith("::ok_or"):
            slot = r[2][0]
        elif r[0] == "agg" and r[2] == "Ok":
            # the same written out: `match slot { Some(m) => Ok(m), None => Err(..) }`
            pay = dict(r[4]).get("0")
            if pay is not None and pay[0] == "field" and pay[2] == "0" and pay[1][0] == "downcast" and pay[1][2] == "Some":
                slot = pay[1][1]
        ok = slot is not None and len(gens) == 1
        if not ctx.check(ok, "san-read:result-after-generation", "a non-error result is not `slot.ok_or(..)` read after exactly one move generation on the board: %s" % sym.show(r)[:120], where):
            continue
        g = gens[0]
        ctx.check(slot[0] == "field" and slot[1][0] == "post" and slot[1][2] == g.idx or (slot[0] == "post" and slot[2] == g.idx), "san-read:slot-written-by-listener",
                  "the returned move is not the slot the generation listener writes", where, sample={"result": "mv.ok_or(..) after generate_moves_for"} if n_ok == 1 else None)
        ctx.check(g.args[0] == ("ptr", ("P", "board"), (), False), "san-read:same-board", "moves are generated on a different board", where)
        # end of input tested before generation
        # an end-of-text test before generation: the character source yields nothing more / the remaining text is empty
        def eoi_test(e):
            return (e[0] == "bin" and sym.contains(e, lambda y: y[0] == "call" and (y[1].endswith("Iterator>::next") or y[1].endswith("::peek")))) or \
                sym.contains(e, lambda y: y[0] == "call" and y[1] in ("str::is_empty", "str::len", "core::str::<impl str>::is_empty", "core::str::<impl str>::len"))
        eoi = [c for c in p.conds[:g.ncond] if eoi_test(c[0])]
        ctx.check(any(c[1] in (0, 1) for c in eoi), "san-read:end-of-input", "moves are generated without first requiring the end of the text", where)
        # every component decoded from the text (piece letter, origin file / rank, destination, promotion piece) takes
        # part in the search: its value reaches the origin mask or what the listener captured (destination, promotion).
        # A component that is read, found well-formed and then dropped makes the reader answer for a different text.
        from .c08 import discr_poss
        decoded = set()
        for c in p.conds[:g.ncond]:
            for t_ in sym.subterms(c[0], lambda y: y[0] == "call" and (y[1].endswith("TryInto<U>>::try_into") or (y[1].endswith("::try_from") and "cozy_chess_types" in y[1]))):
                decoded.add(t_)
        sinks = [g.args[1]]
        if len(g.args) > 2 and g.args[2][0] == "closure":
            for cap in g.args[2][2]:
                if cap[0] == "ptr" and not cap[3]:
                    v_ = p.store.get(cap[1])
                    if v_ is not None:
                        sinks.append(v_ if not cap[2] else sym.Ops(f).project(v_, cap[2]))
                elif cap[0] != "ptr":
                    sinks.append(cap)
        for t_ in decoded:
            if discr_poss(p.conds[:g.ncond], t_) != {0}:
                continue                 # not established well-formed on this path
            pay = ("field", ("downcast", t_, "Ok"), "0")
            flows = any(sym.contains(s_, lambda y: y == pay) for s_ in sinks)
            ctx.check(flows, "san-read:component-used", "a component decoded from the text is found well-formed and then takes no part in selecting the move "
                      "(neither the origin mask nor the destination / promotion the listener compares): %s" % sym.show(t_)[:160], where,
                      sample={"component": sym.show(t_)[:100]} if n_ok == 1 else None)
        # origin mask: own pieces of the piece kind (& rank mask & file mask)
        mask = L.lift(g.args[1])
        atoms = []
        setalg.collect_atoms(mask, atoms)
        own = [a for a in atoms if a[0] == "get" and a[1] == "colors" and a[3] == STM]
        pcs = [a for a in atoms if a[0] == "get" and a[1] == "pieces"]
        ok = len(own) == 1 and len(pcs) == 1 and setalg.subset(mask, ("and", own[0], pcs[0]))
        ctx.check(ok, "san-read:origin-mask", "the origin mask is not contained in own pieces of the written kind: %s" % sym.show(mask)[:200], where)
        rk = any(a[0] == "rankbb" for a in atoms)
        fl = any(a[0] == "filebb" for a in atoms)
        # components written in the text must constrain the mask: decided src_rank / src_file Some => mask conjunct
        for comp, present in (("rank", rk), ("file", fl)):
            dec = None
            for c in p.conds[:g.ncond]:
                e = c[0]
                if e[0] == "bin" and e[1] == "Eq" and e[2][0] == "discr" and sym.contains(e, lambda y: y[0] == "call" and y[1].endswith("::and_then")) and isinstance(c[1], int):
                    pass
            kinds.add((comp, present))
        if pcs and pcs[0][3][0] == "enum":
            kinds.add(("piece", pcs[0][3][2]))
    ctx.floor("accepting paths of parse_san_move", n_ok, 4)
    ctx.check(("rank", True) in kinds and ("file", True) in kinds and ("rank", False) in kinds, "san-read:disambiguators-constrain",
              "written origin file / rank do not appear as conjuncts of the origin mask on any path: %s" % sorted(map(str, kinds)), where, sample={"masks": sorted(map(str, kinds))})
    ctx.check(("piece", "King") in kinds, "san-read:castle-kind", "the castling path (king) is missing: %s" % sorted(map(str, kinds)), where)
    # the listener closure: filters destination, compares promotion, uniqueness
    lst = None
    for k in f.bodies:
        if k.startswith(name + "::{closure") and f.bodies[k].kind == "Closure" and f.bodies[k].argc == 2 and "PieceMoves" in f.bodies[k].locals[2]["ty"]:
            lst = f.bodies[k]
    if not ctx.check(lst is not None, "san-read:listener", "no listener closure found in parse_san_move", where):
        return
    # run the listener with its captured variables bound as at the generation call (the destination mask may be
    # computed outside the closure)
    cps = None
    for p_ in ps:
        for e_ in p_.events:
            if e_.kind == "call" and e_.depth == 0 and e_.name == gm and len(e_.args) > 2 and e_.args[2][0] == "closure" and e_.args[2][1] == lst.key and p_.end == "return":
                _, cps = run_closure_in_context(f, e_.args[2], p_.store)
                break
        if cps:
            break
    if not cps:
        cps = sym.SymExec(f, lst).run()
    lw = loc(lst)
    dst_filter = promo_cmp = uniq = False
    wrote_some = 0
    for p in cps:
        for c in p.conds:
            e = L.lift(c[0])
            if e[0] == "discr" and e[1][0] == "next":
                S = e[1][1]
                if sym.contains(S, lambda y: y[0] == "and") and sym.contains(S, lambda y: y[0] == "bbof"):
                    dst_filter = True
            if e[0] == "bin" and e[1] in ("Eq", "Ne") and sym.contains(e, lambda y: y[0] == "field" and y[2] == "promotion"):
                promo_cmp = True
        # a path that returns true (abort) must have cleared the slot after finding it already Some
        if p.end == "return" and p.ret == sym.TRUE:
            some_before = any(c[0][0] == "bin" and c[0][2][0] == "discr" and c[1] == 1 for c in p.conds) or any(c[0][0] == "discr" and c[1] == 1 for c in p.conds)
            cleared = False
            for root, v in p.store.items():
                if isinstance(v, tuple) and sym.contains(v, lambda y: y[0] == "agg" and y[2] == "None"):
                    cleared = True
            uniq = uniq or (some_before and cleared)
        for root, v in p.store.items():
            if isinstance(v, tuple) and sym.contains(v, lambda y: y[0] == "agg" and y[2] == "Some" and y[4] and y[4][0][1][0] in ("agg", "elem", "nth", "field")):
                wrote_some += 1
    ctx.check(dst_filter, "san-read:destination-filter", "the listener does not restrict the batch to the written destination square before iterating", lw, sample={"listener": "mvs.to &= bb(dst)"})
    ctx.check(promo_cmp, "san-read:promotion-compared", "the listener does not compare the move's promotion with the written one", lw)
    ctx.check(uniq, "san-read:ambiguity-clears", "a second matching move does not clear the result and abort", lw, sample={"ambiguity": "second match => result = None, abort"})
    ctx.rule("san-reader.totality")
    a = panics.Audit(f).run([name], stop=lambda k: "generate_moves" in k, skip=lambda k: not k.startswith(U))
    tab = {("Board::king", "expect", "bitboard::BitBoard::next_square"): "one king per colour (C06)"}
    # move generation itself is audited under C01/C04; where the engine looks into it from here, their named invariants apply
    from .c04 import role_table
    tab.update({k_: v_ for k_, v_ in role_table(f).items() if k_[1] == "unwrap"})
    panics.report(ctx, a, tab, "panic")
    n = parser_callees(ctx, f, [name], "san", only_files=("util/mod.rs",))
    ctx.floor("core callees of the SAN reader", n, 15)


def check_san_writer(ctx, f, L):
    ctx.rule("san-writer")
    name = U + "display_san_move"
    b = f.need(name)
    where = loc(b)
    # loop-free private helpers only this function uses (the disambiguation moved into a function of its own) are read
    # as part of it
    from .names import names as role_names
    try:
        own = role_names(f).exclusive_helpers(name, loops=True)
    except Exception:
        own = set()
    noin = lambda n_: False if ("generate_moves" in n_ or n_.endswith("::play") or n_.endswith("::try_play")) else (True if n_ in own else None)
    ps = sym.SymExec(f, b, inline=noin, max_paths=200000).run()
    ctx.saw("%s: %d paths" % (b.key, len(ps)))
    MV = ("param", "mv")
    here = lambda e_: e_.depth == 0 or e_.fn.split("::{closure")[0] in own
    back_ok = rook_sq_ok = 0
    n = 0
    for p in ps:
        if p.end != "return" or p.ret[0] != "agg":
            continue
        n += 1
        fields = dict(p.ret[4])
        plays = [e for e in p.events if e.kind == "call" and e.depth == 0 and e.name == B + "::play"]
        ok = len(plays) == 1 and plays[0].args[1] == MV and plays[0].args[0][0] == "ptr" and plays[0].args[0][1][0] == "L"
        ctx.check(ok, "san-write:successor", "the successor position is not obtained by playing mv on a clone of the board", where, sample={"after": "board.clone().play(mv)"} if n == 1 else None)
        chk = L.lift(fields["check"])
        okc = chk[0] in ("un", "bin") and sym.contains(chk, lambda y: y[0] == "isempty") and sym.contains(chk, lambda y: y[0] == "get" and y[1] == "checkers")
        ctx.check(okc, "san-write:check-from-successor", "the check flag is not `successor has checkers`: %s" % sym.show(chk)[:100], where)
        # checkers read from the successor (a post-play version), not from the original board
        ctx.check(not sym.contains(chk, lambda y: y == ("get", "checkers", BOARD)), "san-write:check-not-from-original", "the check flag reads the original board's checkers", where)
        mate = fields["checkmate"]
        if mate != sym.FALSE:
            gm = [e for e in p.events if e.kind == "call" and here(e) and e.name == B + "::generate_moves"]
            okm = len(gm) >= 1
            if okm:
                cl = gm[0].args[1]
                cb = f.bodies.get(cl[1]) if cl[0] == "closure" else None
                cps = sym.SymExec(f, cb).run() if cb else []
                okm = len(cps) == 1 and cps[0].ret == sym.TRUE
            ctx.check(okm, "san-write:mate-from-no-moves", "the mate flag is not derived from generate_moves(|_| true) on the successor", where)
    ctx.floor("display_san_move paths", n, 8)
    check_capture_mark(ctx, f, L, ps, where)
    check_disambiguation_table(ctx, f, L, ps, where, capture_field(f, L))
    ctx.rule("san-writer")
    # castle squares: every use of a right's file other than the presence test is the comparison
    # `mv.to == (right's file, mover's back rank)`; both wings must occur
    wings = set()
    okc = True
    for p in ps:
        for c in p.conds:
            e = L.lift(c[0])
            if not sym.contains(e, lambda y: y[0] == "field" and y[1] == RIGHTS):
                continue
            if e[0] == "discr" and e[1][0] == "field" and e[1][1] == RIGHTS:
                continue
            hit = None
            if e[0] == "bin" and e[1] in ("Eq", "Ne"):
                for wing in ("short", "long"):
                    if {e[2], e[3]} == {right_sq(wing), ("field", MV, "to")}:
                        hit = wing
            if hit:
                wings.add(hit)
            else:
                okc = False
                bad_e = e
    ctx.check(okc and wings == {"short", "long"}, "san-write:castle-squares-on-back-rank",
              "castling is detected against squares that are not (right's file, the mover's back rank), or not for both wings: %s" % sorted(wings), where,
              sample={"castle squares": "rights.W.map(|f| Square::new(f, First.relative_to(stm)))"})
    # disambiguation listener
    dl = set()
    for p in ps:
        for e in p.events:
            if e.kind == "call" and here(e) and e.name == B + "::generate_moves_for" and e.args[2][0] == "closure":
                dl.add(e.args[2][1])
    dl = sorted(dl)
    if ctx.check(len(dl) == 1, "san-write:disambiguation-listener", "no single disambiguation listener found", where):
        lb = f.bodies[dl[0]]
        cps = sym.SymExec(f, lb).run()
        amb = False
        never_aborts = all(p.ret == sym.FALSE for p in cps if p.end == "return")
        for p in cps:
            neq = [c for c in p.conds if c[0][0] == "bin" and c[0][1] in ("Ne", "Eq") and sym.contains(c[0], lambda y: y[0] == "field" and y[2] == "from")]
            has = [c for c in p.conds if c[0][0] == "has"]
            if neq and has and has[-1][1] == 1:
                amb = True
        ctx.check(amb and never_aborts, "san-write:disambiguation-scan", "the disambiguation scan does not look at other origins reaching `to` over the whole generation", loc(lb),
                  sample={"scan": "mvs.from != mv.from && mvs.to.has(mv.to)"})
    for p in ps:
        for e in p.events:
            if e.kind == "call" and here(e) and e.name == B + "::generate_moves_for":
                mask = L.lift(e.args[1])
                atoms = []
                setalg.collect_atoms(mask, atoms)
                ok = any(a[0] == "get" and a[1] == "colors" and a[3] == STM for a in atoms) and any(a[0] == "get" and a[1] == "pieces" for a in atoms)
                ctx.check(ok, "san-write:scan-same-kind", "the disambiguation scan is not restricted to own pieces of the moved kind", where)
    # text assembly order
    ctx.rule("san-writer.text")
    fb = f.need("<cozy_chess::util::SanDisplay as core::fmt::Display>::fmt")
    # parts of the writer moved into private functions that take the formatter are read as part of it (as in C07)
    from . import c07 as c07_
    from .common import reachable_bodies
    subw = {k_ for k_ in reachable_bodies(f, [fb.key], stop=lambda n_: not (n_.startswith("cozy_chess::") or n_.startswith("<cozy_chess::")))
            if k_ != fb.key and k_.startswith("cozy_chess::") and f.bodies[k_].kind in ("Fn", "AssocFn") and not f.fns.get(k_, {}).get("pub")
            and any("core::fmt::Formatter" in f.bodies[k_].locals[i_]["ty"] for i_ in range(1, f.bodies[k_].argc + 1))}
    saved_own = set(c07_.OWN_WRITERS)
    c07_.OWN_WRITERS.clear()
    c07_.OWN_WRITERS.update(subw)
    fps = sym.SymExec(f, fb, max_paths=200000, inline=(lambda n_: True if n_ in subw else None) if subw else None).run()
    orders = set()
    for p in fps:
        # successful paths: Ok(()) or the verdict of the last write handed back
        last_write = [e for e in p.events if e.kind == "call" and (e.depth == 0 or e.fn.split("::{closure")[0] in subw) and "core::fmt" in e.name and "::write_" in e.name]
        if p.end != "return" or not ((p.ret[0] == "agg" and p.ret[2] == "Ok") or (last_write and p.ret == last_write[-1].ret)):
            continue
        # everything written on this path, as one template string (write!, write_str and write_char alike)
        from .c07 import writes
        try:
            seq = "".join(t_ for t_, a_, e_ in writes(L, p))
        except ValueError:
            seq = "?"
        orders.add(seq)
    c07_.OWN_WRITERS.clear()
    c07_.OWN_WRITERS.update(saved_own)
    # destination: one placeholder (the square) or two (its file and rank)
    fulls = ("{}{}{}x{}={}#", "{}{}{}x{}{}={}#")
    tokens = lambda s: [x for x in s.replace("{}", "\0").replace("O-O-O", "\1").replace("O-O", "\2")]
    ok_full = any(o in fulls for o in orders) and any(o.startswith("O-O-O") for o in orders) and any(o.startswith("O-O") and not o.startswith("O-O-O") for o in orders)
    in_order = all(any(is_subsequence(tokens(o), tokens(fl_[:-1] + sfx)) for fl_ in fulls for sfx in ("#", "+")) or o.startswith("O-O") for o in orders)
    ctx.check(ok_full and in_order, "san-write:text-order", "SAN text is not assembled as piece, file, rank, x, destination, =promotion, #|+ (or O-O / O-O-O + suffix)", loc(fb),
              sample={"orders": len(orders), "longest": max(orders, key=len) if orders else None})


def capture_field(f, L):
    """the field of the SAN display value that decides whether 'x' is written: on every successful path of its Display
    the mark is written exactly when the path found that field true"""
    from .c07 import writes
    fb = f.need("<cozy_chess::util::SanDisplay as core::fmt::Display>::fmt")
    stats = {}
    for p in sym.SymExec(f, fb, max_paths=200000).run():
        if p.end != "return":
            continue
        try:
            seq = "".join(t_ for t_, a_, e_ in writes(L, p))
        except ValueError:
            continue
        for c in p.conds:
            e = c[0]
            if e[0] == "field" and e[1] == ("obj", "self") and isinstance(c[1], int):
                stats.setdefault(e[2], set()).add((bool(c[1]), "x" in seq))
    hits = [n for n, st in stats.items() if st == {(True, True), (False, False)}]
    return hits[0] if len(hits) == 1 else None


def check_disambiguation_table(ctx, f, L, ps, where, capf):
    """minimal disambiguation: which of origin file / origin rank are printed, as a function of what the scan over the
    other same-kind origins found.  The listener's captured flags are given their meaning from the listener's own paths
    (each flag moves to one constant exactly on the batches satisfying one of: another origin reaches `to` [A]; such an
    origin on the mover's file [Fc]; on the mover's rank [Rc]); the function's decisions on the flags after the scan, on
    `the piece is a pawn` [K] and on the capture flag [C] then give (file printed, rank printed) for every combination,
    which must be  file = A & (!Fc | Rc) | K & C,  rank = A & Fc  (the file if that settles it, else the rank, else both;
    a capturing pawn always names its file).  The rule applies to scans that keep Boolean flags; a scan that collects
    the rival origins some other way is not read (noted, no verdict)."""
    import itertools
    ctx.rule("san-writer.disambiguation-table")
    MV = ("param", "mv")
    TO, FROM = ("field", MV, "to"), ("field", MV, "from")
    MOVED = {("call", "core::option::Option<T>::unwrap", (("piece_on", BOARD, FROM),)),
             ("field", ("downcast", ("piece_on", BOARD, FROM), "Some"), "0"), ("param", "piece")}
    PAWN = ("enum", PIECE, "Pawn")
    kinds_ = [x_["name"] for x_ in f.adts[PIECE]["variants"]]
    gmn = B + "::generate_moves_for"
    recs = []
    for p in ps:
        if p.end != "return" or p.ret[0] != "agg":
            continue
        gms = [e for e in p.events if e.kind == "call" and e.name == gmn and len(e.args) > 2 and e.args[2][0] == "closure"]
        if len(gms) == 1:
            recs.append((p, gms[0]))
    if not recs:
        ctx.note("SAN writer: no result path runs a single disambiguation scan; the disambiguation table is not read")
        return
    # ---- 1. what each flag means, from the listener
    p0, g0 = recs[0]
    caps = g0.args[2][2]
    mut = [i for i, c_ in enumerate(caps) if c_[0] == "ptr" and c_[3]]
    cb, cps = run_closure_in_context(f, g0.args[2], p0.store)
    okm = cb is not None and cb.argc >= 2 and len(mut) == 3
    meaning = {}
    setflag = None
    if cb is not None and cb.argc >= 2 and len(mut) == 1:
        # the scan collects the rival origins in a set: exactly on the batches of another origin that reaches the
        # destination the batch's origin is added, nothing else touches the set
        batch = ("param", cb.local_name(2))
        BF, BT = ("field", batch, "from"), ("field", batch, "to")
        i0 = mut[0]
        old0 = p0.store.get(caps[i0][1]) if not caps[i0][2] else None
        oks = old0 is not None
        for q in (cps if oks else []):
            if q.end != "return":
                oks = False
                break
            nh = {"N": None, "H": None}
            for c_ in q.conds:
                e_ = L.lift(c_[0])
                if e_[0] == "bin" and e_[1] in ("Eq", "Ne") and {e_[2], e_[3]} == {FROM, BF} and isinstance(c_[1], int):
                    nh["N"] = (e_[1] == "Ne") == bool(c_[1])
                elif e_[0] == "has" and e_[1] == BT and e_[2] == TO and isinstance(c_[1], int):
                    nh["H"] = bool(c_[1])
                else:
                    oks = False
            v_ = q.store.get(("U", i0))
            added = v_ is not None and v_ != old0 and L.lift(v_) in (("or", L.lift(old0), ("bbof", BF)), ("or", ("bbof", BF), L.lift(old0)))
            same = v_ is None or v_ == old0
            if nh["N"] is True and nh["H"] is True:
                oks = oks and added
            elif nh["N"] is False or nh["H"] is False:
                oks = oks and same
            else:
                oks = False
        if oks:
            setflag = i0
    if okm:
        batch = ("param", cb.local_name(2))
        BF, BT = ("field", batch, "from"), ("field", batch, "to")

        def latom(e):
            if e[0] == "bin" and e[1] in ("Eq", "Ne"):
                s_ = {e[2], e[3]}
                pos = e[1] == "Eq"
                if s_ == {FROM, BF}:
                    return ("N", not pos)
                if s_ == {("file", FROM), ("file", BF)}:
                    return ("Fe", pos)
                if s_ == {("rank", FROM), ("rank", BF)}:
                    return ("Re", pos)
            if e[0] == "has" and e[1] == BT and e[2] == TO:
                return ("H", True)
            return None
        ASG = list(itertools.product((False, True), repeat=4))
        written = {i: {} for i in mut}
        entry = {i: (p0.store.get(caps[i][1]) if not caps[i][2] else None) for i in mut}

        def wval(v, m_, old):
            """what a stored value is under the batch assignment m_: True / False / 'same' (the flag as it was) / None"""
            if v == sym.TRUE:
                return True
            if v == sym.FALSE:
                return False
            if v == old:
                return "same"
            a_ = latom(L.lift(v))
            if a_ is not None:
                return m_[a_[0]] == a_[1]
            if v[0] == "un" and v[1] == "Not":
                x = wval(v[2], m_, old)
                return (not x) if isinstance(x, bool) else None
            if v[0] == "bin" and v[1] in ("BitOr", "BitAnd"):
                x, y = wval(v[2], m_, old), wval(v[3], m_, old)
                dom, neu = (True, False) if v[1] == "BitOr" else (False, True)
                if x is dom or y is dom:
                    return dom
                if x is neu:
                    return y
                if y is neu:
                    return x
            return None
        for q in cps:
            if q.end != "return":
                okm = False
                break
            lits = {}
            for c_ in q.conds:
                a_ = latom(L.lift(c_[0]))
                if a_ is None or not isinstance(c_[1], int):
                    okm = False
                    break
                lits[a_[0]] = (a_[1] == bool(c_[1]))
            for asg in ASG:
                m_ = dict(zip(("N", "H", "Fe", "Re"), asg))
                if any(m_[k_] != v_ for k_, v_ in lits.items()):
                    continue
                for i in mut:
                    v_ = q.store.get(("U", i))
                    w_ = "same" if v_ is None else wval(v_, m_, entry[i])
                    if w_ is None:
                        okm = False
                    elif w_ != "same":
                        written[i][asg] = w_
        sets = {"A": {a_ for a_ in ASG if a_[0] and a_[1]}, "Fc": {a_ for a_ in ASG if a_[0] and a_[1] and a_[2]}, "Rc": {a_ for a_ in ASG if a_[0] and a_[1] and a_[3]}}
        for i in mut:
            consts = set(written[i].values())
            for kn, st_ in sets.items():
                if len(consts) == 1 and set(written[i]) == st_:
                    meaning[i] = (kn, next(iter(consts)))
    if setflag is None and not (okm and sorted(k_ for k_, c_ in meaning.values()) == ["A", "Fc", "Rc"]):
        ctx.note("SAN writer: the disambiguation scan does not keep three Boolean flags (another origin reaches the destination / one on the mover's "
                 "file / one on its rank); the disambiguation table is not read (%s)" % {i: meaning.get(i) for i in mut})
        return
    # ---- 2. the two optional origin coordinates of the result
    def names_with(tail):
        out = set()
        for p, g in recs:
            for n_, v_ in dict(p.ret[4]).items():
                if v_[0] == "agg" and v_[2] == "Some" and dict(v_[4]).get("0") == ("call", T_ + tail, (FROM,)):
                    out.add(n_)
        return out
    T_ = "cozy_chess_types::square::Square::"
    ffs, rfs = names_with("file"), names_with("rank")
    if len(ffs) != 1 or len(rfs) != 1:
        ctx.note("SAN writer: the result does not carry one optional origin file and one optional origin rank (%s, %s); the disambiguation table is not read" % (sorted(ffs), sorted(rfs)))
        return
    FF, RF = next(iter(ffs)), next(iter(rfs))

    def presence(v):
        return True if (v[0] == "agg" and v[2] == "Some") else (False if (v[0] == "agg" and v[2] == "None") else None)
    # ---- 3. the table
    bad = None
    for A, Fc, Rc, K, C in itertools.product((False, True), repeat=5):
        if ((Fc or Rc) and not A) or (K and C and Fc):
            continue                    # (two pawns capturing onto one square stand on different files)
        val = {"A": A, "Fc": Fc, "Rc": Rc}
        want = ((A and (not Fc or Rc)) or (K and C), A and Fc)
        for p, g in recs:
            fields = dict(p.ret[4])
            capv = L.lift(fields[capf]) if capf in fields else None
            init = {ci: v0 for (ai, ci), v0 in (g.extra.get("captured") or {}).items() if ai == 2}
            post = {("post", gmn, g.idx, j): i for j, i in enumerate(mut)}

            def ev(e):
                """value of a Boolean expression under the combination, None when it does not follow from it"""
                if e == sym.TRUE:
                    return True
                if e == sym.FALSE:
                    return False
                if setflag is not None and e[0] == "isempty":
                    # questions put to the set of rival origins: any at all / any on the mover's file / on its rank
                    P_ = ("post", gmn, g.idx, 0)
                    if init.get(setflag) not in (("bbconst", 0), ("bb", ("int", 0, "u64"))):
                        raise _NotRead("the set of rivals does not start empty")
                    x_ = L.lift(e)[1]
                    lp_ = L.lift(P_)
                    if x_ == lp_:
                        return not A
                    if x_[0] == "and" and lp_ in (x_[1], x_[2]):
                        o_ = x_[2] if x_[1] == lp_ else x_[1]
                        if o_ in (("filebb", ("file", FROM)), ("call", "cozy_chess_types::file::File::bitboard", (("file", FROM),))):
                            return not Fc
                        if o_ in (("rankbb", ("rank", FROM)), ("call", "cozy_chess_types::rank::Rank::bitboard", (("rank", FROM),))):
                            return not Rc
                    if sym.contains(e, lambda y: y == P_):
                        raise _NotRead("a question about the rivals that is not `none`, `none on the file`, `none on the rank`")
                if setflag is not None and e in post:
                    raise _NotRead("the set of rivals used as a value")
                if e in post:
                    i = post[e]
                    kn, const = meaning[i]
                    if init.get(i) not in (sym.TRUE, sym.FALSE):
                        raise _NotRead("a flag does not start the scan with a constant")
                    return const if val[kn] else (init[i] == sym.TRUE)
                le_ = L.lift(e)
                if capv is not None and capv not in (sym.TRUE, sym.FALSE) and le_ == capv:
                    return C
                if le_[0] == "bin" and le_[1] in ("Eq", "Ne") and (le_[2] in MOVED or le_[3] in MOVED) and (le_[3] if le_[2] in MOVED else le_[2])[0] == "enum":
                    other_ = le_[3] if le_[2] in MOVED else le_[2]
                    if other_ == PAWN:
                        return K == (le_[1] == "Eq")
                    if K:
                        return le_[1] == "Ne"          # a pawn is no other kind
                    return None
                if e[0] == "un" and e[1] == "Not":
                    x = ev(e[2])
                    return None if x is None else not x
                if e[0] == "bin" and e[1] in ("BitOr", "BitAnd"):
                    x, y = ev(e[2]), ev(e[3])
                    dom = e[1] == "BitOr"
                    if x is dom or y is dom:
                        return dom
                    if x is None or y is None:
                        return None
                    return (x or y) if dom else (x and y)
                if e[0] == "bin" and e[1] in ("Eq", "Ne", "BitXor"):
                    x, y = ev(e[2]), ev(e[3])
                    if x is None or y is None:
                        return None
                    return (x == y) if e[1] == "Eq" else (x != y)
                return None
            cons = True
            try:
                for c_ in p.conds:
                    e_, v_ = c_[0], c_[1]
                    about_flags = sym.contains(e_, lambda y: y in post)
                    if not isinstance(v_, int):
                        le_ = L.lift(e_)
                        if le_[0] == "discr" and le_[1] in MOVED and K and kinds_.index("Pawn") in v_[1]:
                            cons = False
                        if about_flags:
                            raise _NotRead("a switch on a flag")
                        continue
                    le_ = L.lift(e_)
                    if le_[0] == "discr" and le_[1] in MOVED:
                        cons = cons and ((0 <= v_ < len(kinds_) and kinds_[v_] == "Pawn") == K)
                        continue
                    x = ev(e_)
                    if x is None:
                        if about_flags:
                            raise _NotRead("a decision on a flag together with something else: %s" % sym.show(le_)[:100])
                        continue
                    cons = cons and (x == bool(v_))
                if capv in (sym.TRUE, sym.FALSE):
                    cons = cons and ((capv == sym.TRUE) == C)
                if not cons:
                    continue
                got = (presence(fields[FF]), presence(fields[RF]))
                if None in got:
                    raise _NotRead("the origin file / rank of the result is not Some(..) or None on a path")
            except _NotRead as ex:
                ctx.note("SAN writer: the disambiguation table is not read (%s)" % ex)
                return
            if got != want and bad is None:
                if os.environ.get("CVA_DEBUG_SAN"):
                    print("BADPATH", [(sym.show(L.lift(c_[0]))[:90], c_[1]) for c_ in p.conds])
                bad = ("another origin reaches the destination: %s, one on the mover's file: %s, one on its rank: %s, pawn: %s, capture: %s -> file printed: %s, rank printed: %s (canonical: %s, %s)"
                       % (A, Fc, Rc, K, C, got[0], got[1], want[0], want[1]))
    ctx.check(bad is None, "san-write:disambiguation-table:minimal", "the origin coordinates printed are not the minimal disambiguation: %s" % bad, where,
              sample={"table": "file = A & (!Fc | Rc) | pawn capture; rank = A & Fc", "paths": len(recs),
                      "flags": ({str(i): meaning[i] for i in mut} if setflag is None else "the set of rival origins")})


class _NotRead(Exception):
    pass


def check_capture_mark(ctx, f, L, ps, where):
    """the capture mark of a non-castling move: set exactly when the move captures -- an enemy piece stands on the
    destination, or a pawn moves onto the en-passant square.  Two spellings are decided: (A) the count of occupied (or
    enemy) squares drops from the board to its successor by `play` (the successor is C02's, re-run through C01: the
    count drops on captures and en passant only); (B) a Boolean function of the atoms E `enemy on to`, K `kind of the
    moved piece`, S `an en-passant file is set`, T `to == (that file, relative sixth rank)`, F `origin and destination
    files differ`, which must equal E | (K == Pawn & S & T) on every assignment a legal non-castling move on an
    accepted board allows (the en-passant square is empty; a pawn changes file exactly when it captures; the destination
    holds no own piece)."""
    ctx.rule("san-writer.capture-mark")
    CAPF = capture_field(f, L)
    if not ctx.check(CAPF is not None, "san-write:capture-mark:field", "no field of the SAN display value decides the 'x' of the text", where):
        return
    MV = ("param", "mv")
    TO, FROM = ("field", MV, "to"), ("field", MV, "from")
    ENEMY = ("get", "colors", BOARD, ("cnot", STM))
    _W, _B = ("enum", movegen.COLOR, "White"), ("enum", movegen.COLOR, "Black")
    OCC = lambda b_: {(o_, ("get", "colors", b_, x_), ("get", "colors", b_, y_)) for o_ in ("or", "xor") for x_, y_ in ((_W, _B), (_B, _W))} | {("get", "occupied", b_)}
    EP = ("get", "en_passant", BOARD)
    EPSQ = ("sq", ("field", ("downcast", EP, "Some"), "0"), ("relrank", 5, STM))
    MOVED = {("call", "core::option::Option<T>::unwrap", (("piece_on", BOARD, FROM),)),
             ("field", ("downcast", ("piece_on", BOARD, FROM), "Some"), "0")}
    kinds = [v["name"] for v in f.adts[PIECE]["variants"]]

    def post_of(e):
        found = []
        sym.contains(e, lambda y: found.append(y) or False if (y[0] == "post" and str(y[1]).endswith("::play")) else False)
        return found[0] if found else None

    def form_a(cap):
        if not (cap[0] == "bin" and cap[1] in ("Gt", "Lt", "Ne") and cap[2][0] == "len" and cap[3][0] == "len"):
            return False
        before, after = (cap[2][1], cap[3][1]) if cap[1] != "Lt" else (cap[3][1], cap[2][1])
        po = post_of(after) or post_of(before)
        if po is None:
            return False
        if post_of(before) is not None:
            if cap[1] != "Ne":
                return False
            before, after = after, before
        if before in OCC(BOARD) and after in OCC(po):
            return True
        # enemy pieces: the mover's opponent, named from either board (the successor's side to move is the opponent)
        enemy_after = {("get", "colors", po, ("cnot", STM)), ("get", "colors", po, ("get", "side_to_move", po))}
        return before == ENEMY and after in enemy_after

    def atom(e):
        """-> (name, positive?) or ('kind', X, positive?) or None"""
        if e[0] == "un" and e[1] == "Not":
            a = atom(e[2])
            return None if a is None else a[:-1] + (not a[-1],)
        if e[0] == "has" and e[2] == TO:
            if e[1] == ENEMY or e[1] in OCC(BOARD):
                return ("E", True)            # no own piece on the destination of a legal non-castling move
        if e[0] == "discr" and e[1] == ("piece_on", BOARD, TO) or e[0] == "discr" and e[1] == ("color_on", BOARD, TO):
            return ("E", True)
        if e == ("discr", EP):
            return ("S", True)
        if e[0] == "bin" and e[1] in ("Eq", "Ne"):
            s_ = {e[2], e[3]}
            pos = e[1] == "Eq"
            if s_ == {EPSQ, TO}:
                return ("T", pos)
            if s_ == {("file", FROM), ("file", TO)}:
                return ("F", not pos)
            for m_ in MOVED:
                if m_ in s_:
                    o = (s_ - {m_}).pop() if len(s_) == 2 else None
                    if o is not None and o[0] == "enum" and o[1] == PIECE:
                        return ("kind", o[2], pos)
        if e[0] == "has" and e[2] == FROM and e[1][0] == "get" and e[1][1] == "pieces" and e[1][2] == BOARD and e[1][3][0] == "enum":
            return ("kind", e[1][3][2], True)
        return None

    def holds(a, sg):
        if a[0] == "kind":
            return (sg["K"] == a[1]) == a[2]
        return sg[a[0]] == a[1]

    def ev(e, sg):
        """value of a Boolean expression under the assignment, None if it is not a function of the atoms"""
        if e == sym.TRUE:
            return True
        if e == sym.FALSE:
            return False
        a = atom(e)
        if a is not None:
            return holds(a, sg)
        if e[0] == "un" and e[1] == "Not":
            x = ev(e[2], sg)
            return None if x is None else not x
        if e[0] == "bin" and e[1] in ("BitAnd", "BitOr", "BitXor", "Eq", "Ne"):
            x, y = ev(e[2], sg), ev(e[3], sg)
            if x is None or y is None:
                return None
            return {"BitAnd": x and y, "BitOr": x or y, "BitXor": x != y, "Ne": x != y, "Eq": x == y}[e[1]]
        return None

    # assignments a legal non-castling move on an accepted board allows
    care = []
    for K in kinds:
        for E in (False, True):
            for S in (False, True):
                for T in ((False, True) if S else (False,)):
                    for F in (False, True):
                        if E and S and T:
                            continue                     # the en-passant square is empty
                        if K == "Pawn" and F != (E or (S and T)):
                            continue                     # a pawn changes file exactly when it captures
                        care.append({"K": K, "E": E, "S": S, "T": T, "F": F})
    n = na = 0
    bad = {}
    for p in ps:
        if p.end != "return" or p.ret[0] != "agg":
            continue
        fields = dict(p.ret[4])
        if CAPF not in fields:
            continue
        conds = [(L.lift(c[0]), c[1]) for c in p.conds]

        castles = False
        for e_, v_ in conds:
            if e_[0] == "bin" and e_[1] in ("Eq", "Ne") and isinstance(v_, int) and TO in (e_[2], e_[3]) and \
                    (right_sq("short") in (e_[2], e_[3]) or right_sq("long") in (e_[2], e_[3])) and (e_[1] == "Eq") == bool(v_):
                castles = True
        if castles:
            continue                                     # the destination is a castling rook's square: the text is O-O / O-O-O
        n += 1
        cap = L.lift(fields[CAPF])
        if form_a(cap):
            na += 1
            continue
        lits = []
        for e_, v_ in conds:
            a = atom(e_)
            if a is None and e_[0] == "discr" and e_[1] in MOVED:
                # a switch on the moved piece's kind
                if isinstance(v_, int):
                    a = ("kind", kinds[v_], True) if 0 <= v_ < len(kinds) else None
                else:
                    lits.append(("kindnotin", [kinds[i] for i in v_[1] if 0 <= i < len(kinds)]))
                    continue
            elif a is not None and not isinstance(v_, int):
                continue
            elif a is not None and not v_:
                a = a[:-1] + (not a[-1],)
            if a is not None:
                lits.append(a)
        for sg in care:
            if not all((sg["K"] not in l_[1]) if l_[0] == "kindnotin" else holds(l_, sg) for l_ in lits):
                continue
            got = ev(cap, sg)
            want = sg["E"] or (sg["K"] == "Pawn" and sg["S"] and sg["T"])
            if got is None:
                bad.setdefault("undecided", sym.show(cap)[:160])
            elif got != want:
                bad.setdefault("wrong", "%s piece, enemy on destination: %s, destination is the en-passant square: %s -> capture mark %s"
                               % (sg["K"], sg["E"], sg["S"] and sg["T"], got))
    ctx.floor("non-castling SAN results", n, 1)
    ctx.check("undecided" not in bad, "san-write:capture-mark:decided",
              "the capture mark is neither the drop of the piece count from the board to its successor nor a function of "
              "`enemy on destination`, `moved piece is a pawn`, `destination is the en-passant square`: %s" % bad.get("undecided"), where)
    ctx.check("wrong" not in bad, "san-write:capture-mark:iff-captures",
              "the capture mark is not set exactly when the move captures (enemy piece on the destination, or a pawn moving onto the en-passant square): %s" % bad.get("wrong"), where,
              sample={"capture mark": "piece count drops from board to successor" if na else "E | (pawn & to == ep square)", "results": n})


def is_subsequence(a, b):
    it = iter(b)
    return all(any(x == y for y in it) for x in a)


def run(ctx):
    ctx.explanation = __doc__
    f = ctx.facts("A")
    L = lift.Lifter(f)
    check_uci(ctx, f, L)
    check_san_reader(ctx, f, L)
    check_san_writer(ctx, f, L)
    # the reader returns, and the writer disambiguates among, the moves generate_moves_for yields; the check / mate suffix is
    # read off the successor position: legal move generation (C01), which re-runs the successor (C02) and checker (C03)
    # rules, is a prerequisite and is re-run here
    from . import c01
    expl_ = ctx.explanation
    c01.run(ctx)
    ctx.explanation = expl_
    ctx.assumptions += ["legality of the moves the reader can return and the writer scans is C01's; the successor position is C02's; checkers are C03's (all re-run inside this check)"]
