"""C07 FEN and Shredder-FEN text round-trips boards exactly and canonically (table agreement).

Decided (writer/reader agreement -- necessary for any round trip):
 * field order: the format templates of Display (decoded from the compiler's encoding) give, on
   every returning path, side, [castling], en-passant, half-move, full-move in that order with the
   right arguments, and from_fen consumes placement, side, castling, en-passant, half-move,
   full-move in the same order;
 * placement: the writer walks ranks 8->1 (reversed) and files a->h, writes the table char of the
   piece (C19 tables: six distinct lowercase letters, none a digit) upper-cased exactly for White,
   flushes the empty-square count before a piece and at the end of a rank and writes '/' between
   ranks; the reader assigns rank indices from the last '/'-separated row (rsplit + enumerate),
   advances the file by a digit's value or by one after placing table^-1(lowercase(char)) with
   colour White exactly for upper-case;
 * castling letters: writer, per colour in (White, Black) order, short then long, writes the
   right's file letter (Shredder) or 'k'/'q' (plain), upper-cased exactly for White, '-' iff nothing
   was written; reader: upper-case => White, plain 'k' => (short, H), 'q' => (long, A), Shredder
   file letter via the same File table with short <=> king file < file;
 * en-passant square: one canonical rank (3rd relative to the side that just moved = 6th relative
   to the side to move) at every site that converts file <-> square: Display, parse_en_passant,
   builder, from_board, the pawn generator, play_unchecked, same_position and the validator.
Not decided: round-trip equality and `equal boards <=> equal text` as behaviour (they also need
C03/C10 and integer formatting in core)."""
import os
from .. import sym, conc, lift
from ..conc import Stuck
from .common import loop_counter
from . import gate as gatemod
from .common import B, loc

DISPLAY = "<%s as core::fmt::Display>::fmt" % B
T = "cozy_chess_types::"
COLOR = T + "color::Color"
FILE = T + "file::File"
SELF = ("obj", "self")
STM = ("get", "side_to_move", SELF)


def tmpl(a):
    """decode a format template (string literal or this toolchain's byte encoding)"""
    while a[0] in ("ref", "deref"):
        a = a[1]
    if a[0] == "str":
        return a[1]
    if a[0] == "array":
        bs = [x[1] for x in a[1]]
        out = ""
        i = 0
        while i < len(bs):
            c = bs[i]
            if c == 0:
                return out
            if c == 0xC0:
                out += "{}"
                i += 1
            elif c < 0x80:
                out += bytes(bs[i + 1:i + 1 + c]).decode("utf-8", "replace")
                i += 1 + c
            else:
                raise ValueError("unknown format template byte %#x" % c)
        return out
    raise ValueError("format template is not constant")


def castle_letter(x):
    """a written value that is a castling letter -> (upper-cased?, wing, 'k'|'q'|'<file letter>', source right or None)"""
    while x[0] in ("ref", "deref"):
        x = x[1]
    upper = x[0] == "call" and x[1].endswith("to_ascii_uppercase")
    if upper:
        x = x[2][0]
        while x[0] in ("ref", "deref"):
            x = x[1]
    if x[0] == "int" and x[2] == "char" and chr(x[1]) in "KQ":
        return True, ("short" if chr(x[1]) == "K" else "long"), chr(x[1]).lower(), None     # an upper-case literal
    if x[0] == "int" and x[2] == "char" and chr(x[1]) in "kq":
        return upper, ("short" if chr(x[1]) == "k" else "long"), chr(x[1]), None
    rights_any = lambda y: y[0] == "get" and y[1] == "castle_rights"
    if x[0] == "call" and x[1].endswith("Into<U>>::into") and sym.contains(x, rights_any):
        fs = sym.subterms(x, lambda y: y[0] == "field" and y[2] in ("short", "long") and rights_any(y[1]))
        if fs:
            return upper, fs[0][2], "<file letter>", fs[0]
    return None


def idx_ty(v):
    """type tag of the constant in `counter + 1`"""
    if isinstance(v, tuple) and v and v[0] == "bin":
        for x in v[2:]:
            if x[0] == "int":
                return x[2]
    return "usize"


OWN_WRITERS = set()       # private functions read as part of the writer being analysed (set by run())


def writes(L, p):
    out = []
    pend = []
    for e in p.events:
        if e.kind != "call" or (e.depth != 0 and e.fn.split("::{closure")[0] not in OWN_WRITERS):
            continue
        if e.name.endswith("new_display"):
            a = e.args[0]
            if a[0] == "ptr":
                a = e.extra["pointees"].get(0, a)
            pend.append(L.lift(a))
        elif "Arguments" in e.name and (e.name.endswith("::new") or e.name.endswith("from_str")):
            out.append((tmpl(e.args[0]), tuple(pend), e))
            pend = []
        elif e.name.endswith("::write_str") and "core::fmt" in e.name:
            # a literal written directly: the same emission as write!(f, "<literal>")
            a = e.args[1]
            while a[0] in ("ref", "deref"):
                a = a[1]
            out.append((a[1] if a[0] == "str" else "{}", () if a[0] == "str" else (L.lift(a),), e))
        elif e.name.endswith("::write_char") and "core::fmt" in e.name:
            a = e.args[1]
            if a[0] == "int" and chr(a[1]) in "kqKQ":
                out.append(("{}", (("int", a[1], "char"),), e))       # a castling letter written as a constant: still a value
            elif a[0] == "int":
                out.append((chr(a[1]), (), e))
            else:
                out.append(("{}", (L.lift(a),), e))
    return out


def relranks_with_ep(f, L, names):
    """all relative ranks paired with an en-passant file into a square, per function"""
    out = {}
    from .names import names as role_names
    RN = role_names(f)
    heavy = set(RN.generators.values()) | {RN.roster, B + "::is_legal", B + "::generate_moves_for", B + "::generate_moves"}
    for name in names:
        b = f.bodies.get(name)
        if b is None:
            continue
        cg = {"IN_CHECK": sym.FALSE} if "IN_CHECK" in b.j["generics"] else {}
        try:
            ps = sym.SymExec(f, b, cgen=cg, max_paths=50000, inline=lambda n: False if (n in heavy or (n in names and n != name)) else None).run()
        except sym.PathLimit:
            continue
        found = set()
        for p in ps:
            exprs = [c[0] for c in p.conds] + ([p.ret] if p.ret else []) + [a for e in p.events if e.kind == "call" for a in e.args]
            for x in exprs:
                for s in sym.subterms(L.lift(x), lambda y: y[0] == "sq" and y[2][0] == "relrank"):
                    fl = s[1]
                    if sym.contains(fl, lambda y: y[0] == "get" and y[1] == "en_passant") or (fl[0] == "param" and "ep" in fl[1]) or \
                            (fl[0] == "param" and fl[1] == "f"):
                        found.add((s[2][1], "stm" if sym.contains(s[2][2], lambda y: y[0] == "get" and y[1] == "side_to_move") or s[2][2][0] == "deref" else sym.show(s[2][2])[:30]))
            for c in p.conds:
                ce = L.lift(c[0])
                if ce[0] == "bin" and ce[1] in ("Eq", "Ne"):
                    for a_, b_ in ((ce[2], ce[3]), (ce[3], ce[2])):
                        if a_[0] == "relrank" and b_[0] == "rank":
                            found.add((a_[1], "stm" if sym.contains(a_[2], lambda y: y[0] == "get" and y[1] == "side_to_move") else sym.show(a_[2])[:30]))
        if found:
            out[name.rsplit("::", 2)[-2] + "::" + name.rsplit("::", 1)[-1] if "closure" in name else name.rsplit("::", 1)[-1]] = found
    return out


def check_reader_ep_guard(ctx, f, g, L):
    """the reader keeps only the *file* of the en-passant square; the rank is re-derived from the side to move, so a
    square on another rank must be refused or the board returned is not the position the text denotes (C07, C08)"""
    eb = f.need(g.stage_for(B + "::from_fen", "ep"))
    eps = sym.SymExec(f, eb, inline=lambda n: False if n in g.W else None).run()
    for p in eps:
        for e in p.events:
            if e.kind == "call" and e.depth == 0 and g.wrole.get(e.name) == "ep" and e.args[1][0] == "agg" and e.args[1][2] == "Some":
                guard = [c for c in p.conds[:e.ncond] if sym.contains(L.lift(c[0]), lambda y: y[0] == "relrank" and y[1] == 5)]
                ok = bool(guard) and ((guard[-1][0][1] == "Ne") == (guard[-1][1] == 0))
                ctx.check(ok, "reader:ep-rank-guard", "the reader stores an en-passant file without requiring the square to be on the canonical rank", loc(eb))


def run(ctx):
    ctx.explanation = __doc__
    f = ctx.facts("A")
    g = gatemod.Gate(ctx, f)
    L = g.L
    b = f.need(DISPLAY)
    where = loc(b)
    # parts of the writer moved into private functions of their own (`write_rank(f, rank)`, `write_castle_rights(f, ..)`),
    # loops and all, are read as part of it: everything the writer reaches inside the crate that takes the formatter
    from .common import reachable_bodies
    subw = {k_ for k_ in reachable_bodies(f, [DISPLAY], stop=lambda n_: not (n_.startswith("cozy_chess::") or n_.startswith("<cozy_chess::")))
            if k_ != DISPLAY and k_.startswith("cozy_chess::") and f.bodies[k_].kind in ("Fn", "AssocFn") and not f.fns.get(k_, {}).get("pub")
            and any("core::fmt::Formatter" in f.bodies[k_].locals[i_]["ty"] for i_ in range(1, f.bodies[k_].argc + 1))}
    inl_w = (lambda n_: True if n_ in subw else None) if subw else None
    OWN_WRITERS.clear()
    OWN_WRITERS.update(subw)
    paths = sym.SymExec(f, b, max_paths=200000, inline=inl_w).run()
    ctx.saw("%s: %d paths" % (b.key, len(paths)))
    # formatting helpers: local functions reachable from fmt that take the Formatter
    from .common import reachable_bodies
    helper_paths = []
    for k in sorted(reachable_bodies(f, [DISPLAY])):
        hb = f.bodies[k]
        if k == DISPLAY or hb.kind not in ("Fn", "AssocFn") or hb.crate != "cozy_chess" or k in subw:
            continue            # (sub-writers are read in the context of their call, above)
        if any("core::fmt::Formatter" in hb.locals[i]["ty"] for i in range(1, hb.argc + 1)):
            hp = sym.SymExec(f, hb, max_paths=200000).run()
            ctx.saw("%s: %d paths (formatting helper)" % (hb.key, len(hp)))
            helper_paths += hp
    hm = ("ptr", ("P", "self"), (("f", g.fld["halfmove_clock"]),), False)
    fm = ("ptr", ("P", "self"), (("f", g.fld["fullmove_number"]),), False)
    epsq = ("sq", ("field", ("downcast", ("get", "en_passant", SELF), "Some"), "0"), ("relrank", 5, STM))
    # ------------------------------------------------------------------ field order
    ctx.rule("field-order")
    def fmt_ok(p_):
        """the formatter reports success: Ok(()) or the verdict of the last write handed back as it is"""
        if p_.end != "return" or p_.ret is None:
            return False
        if p_.ret[0] == "agg" and p_.ret[2] == "Ok":
            return True
        lw = [e_ for e_ in p_.events if e_.kind == "call" and (e_.depth == 0 or e_.fn.split("::{closure")[0] in OWN_WRITERS) and "core::fmt" in e_.name and "::write_" in e_.name]
        return bool(lw) and p_.ret == lw[-1].ret
    # the castling field is read on paths where the two-element loops (colours, wings) are executed element by element:
    # a loop over Color::ALL and four ifs written out by hand are then the same straight-line paths
    paths_u = sym.SymExec(f, b, max_paths=200000, unroll_const=2, inline=inl_w).run()
    ctx.saw("%s: %d paths with the colour loop unrolled" % (b.key, len(paths_u)))
    rets = [p for p in paths_u if fmt_ok(p)]
    try:
        n = 0
        for p in rets:
            # everything written after the placement, as one string: literal text as it is, each formatted value as a tag
            # (S side to move, L a castling letter, E the en-passant square, H / F the clocks); how the text is cut into
            # write! / write_str / write_char calls does not matter
            n += 1
            import re as _re
            line = ""
            shown = []
            for t_, a_, e_ in writes(L, p):
                shown.append((t_, [sym.show(x)[:40] for x in a_]))
                parts_ = t_.split("{}")
                if len(parts_) - 1 != len(a_):
                    line += "?"
                    continue
                for i_, lit_ in enumerate(parts_):
                    line += lit_
                    if i_ < len(a_):
                        x_ = a_[i_]
                        if castle_letter(x_) is not None:
                            line += "L"
                        elif x_ == epsq:
                            line += "E"
                        elif x_ in (("get", "halfmove_clock", SELF), hm):
                            line += "H"
                        elif x_ in (("get", "fullmove_number", SELF), fm):
                            line += "F"
                        elif x_ == STM or (x_[0] == "call" and x_[1].endswith("Into<U>>::into") and x_[2] == (STM,)):
                            line += "S"
                        else:
                            line += "?"
            m_ = _re.match(r"^ S (L{1,4}|-) (E|-) H F$", line)
            ctx.check(m_ is not None, "display:field-order", "after the placement the record is not ` side castling ep halfmove fullmove` with single spaces: %r from %s"
                      % (line, shown), where, sample={"record": line} if n == 1 else None)
            epstate = [c[1] for c in p.conds if L.lift(c[0]) == ("discr", ("get", "en_passant", SELF))]
            if epstate and m_ is not None:
                some = epstate[0] == 1
                ctx.check((m_.group(2) == "E") == some, "display:ep-dash-iff-none", "the en-passant field is not `-` exactly when no file is set", where)
        ctx.floor("Display returning paths", n, 2)
    except ValueError as e:
        ctx.fail("display:template-decoding", "cannot decode a format template: %s" % e, where)
        return
    # reader order
    fb, fpaths = g.ok_paths(B + "::from_fen")
    for p in fpaths:
        if p.end == "return" and p.ret[0] == "agg" and p.ret[2] == "Ok":
            # what is filled in, in order: stage calls and the constructor's own assignments of the clocks
            order = []
            for i_, k_, rs_, lab_ in g.timeline(p, depth_summary=False):
                if k_ == "W" and rs_ - {"derived"}:
                    order.append("board" if "board" in rs_ else sorted(rs_ - {"derived"})[0])
            ctx.check(order == ["board", "board", "castling", "ep", "half", "full"], "reader:field-order",
                      "from_fen does not consume placement, side, castling, en-passant, half-move, full-move in this order: %s" % order, loc(fb), sample={"reader": order})
    # ------------------------------------------------------------------ placement writer
    ctx.rule("placement")
    lbs = [p for p in paths + helper_paths if p.end == "loopback"]
    piece_writes = 0
    slash = 0
    flush_before_piece = False
    for p in lbs:
        w = writes(L, p)
        # rank loop / file loop membership
        loops = [(L.lift(c[0][1][1]), c[2]) for c in p.conds if c[0][0] == "discr" and c[0][1][0] == "next" and c[1] == 1]
        for t, a, e in w:
            if t == "{}" and a and sym.contains(a[0], lambda y: y[0] == "call" and y[1].endswith("Into<U>>::into")) and \
                    sym.contains(a[0], lambda y: y[0] == "piece_on"):
                piece_writes += 1
                arg = a[0]
                upper = arg[0] == "call" and arg[1].endswith("to_ascii_uppercase")
                into = sym.subterms(arg, lambda y: y[0] == "call" and y[1].endswith("Into<U>>::into"))[0]
                src = into[2][0]
                sq = None
                if src[0] == "field" and src[1][0] == "downcast" and src[1][1][0] == "piece_on":
                    sq = src[1][1][2]
                okpiece = sq is not None and sq[0] == "sq"
                # white <=> uppercase
                white = None
                from .common import enum_values, in_set3
                lconds = [(L.lift(c[0]), c[1]) for c in p.conds]
                colour_x = []
                for ce, cv_ in lconds:
                    if ce[0] == "discr" and sym.contains(ce[1], lambda y: y[0] == "color_on") and not (ce[1][0] == "color_on"):
                        colour_x.append(ce[1])
                    elif ce[0] == "bin" and ce[1] in ("Eq", "Ne"):
                        for a_ in (ce[2], ce[3]):
                            if sym.contains(a_, lambda y: y[0] == "color_on") and a_[0] != "discr":
                                colour_x.append(a_)
                wi = [v_["name"] for v_ in f.adts[COLOR]["variants"]].index("White")
                for x_ in colour_x:
                    w3 = in_set3(enum_values(f, lconds, x_, COLOR), {wi})
                    if w3 is not None:
                        white = w3
                ctx.check(okpiece and white is not None and white == upper, "writer:piece-letter",
                          "a piece is not written as the table char of piece_on(square), upper-cased exactly when color_on(square) is White", where,
                          sample={"writer": "char(piece_on(sq)) upper iff White"} if piece_writes == 1 else None)
                if okpiece:
                    fl, rk = sq[1], sq[2]
                    is_rev = lambda y: (y[0] == "call" and y[1].endswith("::rev")) or y[0] == "rev"
                    asc_files = sym.contains(fl, lambda y: y[0] == "array" and len(y[1]) == 8 and [x[2] for x in y[1]] == list("ABCDEFGH")) and \
                        not sym.contains(fl, is_rev)
                    desc_ranks = sym.contains(rk, is_rev) and \
                        sym.contains(rk, lambda y: y[0] == "array" and len(y[1]) == 8 and y[1][0][2] == "First")
                    if not desc_ranks:
                        # the same walk with an index kept by hand: Rank::ALL[k + a], k counting down by one from 7 - a
                        # and the loop running exactly while k + a >= 0
                        from .common import loop_counter, affine_in
                        from ..ranges import Ranger
                        for ix_ in sym.subterms(rk, lambda y: y[0] == "index" and y[1][0] == "array" and len(y[1][1]) == 8 and
                                                [x[2] for x in y[1][1]] == [v_["name"] for v_ in f.adts[T + "rank::Rank"]["variants"]]):
                            hvs = sym.subterms(ix_[2], lambda y: y[0] == "hv")
                            if len(hvs) != 1:
                                continue
                            a_ = affine_in(ix_[2], hvs[0])
                            cnt = loop_counter(paths, b, hvs[0])
                            bd = Ranger(f, {hvs[0]: "usize"}).bounds(hvs[0], p.conds)
                            if a_ is not None and cnt is not None and cnt[0] + a_ == 7 and cnt[1] == -1 and bd is not None and bd[0] + a_ == 0:
                                desc_ranks = True
                    if os.environ.get("CVA_DEBUG_WALK") and not (asc_files and desc_ranks):
                        print("WALK fl=%s\n     rk=%s" % (sym.show(fl)[:300], sym.show(rk)[:600]))
                    ctx.check(asc_files and desc_ranks, "writer:walk-order", "the writer does not walk ranks 8->1 (reversed Rank::ALL) and files a->h (File::ALL)", where,
                              sample={"walk": "ranks reversed, files ascending"} if piece_writes == 1 else None)
                # an empty count, if any, is flushed before the piece on paths where empty > 0
                ts = [t_ for t_, a_, e_ in w]
                if ts.count("{}") >= 2:
                    flush_before_piece = True
            if t == "/":
                slash += 1
                # '/' separates consecutive ranks: the decision that guards it, evaluated for each of the eight positions of
                # the walk (the walked element and / or a counter substituted), must hold for all but the first position
                # when the '/' comes in front of the rank's squares and for all but the last when it follows them
                # in front of the rank's squares or behind them: relative to the first look at a square (or the first pull
                # of the file walk) on this path
                looks_ = [e2_.idx for e2_ in p.events if e2_.kind == "call" and (e2_.name.endswith("::piece_on") or e2_.name.endswith("::color_on") or
                                                                                  (e2_.name.endswith("Iterator>::next") and e2_.ret is not None and
                                                                                   sym.contains(e2_.ret, lambda y: y[0] == "array" and len(y[1]) == 8 and y[1][0][0] == "enum" and y[1][0][1].endswith("file::File"))))]
                before = bool(looks_) and e.idx < min(looks_)
                after = bool(looks_) and not before
                guard = p.conds[e.ncond - 1] if e.ncond >= 1 else None
                # (the write itself may be followed by `?`: the guard is the last decision before it that is not about a write's result)
                gi_ = e.ncond - 1
                while gi_ >= 0 and sym.contains(p.conds[gi_][0], lambda y: y[0] == "call" and "core::fmt" in y[1]):
                    gi_ -= 1
                guard = p.conds[gi_] if gi_ >= 0 else None
                verdict_ = "no guard"
                if guard is not None and isinstance(guard[1], int) and (before or after):
                    G_ = guard[0]
                    vals_ = []
                    try:
                        for k_ in range(8):
                            def sub_(x):
                                if not isinstance(x, tuple) or not x:
                                    return x
                                if x[0] == "hv":
                                    lc_ = loop_counter(paths, b, x)
                                    if lc_ is None:
                                        raise Stuck("counter %s" % (x,))
                                    return ("int", lc_[0] + lc_[1] * k_, "usize")
                                el_, fld_ = (x, None) if x[0] == "elem" else ((x[1], x[2]) if x[0] == "field" and x[1][0] == "elem" and x[2] in ("0", "1") else (None, None))
                                if el_ is not None:
                                    S_ = el_[1]
                                    enum_ = rev_ = False
                                    while True:
                                        if S_[0] == "call" and S_[1].endswith("::enumerate"):
                                            enum_, S_ = True, S_[2][0]
                                        elif S_[0] in ("iter", "ref"):
                                            S_ = S_[1]
                                        elif S_[0] == "rev" or (S_[0] == "call" and S_[1].endswith("::rev")):
                                            rev_ = not rev_
                                            S_ = S_[1] if S_[0] == "rev" else S_[2][0]
                                        else:
                                            break
                                    if S_[0] != "array" or len(S_[1]) != 8:
                                        raise Stuck("walk source")
                                    seq_ = list(S_[1])[::-1] if rev_ else list(S_[1])
                                    if enum_ and fld_ == "0":
                                        return ("int", k_, "usize")
                                    if enum_ and fld_ == "1":
                                        return ("ref", seq_[k_])
                                    if not enum_ and fld_ is None:
                                        return ("ref", seq_[k_])
                                    raise Stuck("walk element")
                                return tuple(sub_(y) for y in x)
                            vals_.append(bool(conc.Conc({}, {}).ev(sub_(G_))) == bool(guard[1]))
                        want_ = [k_ != 0 for k_ in range(8)] if before else [k_ != 7 for k_ in range(8)]
                        verdict_ = "ok" if vals_ == want_ else "written at positions %s of the walk, %s the squares of the rank" % ([k_ for k_ in range(8) if vals_[k_]], "before" if before else "after")
                    except (Stuck, TypeError, KeyError, IndexError) as ex_:
                        verdict_ = "guard not evaluated (%s): %s" % (ex_, sym.show(G_)[:120])
                    # the other branch of the guard writes no '/'
                    for q_ in lbs:
                        for c_ in q_.conds:
                            if c_[0] == G_ and isinstance(c_[1], int) and c_[1] != guard[1] and any(t2_ == "/" for t2_, a2_, e2_ in writes(L, q_)):
                                verdict_ = "'/' is written on both branches of its guard"
                ctx.check(verdict_ == "ok", "writer:slash-between-ranks", "'/' is not written exactly between consecutive ranks: %s" % verdict_, where,
                          sample={"slash": "before every rank but the first" if before else "after every rank but the last"} if slash == 1 else None)
    ctx.check(piece_writes >= 2 and slash >= 1 and flush_before_piece, "writer:placement-structure",
              "the placement writer lacks piece letters, empty-count flushes before pieces, or '/' separators (pieces %d, slashes %d)" % (piece_writes, slash), where)
    # ------------------------------------------------------------------ placement reader
    # the placement reader: the stage(s) of the parser that call the placement writer, with private helpers inlined
    from .common import reachable_bodies
    from ..facts import callee_name
    place_w = {w for w, r in g.wrole.items() if r == "board" and f.bodies[w].argc == 4}
    board_stages = [k for k in sorted(reachable_bodies(f, [B + "::from_fen"])) if g.is_stage(k) and "board" in g.stage_roles(k)]
    top = [k for k in board_stages if any(callee_name(t_) in place_w for k2 in reachable_bodies(f, [k], stop=lambda n: n in g.W) for bb_, t_ in f.bodies[k2].calls())]
    # keep the outermost ones (called from from_fen directly)
    direct = {callee_name(t_) for bb_, t_ in f.need(B + "::from_fen").calls()}
    top = [k for k in top if k in direct] or top
    pb = f.need(top[0]) if top else f.need(g.stage_for(B + "::from_fen", "placement"))
    helpers = set(board_stages) - {pb.key}
    pps = sym.SymExec(f, pb, inline=lambda n: False if n in g.W else (True if n in helpers else None), max_paths=100000).run()
    nplace = 0
    for p in pps:
        for e in p.events:
            if e.kind == "call" and g.wrole.get(e.name) == "board" and len(e.args) == 4:
                nplace += 1
                piece, colour, sq = e.args[1], e.args[2], L.lift(e.args[3])
                if sq[0] == "bbof":
                    sq = sq[1]          # a placement writer that takes a set: here the set of one square
                ch = sym.subterms(piece, lambda y: y[0] == "call" and y[1] == "char::to_ascii_lowercase")
                okp = bool(ch) and sym.contains(piece, lambda y: y[0] == "call" and y[1].endswith("TryInto<U>>::try_into"))
                cchar = ch[0][2][0] if ch else None
                up = [c for c in p.conds if c[0][0] == "call" and c[0][1] == "char::is_ascii_uppercase" and cchar is not None and c[0][2][0] == cchar]
                if up:
                    is_up = bool(up[-1][1])
                else:
                    # the case decided by comparing the character with 'A'..'Z'
                    from ..ranges import Ranger
                    cv = cchar
                    while cv is not None and cv[0] in ("ref", "deref"):
                        cv = cv[1]
                    bd = Ranger(f, {cv: "char"} if cv is not None else {}).bounds(cv, p.conds) if cv is not None else None
                    is_up = None
                    if bd is not None and bd[0] is not None and bd[1] is not None:
                        if bd[0] > bd[1]:
                            nplace -= 1
                            continue        # contradictory comparisons: no character takes this path
                        if 65 <= bd[0] and bd[1] <= 90:
                            is_up = True
                        elif bd[1] < 65 or bd[0] > 90:
                            is_up = False
                okc = is_up is not None and ((colour == ("enum", COLOR, "White")) == is_up)
                ctx.check(okp and okc, "reader:piece-letter",
                          "the reader does not place table^-1(lowercase(char)) with colour White exactly for upper-case chars", loc(pb),
                          sample={"reader": "piece = lowercase(c).try_into(), White iff c.is_ascii_uppercase()"} if nplace == 1 else None)
                # rank from rsplit+enumerate, via try_index
                okr = sq[0] == "sq" and sym.contains(sq[2], lambda y: y[0] == "call" and y[1].endswith("Rank::try_index")) and \
                    sym.contains(sq[2], lambda y: y[0] == "call" and y[1] == "str::rsplit") and sym.contains(sq[2], lambda y: y[0] == "call" and y[1].endswith("Iterator::enumerate"))
                if not okr and sq[0] == "sq":
                    # the same index kept by hand: a counter that is 0 before the loop over the rsplit('/') rows and
                    # goes up by one on every iteration of that loop (and only there)
                    ti = sym.subterms(sq[2], lambda y: y[0] == "call" and y[1].endswith("Rank::try_index"))
                    idx = ti[0][2][0] if ti else None
                    while idx is not None and idx[0] == "cast":
                        idx = idx[2]
                    if idx is not None and idx[0] == "hv":
                        from .common import loop_counter
                        snap = p.pre_loop.get((0, idx[3]), {})
                        over_rows = any(v_ is not None and sym.contains(v_, lambda y: y[0] == "call" and y[1] == "str::rsplit" and y[2][1] == ("int", 47, "char"))
                                        for (nm_, pth_), v_ in snap.items())
                        okr = over_rows and loop_counter(pps, pb, idx) == (0, 1)
                if not okr and sq[0] == "sq":
                    # the ranks walked as the constant list of all ranks (element k has index k) in a loop that pulls exactly
                    # one '/'-separated row, from the end, per iteration and parses that row: row k from the end is rank k
                    from .c06 import norm_each
                    RANK_T = T + "rank::Rank"
                    if norm_each(sq[2], f.adts) == ("each", RANK_T):
                        for (fid_, hdr_), snap in p.pre_loop.items():
                            fnk_ = snap.get(("_fn", ()))
                            lb_ = f.bodies.get(fnk_[1]) if fnk_ else None
                            walks = [v_ for (nm_, pth_), v_ in snap.items() if nm_ != "_fn" and v_ is not None and v_[0] == "iter" and norm_each(("deref", ("elem", v_[1])), f.adts) == ("each", RANK_T)]
                            fresh = [nm_ for (nm_, pth_), v_ in snap.items() if nm_ != "_fn" and v_ is not None and not pth_ and v_[0] == "call" and v_[1] == "str::rsplit" and v_[2][1] == ("int", 47, "char")]
                            if lb_ is None or not walks or len(fresh) != 1:
                                continue
                            li_ = [i_ for i_ in range(len(lb_.locals)) if lb_.local_name(i_) == fresh[0]]
                            if len(li_) != 1:
                                continue

                            def row_pulls(path, fid, upto=None):
                                return [ev_ for ev_ in (path.events if upto is None else path.events[:upto])
                                        if ev_.kind == "call" and ev_.name.endswith("Iterator>::next") and "Split<" in ev_.name and ev_.args and
                                        ev_.args[0][0] == "ptr" and ev_.args[0][1] == ("L", fid, li_[0])]
                            mine = row_pulls(p, fid_, e.idx)
                            every = True
                            for p2 in pps:
                                for (f2, h2), s2 in p2.pre_loop.items():
                                    if h2 == hdr_ and s2.get(("_fn", ())) == fnk_ and p2.end == "loopback" and p2.end_loop == (f2, h2):
                                        every = every and len(row_pulls(p2, f2)) == 1
                            okr = len(mine) == 1 and every and mine[0].ret is not None and sym.contains(piece, lambda y: y == mine[0].ret)
                okf = sq[0] == "sq" and sym.contains(sq[1], lambda y: y[0] == "call" and y[1].endswith("File::try_index"))
                ctx.check(okr and okf, "reader:rank-from-last-row", "rank indices are not assigned from the last '/'-separated row (rsplit + enumerate) / files by a counter through File::try_index", loc(pb))
    ctx.floor("placement calls in the reader", nplace, 2)
    # tables: lowercase letters
    for en, mod in (("Piece", "piece"), ("File", "file")):
        nm = "<char as core::convert::From<%s%s::%s>>::from" % (T, mod, en)
        tb = f.need(nm)
        tps = sym.SymExec(f, tb).run()
        chars = [p.ret[1] for p in tps if p.ret is not None and p.ret[0] == "int"]
        ctx.check(len(chars) == len(set(chars)) and all(97 <= c <= 122 for c in chars), "tables:%s-lowercase" % en,
                  "%s letters are not distinct lowercase ASCII letters (case could not carry the colour): %s" % (en, [chr(c) for c in chars]), loc(tb),
                  sample={"letters": "".join(sorted(chr(c) for c in chars))})
    # ------------------------------------------------------------------ castling letters
    ctx.rule("castling-letters")
    letters = {"short": set(), "long": set()}
    rights_any = lambda y: y[0] == "get" and y[1] == "castle_rights"
    # Every castling letter written, read off the emission stream of one pass over a colour (after desugaring, the
    # `short.into_iter().chain(long)` idiom, an explicit pair of ifs and a loop over [(short,'k'),(long,'q')] are the same
    # paths): which right it stands for, plain letter or file letter, its case, and the order of the two wings.
    seen_up = set()
    nletters = 0
    ORDER = [("White", "short"), ("White", "long"), ("Black", "short"), ("Black", "long")]
    decided = {k: set() for k in ORDER}
    for p in rets:
        lifted = [(L.lift(c[0]), c[1]) for c in p.conds]
        alt = [v for e_, v in lifted if sym.contains(e_, lambda y: y[0] == "call" and y[1].endswith("::alternate")) and isinstance(v, int)]
        # which rights this path found present / absent, in the order it asked
        asked = []
        for i_, (e_, v) in enumerate(lifted):
            if e_[0] == "discr" and e_[1][0] == "field" and e_[1][2] in ("short", "long") and rights_any(e_[1][1]):
                col = e_[1][1][3] if len(e_[1][1]) > 3 else None
                if isinstance(v, int):
                    some_ = v == 1
                elif isinstance(v, tuple) and v and v[0] == "not" and set(v[1]) & {0, 1} in ({0}, {1}):
                    some_ = 0 in v[1]
                else:
                    continue
                if col is not None and col[0] == "enum" and col[1] == COLOR:
                    asked.append((i_, (col[2], e_[1][2]), some_))
                    decided[(col[2], e_[1][2])].add(some_)
        stream = writes(L, p)
        seq = []
        for t_, a_, e_ in stream:
            if t_ != "{}" or not a_:
                continue
            cl = castle_letter(a_[0])
            if cl is None:
                continue
            upper, wing, val, src = cl
            nletters += 1
            # the right this letter stands for: the one whose file it is, or (for k/q) the last right of that wing found
            # present before the write
            before = [x for x in asked if x[0] < e_.ncond and x[2] and x[1][1] == wing]
            key = before[-1][1] if before else None
            if src is not None and len(src[1]) > 3 and src[1][3][0] == "enum":
                k2 = (src[1][3][2], wing)
                key = k2 if any(x[1] == k2 for x in before) else None
            ctx.check(key is not None, "writer:letter-only-for-held-right",
                      "a castling letter is written for a right that was not tested to be present (%s)" % wing, where)
            if key is None:
                continue
            seq.append(key)
            letters[wing].add(val)
            if val == "<file letter>":
                ctx.check(bool(alt) and alt[-1] == 1, "writer:file-letter-only-shredder", "a file letter is written for a castling right outside Shredder (alternate) mode", where)
                okf = src is not None and src[2] == wing and len(src[1]) > 3 and src[1][3] == ("enum", COLOR, key[0])
                ctx.check(okf, "writer:file-letter-of-that-right", "the file letter written for %s %s is not the file of that right" % key, where)
            else:
                ctx.check(bool(alt) and alt[-1] == 0, "writer:kq-only-plain", "'%s' is written for a castling right in Shredder (alternate) mode" % val, where)
            ctx.check((key[0] == "White") == upper, "writer:castle-case", "a castling letter is not upper-cased exactly for White", where)
            seen_up.add(upper)
        pos = [ORDER.index(k) for k in seq]
        ctx.check(pos == sorted(set(pos)), "writer:short-before-long",
                  "castling letters are not written White before Black and, per colour, short before long: %s" % seq, where)
        # every right found present gets its letter, every right found absent gets none
        held = [k for i_, k, pr in asked if pr]
        ctx.check(sorted(held) == sorted(seq), "writer:held-right-written", "held rights %s but letters for %s" % (held, seq), where)
        # (`-` exactly when no letter is written: the record rule above requires the field to be letters or a dash, never
        # both or neither)
    ctx.floor("castling letters written on Display's paths", nletters, 8)
    ctx.check(all(v == {True, False} for v in decided.values()), "writer:all-four-rights-asked",
              "Display does not ask for each of the four castling rights: %s" % {k: sorted(v) for k, v in decided.items()}, where)
    ok = letters == {"short": {"<file letter>", "k"}, "long": {"<file letter>", "q"}}
    ctx.check(ok, "writer:castle-letters", "the writer's castling letters are not {file letter | 'k'} for short and {file letter | 'q'} for long: %s" % {k: sorted(v) for k, v in letters.items()}, where,
              sample={"writer": {k: sorted(v) for k, v in letters.items()}})
    ctx.check(seen_up == {True, False}, "writer:castle-cases", "castling letter writer lacks an upper- or lower-case path", where)
    # reader
    cb = f.need(g.stage_for(B + "::from_fen", "castling"))
    # loop-free private helpers only this stage uses (the decoding of one letter moved into a function of its own) are
    # read as part of it whatever their size
    from .names import names as role_names
    try:
        own_c = role_names(f).exclusive_helpers(cb.key)
    except Exception:
        own_c = set()
    cps = sym.SymExec(f, cb, inline=lambda n: False if n in g.W else (True if n in own_c else None), peel=True, count_next=True, max_paths=200000).run()
    plain = {}
    shred = 0
    for p in cps:
        for e in p.events:
            if e.kind == "call" and (e.depth == 0 or e.fn.startswith(cb.key + "::{closure")) and g.wrole.get(e.name) == "castling":
                colour, wing, val = e.args[1], e.args[2], e.args[3]
                conds = p.conds[:e.ncond]
                sh = [c[1] for c in conds if c[0] == ("param", "shredder")]
                lower = [c for c in conds if c[0][0] == "call" and c[0][1] == "char::to_ascii_lowercase" and isinstance(c[1], int)]
                up = [c for c in conds if c[0][0] == "call" and c[0][1] == "char::is_ascii_uppercase"]
                if up:
                    is_up = bool(up[-1][1])
                else:
                    # case decided by comparing the letter with 'A'..'Z'
                    from ..ranges import Ranger
                    # the letter this call is about: named in the stored value, else the one examined last before the call
                    lc = []
                    for x_ in list(e.args[1:]):
                        lc += sym.subterms(x_, lambda y: y[0] == "call" and y[1] == "char::to_ascii_lowercase")
                    if not lc:
                        for c_ in reversed(conds):
                            lc = sym.subterms(c_[0], lambda y: y[0] == "call" and y[1] == "char::to_ascii_lowercase")
                            if lc:
                                break
                    cv = lc[0][2][0] if lc else None
                    if cv is None:
                        # the letter examined as it is (`match c { 'k' | 'K' => .. }`): the character the loop took last
                        for c_ in reversed(conds):
                            cs_ = sym.subterms(c_[0], lambda y: y[0] in ("nth", "elem") and sym.contains(y, lambda z: z[0] == "chars"))
                            if cs_:
                                cv = cs_[0]
                                break
                    while cv is not None and cv[0] in ("ref", "deref"):
                        cv = cv[1]
                    bd = Ranger(f, {cv: "char"}).bounds(cv, conds) if cv is not None else None
                    is_up = None
                    if bd is not None and None not in bd:
                        if bd[0] > bd[1]:
                            continue
                        if 65 <= bd[0] and bd[1] <= 90:
                            is_up = True
                        elif bd[1] < 65 or bd[0] > 90:
                            is_up = False
                okcol = is_up is not None and ((colour == ("enum", COLOR, "White")) == is_up)
                ctx.check(okcol, "reader:castle-case", "a castling letter's colour is not White exactly for upper-case", loc(cb))
                letter = chr(lower[-1][1]) if lower else None
                if letter is None and not up:
                    # the path fixed the character itself
                    if bd is not None and None not in bd and bd[0] == bd[1]:
                        letter = chr(bd[0]).lower()
                if sh and sh[-1] == 0 and letter is not None:
                    fileval = dict(val[4])["0"] if val[0] == "agg" else None
                    if letter in plain and plain[letter] != (wing, fileval):
                        plain[letter + "'"] = (wing, fileval)        # the two cases of one letter disagree
                    else:
                        plain[letter] = (wing, fileval)
                elif sh and sh[-1] == 1:
                    shred += 1
                    fileval = dict(val[4])["0"] if val[0] == "agg" else None
                    via_table = fileval is not None and sym.contains(fileval, lambda y: y[0] == "call" and (y[1].endswith("TryInto<U>>::try_into") or
                                                                                                          (y[1].endswith("::try_from") and "file::File" in y[1]))) and \
                        sym.contains(fileval, lambda y: y[0] == "call" and y[1] == "char::to_ascii_lowercase")
                    from .c06 import natom
                    la, lpol = natom(L.lift(wing), 1)
                    side_ok = la[0] == "bin" and la[1] == "Lt" and la[2][0] == "file" and la[2][1][0] == "king" and lpol is True
                    if wing in (sym.TRUE, sym.FALSE):
                        cmpc = []
                        for c in conds:
                            ca, cpol = natom(L.lift(c[0]), c[1])
                            if ca[0] == "bin" and ca[1] == "Lt" and ca[2][0] == "file" and ca[2][1][0] == "king":
                                cmpc.append(cpol)
                        side_ok = bool(cmpc) and ((wing == sym.TRUE) == cmpc[-1])
                    ctx.check(via_table and side_ok, "reader:shredder-letter", "a Shredder castling letter is not decoded through the File table with short <=> king file < rook file", loc(cb),
                              sample={"reader(shredder)": "file = lowercase(c).try_into(); short = king.file() < file"} if shred == 1 else None)
    want = {"k": (sym.TRUE, ("enum", FILE, "H")), "q": (sym.FALSE, ("enum", FILE, "A"))}
    ctx.check(plain == want, "reader:plain-letters", "plain FEN letters do not mean k => (short, h-file), q => (long, a-file): %s"
              % {k: (sym.show(v[0]), sym.show(v[1]) if v[1] else None) for k, v in plain.items()}, loc(cb), sample={"reader(plain)": "k->(short,H) q->(long,A)"})
    ctx.check(shred >= 2, "reader:shredder-paths", "no Shredder-FEN castling paths found", loc(cb))
    # ------------------------------------------------------------------ en-passant rank everywhere
    ctx.rule("en-passant-rank-agreement")
    from .names import names as role_names
    RN = role_names(f)
    ep_validator, pawn_gen = g.validator("ep"), RN.generators["Pawn"]
    names = [DISPLAY, g.stage_for(B + "::from_fen", "ep"), g.stage_for(gatemod.BUILDER + "::build", "ep"), ep_validator, pawn_gen,
             RN.effective_ep] + [k for k in f.bodies if f.bodies[k].kind == "Closure" and
                                                       (k.startswith(gatemod.BUILDER + "::from_board::") or k.startswith(B + "::play_unchecked::"))]
    rr = relranks_with_ep(f, L, names)
    ctx.note("relative ranks paired with the en-passant file: %s" % {k: sorted(v) for k, v in rr.items()})
    target = {}
    for k, v in rr.items():
        ranks = {r for r, _ in v}
        target[k] = ranks
    canonical = [k for k, v in target.items() if 5 in v]
    ctx.check(len(canonical) >= 6, "ep-rank:sites", "fewer than six sites convert the en-passant file with the canonical rank (6th relative to the side to move): %s" % target,
              sample={"sites": sorted(canonical)})
    for k, v in target.items():
        if k in (ep_validator.rsplit("::", 1)[-1], pawn_gen.rsplit("::", 1)[-1]):
            continue            # these also name the origin / victim squares
        ctx.check(v == {5}, "ep-rank:%s" % k, "%s pairs the en-passant file with relative rank(s) %s, not only the 6th relative to the side to move" % (k, sorted(v)))
    # parse: set only under the rank guard
    check_reader_ep_guard(ctx, f, g, L)
    ctx.assumptions += ["integer formatting/parsing of the clocks by core", "C19's enum<->char tables are inverse bijections"]
    # round-trip equality compares hash, checkers and pins too: the rules that keep them a function of the
    # position (owned by C03 and C10) are prerequisites of this property and are re-run here
    from . import c03, c10, c06
    expl = ctx.explanation
    c03.run(ctx)
    c10.run(ctx)
    # parsing back what was formatted succeeds only if the validators accept every board the library hands out:
    # a validator stricter than the property's list (C06 owns the equivalence rule) rejects reachable positions
    c06.check_validators(ctx, f, L, g)
    # ... and only if the successors made by play / null_move keep the clocks in the range the reader accepts (C02, C14)
    from . import c02, c14, c19
    c02.run(ctx)
    c14.run(ctx)
    # ... and the en-passant square, the side and the Shredder file letters go through the text forms of Square, Color and
    # File (C19)
    c19.run(ctx)
    ctx.explanation = expl
