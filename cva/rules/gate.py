"""The validation gate of the two constructors (shared by C06, C08, C09).

Roles: board (placement + side), derived (checkers/pins), castling, ep, half, full.  A *stage*
is a function taking `&mut Board` and returning a Result; its role is read off what it writes
(which position writers it reaches, which Board fields it assigns).  A *validator* is a
`&Board -> bool` function; its role is the most specific state it reads.  On every Ok path of
a constructor, for every role, the last write of that role must be followed by a validator of
that role taken on its true edge (T1 MUST-PASS, decided on enumerated paths)."""
from .. import sym, lift
from . import zob
from .common import local_callees, B, transitive_field_access, reachable_bodies, iter_places, place_fields, loc
from ..facts import callee_name

BUILDER = "cozy_chess::board::builder::BoardBuilder"
ROLES = ["board", "derived", "castling", "ep", "half", "full"]
# "clocks in range" (C06): the half-move clock is at most 100, the full-move number at least 1.  A constructor may test
# this through the validator functions or directly on the value it stores; both count as the validation of that role.
CLOCK_RANGE = {"half": (0, 100, "u8"), "full": (1, 65535, "u16")}


class Gate:
    def __init__(self, ctx, f):
        self.f = f
        self.L = lift.Lifter(f)
        self.roles = zob.Roles(ctx, f)
        L = self.L
        self.fld = {g: fieldname(t) for (g, t, p, pt) in L.templates}
        self.W = {k for k in self.roles.writers if f.bodies[k].j.get("impl_self") == self.roles.inner_ty}
        # writer roles by arity/what they write
        se = sym.SymExec(f, f.need(B + "::play_unchecked"))
        self.wrole = {}
        for w in self.W:
            b = f.bodies[w]
            ms = (se.modset(w) or {}).get(1) or set()
            if b.argc == 4 and "Piece" in b.locals[2]["ty"]:
                self.wrole[w] = "board"
            elif b.argc == 1:
                self.wrole[w] = "board"
            elif b.argc == 4:
                self.wrole[w] = "castling"
            elif b.argc == 2:
                self.wrole[w] = "ep"
        self._stage = {}
        self._val = {}
        self._isstage = {}
        from .common import checkers_pins_definition
        self._defn = set(checkers_pins_definition(f))

    # ---- classification
    def validator_role(self, name):
        if name in self._val:
            return self._val[name]
        b = self.f.bodies.get(name)
        r = None
        if b is not None and b.locals[0]["ty"] == "bool" and b.argc == 1 and b.locals[1]["ty"].lstrip("&") == B:
            acc = transitive_field_access(self.f, [name], kinds=("read", "ref"))
            fields = {fl for (adt, fl) in acc if adt in (B, self.roles.inner_ty)}
            direct = set()
            for kind, pl, bi, si, sp in iter_places(b):
                for adt, fl in place_fields(pl):
                    if adt == B:
                        direct.add(fl)
            for role, key in (("full", "fullmove_number"), ("half", "halfmove_clock"), ("ep", "en_passant"), ("castling", "castle_rights")):
                if self.fld[key] in fields:
                    r = role
                    break
            if r is None:
                # reads the stored checkers and pinned sets (through their getters or directly) and compares: derived
                bfields = {fl for (adt, fl) in acc if adt == B}
                if self.fld["checkers"] in bfields and self.fld["pinned"] in bfields:
                    r = "derived"
                else:
                    r = "board"
        self._val[name] = r
        return r

    def field_roles(self):
        """board/state field -> role of the gate it belongs to"""
        if "field_roles" not in self._stage:
            m = {self.fld["halfmove_clock"]: "half", self.fld["fullmove_number"]: "full", self.fld["pinned"]: "derived",
                 self.fld["checkers"]: "derived"}
            for key, role in (("en_passant", "ep"), ("castle_rights", "castling")):
                m[self.fld[key]] = role
            for fl in self.roles.state_fields:
                if fl not in m and fl != self.roles.hash_field:
                    m[fl] = "board"
            self._stage["field_roles"] = m
        return self._stage["field_roles"]

    def validator_reads(self, name):
        """roles whose fields a validator reads (transitively): its verdict is about the board as it stands when it runs"""
        key = ("reads", name)
        if key not in self._stage:
            acc = transitive_field_access(self.f, [name], kinds=("read", "ref"))
            fr = self.field_roles()
            self._stage[key] = {fr[fl] for (adt, fl) in acc if adt in (B, self.roles.inner_ty) and fl in fr}
        return self._stage[key]

    def stage_reads(self, name):
        """what the validators a stage runs read"""
        key = ("sreads", name)
        if key not in self._stage:
            out = set()
            for k in reachable_bodies(self.f, [name]):
                if k != name and self.validator_role(k) is not None and not self.is_stage(k):
                    out |= self.validator_reads(k)
            self._stage[key] = out
        return self._stage[key]

    def stage_roles(self, name):
        """roles a `&mut Board` stage may write (transitively)"""
        if name in self._stage:
            return self._stage[name]
        out = set()
        for k in reachable_bodies(self.f, [name]):
            b = self.f.bodies[k]
            for bb, t in b.calls():
                cn = callee_name(t)
                if cn in self.wrole:
                    out.add(self.wrole[cn])
            for kind, pl, bi, si, sp in iter_places(b):
                if kind in ("write", "refmut"):
                    for adt, fl in place_fields(pl):
                        if adt == B:
                            if fl == self.fld["halfmove_clock"]:
                                out.add("half")
                            elif fl == self.fld["fullmove_number"]:
                                out.add("full")
                            elif fl in (self.fld["pinned"], self.fld["checkers"]):
                                out.add("derived")
        self._stage[name] = out
        return out

    def is_stage(self, name):
        """a helper of a constructor that fills part of a `&mut Board` (whatever it is called and however it reports
        failure: Result, Option, bool or nothing)"""
        if name in self._isstage:
            return self._isstage[name]
        b = self.f.bodies.get(name)
        r = False
        if b is not None and b.kind in ("Fn", "AssocFn") and b.crate.startswith("cozy_chess") and b.promoted is None \
                and name not in self.W and name not in self._defn and name not in (B + "::from_fen", BUILDER + "::build") \
                and not self.f.fns.get(name, {}).get("pub") \
                and any(b.locals[i]["ty"] == "&mut " + B for i in range(1, b.argc + 1)):
            rt = b.locals[0]["ty"]
            if rt.startswith("core::result::Result<") or rt.startswith("core::option::Option<") or rt in ("bool", "()"):
                self._isstage[name] = False      # recursion guard
                r = bool(self.stage_roles(name))
        self._isstage[name] = r
        return r

    # ---- private helpers by role
    def validators(self):
        """{role: [validator functions]} among everything the two constructors reach"""
        if "validators" not in self._stage:
            out = {}
            # who calls whom (closures count as their function): a predicate only other validators call is a part of them
            callers = {}
            for k2, b2 in self.f.bodies.items():
                if b2.crate.startswith("cozy_chess"):
                    owner = k2.split("::{closure")[0]
                    for bb_, t_ in b2.calls():
                        cn = callee_name(t_)
                        if cn:
                            callers.setdefault(cn, set()).add(owner)
            for k in reachable_bodies(self.f, [B + "::from_fen", BUILDER + "::build"]):
                r = self.validator_role(k)
                if r is not None and self.f.bodies[k].crate == "cozy_chess" and not self.f.fns.get(k, {}).get("pub"):
                    cs = callers.get(k, set()) - {k}
                    if cs and all(self.validator_role(c) is not None for c in cs):
                        continue
                    out.setdefault(r, []).append(k)
            self._stage["validators"] = {r: sorted(v) for r, v in out.items()}
        return self._stage["validators"]

    def validator(self, role):
        v = self.validators().get(role, [])
        if len(v) != 1:
            from ..facts import MissingAnchor
            raise MissingAnchor("the validator of the %s part of a board (found %s)" % (role, [x.rsplit("::", 1)[-1] for x in v]))
        return v[0]

    def stages(self, ctor):
        """stage functions a constructor reaches (not looking inside stages)"""
        key = ("stages", ctor)
        if key not in self._stage:
            out = []
            seen = set()
            work = [ctor]
            while work:
                k = work.pop()
                for k2, b in self.f.bodies.items():
                    if k2 == k or k2.startswith(k + "::{closure"):
                        # called directly, or mentioned as a function value (a table of stage functions walked in order)
                        for cn in sorted(local_callees(self.f, b)):
                            if not cn or cn in seen or cn not in self.f.bodies:
                                continue
                            seen.add(cn)
                            if self.is_stage(cn):
                                out.append(cn)
                            elif self.f.bodies[cn].crate == "cozy_chess" and self.f.bodies[cn].kind in ("Fn", "AssocFn") and cn not in self.W \
                                    and self.validator_role(cn) is None:
                                work.append(cn)
            self._stage[key] = sorted(out)
        return self._stage[key]

    def stage_kind(self, name):
        """what a stage fills: placement / side / castling / ep / half / full (a set)"""
        out = set()
        for k in reachable_bodies(self.f, [name]):
            for bb_, t_ in self.f.bodies[k].calls():
                cn = callee_name(t_)
                if cn in self.W:
                    wb = self.f.bodies[cn]
                    if wb.argc == 4 and "Piece" in wb.locals[2]["ty"]:
                        out.add("placement")
                    elif wb.argc == 1:
                        out.add("side")
                    elif wb.argc == 4:
                        out.add("castling")
                    elif wb.argc == 2:
                        out.add("ep")
        roles = self.stage_roles(name)
        out |= {r for r in roles if r in ("half", "full", "derived")}
        return out

    def stage_for(self, ctor, kind):
        """the stage of `ctor` that fills `kind` (the one doing nothing else when several do)"""
        c = [s for s in self.stages(ctor) if kind in self.stage_kind(s)]
        if len(c) > 1:
            c2 = [s for s in c if self.stage_kind(s) <= {kind, "derived"}]
            c = c2 or c
        if len(c) != 1:
            from ..facts import MissingAnchor
            raise MissingAnchor("the %s stage of %s (found %s)" % (kind, ctor.rsplit("::", 1)[-1], [x.rsplit("::", 1)[-1] for x in c]))
        return c[0]

    def ret_kind(self, name):
        rt = self.f.bodies[name].locals[0]["ty"]
        if rt.startswith("core::result::Result<"):
            return "result"
        if rt.startswith("core::option::Option<"):
            return "option"
        return rt

    def call_succeeded(self, p, e):
        """the stage call `e` reported success on path p"""
        k = self.ret_kind(e.name)
        if k == "()":
            return True
        if k in ("option", "result"):
            # what the path's decisions leave of the discriminant of the returned value
            poss = {0, 1}
            d = ("discr", e.ret)
            for c in p.conds:
                x, v = c[0], c[1]
                if x == d:
                    poss &= {v} if isinstance(v, int) else ({0, 1} - set(v[1]))
                elif x[0] == "bin" and x[1] in ("Eq", "Ne") and d in (x[2], x[3]) and isinstance(v, int):
                    o = x[3] if x[2] == d else x[2]
                    if o[0] == "int":
                        poss = poss & {o[1]} if (x[1] == "Eq") == bool(v) else poss - {o[1]}
            if poss == ({1} if k == "option" else {0}):
                return True
        for c in p.conds:
            if not sym.contains(c[0], lambda x: x == e.ret):
                continue
            x = c[0]
            if k == "bool":
                if x == e.ret and c[1] == 1:
                    return True
                continue
            through_try = sym.contains(x, lambda y: y[0] == "trybranch")
            if through_try or k == "result":
                if c[1] == 0:
                    return True
            elif k == "option" and x == ("discr", e.ret) and c[1] == 1:
                return True
        return False

    def path_succeeds(self, name, p):
        """path p of stage `name` returns success; -> (bool, role validated by the returned expression or None)"""
        if p.end != "return" or p.ret is None:
            return False, None
        k = self.ret_kind(name)
        r = p.ret
        if r[0] == "call" and r[1] != name and self.is_stage(r[1]) and self.ret_kind(r[1]) == k and k in ("result", "option", "bool"):
            # the stage ends by handing over to another stage and returns its verdict: it succeeds when that one does, and
            # what that one validates is validated last
            return True, ("stage", r[1])
        if k == "result":
            return (r[0] == "agg" and r[2] == "Ok"), None
        if k == "option":
            return (r[0] == "agg" and r[2] == "Some"), None
        if k == "()":
            return True, None
        if k == "bool":
            if r == sym.TRUE:
                return True, None
            if r[0] == "call" and self.validator_role(r[1]) is not None:
                return True, self.validator_role(r[1])      # `.. ; board.x_is_valid()` as the tail expression
        return False, None

    def path_fails(self, name, p):
        """path p of stage `name` reports failure by itself (Err / None / false)"""
        if p.end != "return" or p.ret is None:
            return False
        k = self.ret_kind(name)
        r = p.ret
        if k == "result":
            return r[0] == "agg" and r[2] == "Err"
        if k == "option":
            return r[0] == "agg" and r[2] == "None"
        if k == "bool":
            return r == sym.FALSE
        return False

    def inline_stages(self, name):
        """clock fields a constructor fills in its own body: {(fn, bb) of the text-parsing call: role}, read off its
        Ok paths (the parsed value flows into an assignment of the half-move or full-move field)"""
        key = ("inline", name)
        if key in self._stage:
            return self._stage[key]
        self._stage[key] = {}
        b, paths = self.ok_paths(name)
        out = {}
        for p in paths:
            if p.end != "return" or p.ret is None or not (p.ret[0] == "agg" and p.ret[2] == "Ok"):
                continue
            for e in p.events:
                if e.kind != "assign" or e.depth != 0:
                    continue
                role = "half" if e.name == self.fld["halfmove_clock"] else ("full" if e.name == self.fld["fullmove_number"] else None)
                if role is None or e.args[0][0] in ("int", "bbconst"):
                    continue
                src = [x for x in p.events if x.kind == "call" and x.depth == 0 and x.idx < e.idx and x.name == "str::parse"
                       and x.ret is not None and sym.contains(e.args[0], lambda y: y == x.ret)]
                if src:
                    out[(src[-1].fn, src[-1].bb)] = role
        self._stage[key] = out
        return out

    # ---- path analysis
    def ok_paths(self, name):
        b = self.f.need(name)

        def noin(n):
            if self.is_stage(n) or self.validator_role(n) is not None or n in self.W:
                return False
            bb_ = self.f.bodies.get(n)
            if n in self._defn:
                return False
            return None
        paths = sym.SymExec(self.f, b, inline=noin, max_paths=200000, record_assigns=True).run()
        return b, paths

    def timeline(self, p, depth_summary=True):
        """-> list of (idx, 'W'|'V', role set, label) for one path"""
        out = []
        top = p.events[0].fn.split("::{closure")[0] if p.events else None
        for e in p.events:
            # the constructor's own statements and those of its closures (`a().and_then(|_| b())` runs b inside one)
            if e.depth != 0 and not (top and e.fn.startswith(top + "::{closure")):
                continue
            if e.kind == "assign":
                fl = e.name
                role = None
                if fl == self.fld["halfmove_clock"]:
                    role = "half"
                elif fl == self.fld["fullmove_number"]:
                    role = "full"
                elif fl in (self.fld["pinned"], self.fld["checkers"]):
                    role = "derived"
                if role and not (e.args[0][0] == "int" or e.args[0][0] == "bbconst"):
                    out.append((e.idx, "W", {role}, "assign " + fl))
                    if role in CLOCK_RANGE:
                        # the stored value is known, from the decisions of this path, to lie in the role's range
                        from ..ranges import Ranger
                        lo_, hi_, ty_ = CLOCK_RANGE[role]
                        bd = Ranger(self.f, {e.args[0]: ty_}).bounds(e.args[0], p.conds)
                        if bd is not None and lo_ <= bd[0] and bd[1] <= hi_:
                            out.append((e.idx + 0.25, "V", {role}, "stored value within %d..%d" % (max(lo_, bd[0]), min(hi_, bd[1]))))
                elif role and e.args[0][0] in ("int", "bbconst") and False:
                    pass
                continue
            if e.kind != "call":
                continue
            if e.name in self.wrole:
                out.append((e.idx, "W", {self.wrole[e.name]}, e.name.rsplit("::", 1)[-1]))
            elif self.is_stage(e.name):
                wr = self.stage_roles(e.name)
                out.append((e.idx, "W", set(wr), e.name.rsplit("::", 1)[-1]))
                if depth_summary:
                    val = self.stage_validated(e.name)
                    # the stage must have succeeded on this path
                    succeeded = self.call_succeeded(p, e)
                    if val and succeeded:
                        out.append((e.idx + 0.5, "V", set(val), e.name.rsplit("::", 1)[-1] + " (validated inside)"))
            else:
                vr = self.validator_role(e.name)
                if vr is not None:
                    passed = any(c[0] == e.ret and c[1] == 1 for c in p.conds)
                    if passed:
                        out.append((e.idx, "V", {vr}, e.name.rsplit("::", 1)[-1]))
        return out

    def stage_validated(self, name):
        """roles that every Ok path of the stage validates after its last write of that role"""
        key = ("val", name)
        if key in self._stage:
            return self._stage[key]
        self._stage[key] = set()
        b, paths = self.ok_paths(name)
        res = None
        for p in paths:
            okp, tailrole = self.path_succeeds(name, p)
            if not okp:
                continue
            tl = self.timeline(p, depth_summary=False)
            if isinstance(tailrole, tuple) and tailrole[0] == "stage":
                tl.append((10 ** 9, "V", set(self.stage_validated(tailrole[1])), tailrole[1].rsplit("::", 1)[-1] + " as the returned value (validated inside)"))
            elif tailrole:
                tl.append((10 ** 9, "V", {tailrole}, "validator as the returned value"))
            ok_roles = set()
            for r in ROLES:
                lastw = max([i for i, k, rs, _ in tl if k == "W" and r in rs] + [-1])
                if any(k == "V" and r in rs and i > lastw for i, k, rs, _ in tl):
                    ok_roles.add(r)
            res = ok_roles if res is None else (res & ok_roles)
        self._stage[key] = res or set()
        return self._stage[key]

    def check_gate(self, ctx, name, tag):
        b, paths = self.ok_paths(name)
        ctx.saw("%s: %d paths" % (b.key, len(paths)))
        n = 0
        val_roles = None
        for p in paths:
            if p.end != "return" or not (p.ret[0] == "agg" and p.ret[2] == "Ok"):
                continue
            n += 1
            tl = self.timeline(p)
            written = set()
            for i, k, rs, _ in tl:
                if k == "W":
                    written |= rs
            vset = set()
            for r in ROLES:
                lastw = max([i for i, k, rs, _ in tl if k == "W" and r in rs] + [-1])
                vs = [lab for i, k, rs, lab in tl if k == "V" and r in rs and i > lastw]
                if vs:
                    vset.add(r)
                if lastw >= 0:
                    ctx.check(bool(vs), "%s:gate:%s" % (tag, r),
                              "%s can return Ok after writing the %s part of the state without a passed %s validator after the last such write (timeline: %s)"
                              % (name.rsplit("::", 1)[-1], r, r, [(k, sorted(rs), lab) for i, k, rs, lab in tl]), loc(b),
                              sample={"constructor": tag, "role": r, "validated by": vs[:1]})
            # a validator's verdict stands for the finished board only if nothing it read is written afterwards (a stage
            # moved behind a validator that reads what the stage computes leaves that validator looking at a blank)
            top_ = p.events[0].fn.split("::{closure")[0] if p.events else None
            for e_ in p.events:
                if e_.kind != "call" or (e_.depth != 0 and not (top_ and e_.fn.startswith(top_ + "::{closure"))):
                    continue
                if self.is_stage(e_.name):
                    rd, lab_ = (self.stage_reads(e_.name) if self.stage_validated(e_.name) and self.call_succeeded(p, e_) else set()), e_.name.rsplit("::", 1)[-1]
                elif self.validator_role(e_.name) is not None and any(c[0] == e_.ret and c[1] == 1 for c in p.conds):
                    rd, lab_ = self.validator_reads(e_.name), e_.name.rsplit("::", 1)[-1]
                else:
                    continue
                late = sorted({r_ for i, k, rs, lb in tl if k == "W" and i > e_.idx + 0.5 for r_ in rs if r_ in rd})
                ctx.check(not late, "%s:gate:fresh-inputs:%s" % (tag, lab_),
                          "%s validates in %s and writes the %s part of the state, which that validation reads, afterwards: the verdict was about an unfinished board"
                          % (name.rsplit("::", 1)[-1], lab_, late), loc(b), sample={"constructor": tag, "validated in": lab_, "reads": sorted(rd)} if n == 1 else None)
            ctx.check(set(ROLES) <= written, "%s:writes-all-roles" % tag,
                      "%s returns Ok without establishing %s" % (name.rsplit("::", 1)[-1], sorted(set(ROLES) - written)), loc(b))
            val_roles = vset if val_roles is None else (val_roles & vset)
        ctx.floor("%s Ok paths" % tag, n, 1)
        return val_roles or set()


def fieldname(t):
    """last field of a getter template"""
    e = t
    while e[0] in ("index",):
        e = e[1]
    return e[2] if e[0] == "field" else None
