"""The validation gate of the two constructors (shared by C06, C08, C09).

Roles: board (placement + side), derived (checkers/pins), castling, ep, half, full.  A *stage*
is a function taking `&mut Board` and returning a Result; its role is read off what it writes
(which position writers it reaches, which Board fields it assigns).  A *validator* is a
`&Board -> bool` function; its role is the most specific state it reads.  On every Ok path of
a constructor, for every role, the last write of that role must be followed by a validator of
that role taken on its true edge (T1 MUST-PASS, decided on enumerated paths)."""
from .. import sym, lift
from . import zob
from .common import B, transitive_field_access, reachable_bodies, iter_places, place_fields, loc
from ..facts import callee_name

BUILDER = "cozy_chess::board::builder::BoardBuilder"
ROLES = ["board", "derived", "castling", "ep", "half", "full"]


class Gate:
    def __init__(self, ctx, f):
        self.f = f
        self.L = lift.Lifter(f)
        self.roles = zob.Roles(ctx, f)
        L = self.L
        self.fld = {g: fieldname(t) for (g, t, p, pt) in L.templates}
        self.W = {k for k in self.roles.writers if f.bodies[k].j.get("impl_self") == self.roles.inner_ty}
        # writer roles by arity/what they write
        se = sym.SymExec(f, f.need(B + "::play_unchecked"))
        self.wrole = {}
        for w in self.W:
            b = f.bodies[w]
            ms = (se.modset(w) or {}).get(1) or set()
            if b.argc == 4 and "Piece" in b.locals[2]["ty"]:
                self.wrole[w] = "board"
            elif b.argc == 1:
                self.wrole[w] = "board"
            elif b.argc == 4:
                self.wrole[w] = "castling"
            elif b.argc == 2:
                self.wrole[w] = "ep"
        self._stage = {}
        self._val = {}
        from .common import checkers_pins_definition
        self._defn = set(checkers_pins_definition(f))

    # ---- classification
    def validator_role(self, name):
        if name in self._val:
            return self._val[name]
        b = self.f.bodies.get(name)
        r = None
        if b is not None and b.locals[0]["ty"] == "bool" and b.argc == 1 and b.locals[1]["ty"].lstrip("&") == B:
            acc = transitive_field_access(self.f, [name], kinds=("read", "ref"))
            fields = {fl for (adt, fl) in acc if adt in (B, self.roles.inner_ty)}
            direct = set()
            for kind, pl, bi, si, sp in iter_places(b):
                for adt, fl in place_fields(pl):
                    if adt == B:
                        direct.add(fl)
            for role, key in (("full", "fullmove_number"), ("half", "halfmove_clock"), ("ep", "en_passant"), ("castling", "castle_rights")):
                if self.fld[key] in fields:
                    r = role
                    break
            if r is None:
                # reads the stored checkers/pinned through their getters and compares: derived
                called = {callee_name(t) for bb, t in b.calls()}
                if (B + "::checkers") in called and (B + "::pinned") in called:
                    r = "derived"
                else:
                    r = "board"
        self._val[name] = r
        return r

    def stage_roles(self, name):
        """roles a `&mut Board` stage may write (transitively)"""
        if name in self._stage:
            return self._stage[name]
        out = set()
        for k in reachable_bodies(self.f, [name]):
            b = self.f.bodies[k]
            for bb, t in b.calls():
                cn = callee_name(t)
                if cn in self.wrole:
                    out.add(self.wrole[cn])
            for kind, pl, bi, si, sp in iter_places(b):
                if kind in ("write", "refmut"):
                    for adt, fl in place_fields(pl):
                        if adt == B:
                            if fl == self.fld["halfmove_clock"]:
                                out.add("half")
                            elif fl == self.fld["fullmove_number"]:
                                out.add("full")
                            elif fl in (self.fld["pinned"], self.fld["checkers"]):
                                out.add("derived")
        self._stage[name] = out
        return out

    def is_stage(self, name):
        b = self.f.bodies.get(name)
        if b is None or b.kind not in ("Fn", "AssocFn"):
            return False
        if not b.locals[0]["ty"].startswith("core::result::Result<"):
            return False
        return any(b.locals[i]["ty"] == "&mut " + B for i in range(1, b.argc + 1))

    # ---- path analysis
    def ok_paths(self, name):
        b = self.f.need(name)

        def noin(n):
            if self.is_stage(n) or self.validator_role(n) is not None or n in self.W:
                return False
            bb_ = self.f.bodies.get(n)
            if n in self._defn:
                return False
            return None
        paths = sym.SymExec(self.f, b, inline=noin, max_paths=200000, record_assigns=True).run()
        return b, paths

    def timeline(self, p, depth_summary=True):
        """-> list of (idx, 'W'|'V', role set, label) for one path"""
        out = []
        for e in p.events:
            if e.depth != 0:
                continue
            if e.kind == "assign":
                fl = e.name
                role = None
                if fl == self.fld["halfmove_clock"]:
                    role = "half"
                elif fl == self.fld["fullmove_number"]:
                    role = "full"
                elif fl in (self.fld["pinned"], self.fld["checkers"]):
                    role = "derived"
                if role and not (e.args[0][0] == "int" or e.args[0][0] == "bbconst"):
                    out.append((e.idx, "W", {role}, "assign " + fl))
                elif role and e.args[0][0] in ("int", "bbconst") and False:
                    pass
                continue
            if e.kind != "call":
                continue
            if e.name in self.wrole:
                out.append((e.idx, "W", {self.wrole[e.name]}, e.name.rsplit("::", 1)[-1]))
            elif self.is_stage(e.name):
                wr = self.stage_roles(e.name)
                out.append((e.idx, "W", set(wr), e.name.rsplit("::", 1)[-1]))
                if depth_summary:
                    val = self.stage_validated(e.name)
                    # the stage must have succeeded on this path
                    succeeded = any(c[1] == 0 and sym.contains(c[0], lambda x: x == e.ret) for c in p.conds)
                    if val and succeeded:
                        out.append((e.idx + 0.5, "V", set(val), e.name.rsplit("::", 1)[-1] + " (validated inside)"))
            else:
                vr = self.validator_role(e.name)
                if vr is not None:
                    passed = any(c[0] == e.ret and c[1] == 1 for c in p.conds)
                    if passed:
                        out.append((e.idx, "V", {vr}, e.name.rsplit("::", 1)[-1]))
        return out

    def stage_validated(self, name):
        """roles that every Ok path of the stage validates after its last write of that role"""
        key = ("val", name)
        if key in self._stage:
            return self._stage[key]
        self._stage[key] = set()
        b, paths = self.ok_paths(name)
        res = None
        for p in paths:
            if p.end != "return" or not (p.ret[0] == "agg" and p.ret[2] == "Ok"):
                continue
            tl = self.timeline(p, depth_summary=False)
            ok_roles = set()
            for r in ROLES:
                lastw = max([i for i, k, rs, _ in tl if k == "W" and r in rs] + [-1])
                if any(k == "V" and r in rs and i > lastw for i, k, rs, _ in tl):
                    ok_roles.add(r)
            res = ok_roles if res is None else (res & ok_roles)
        self._stage[key] = res or set()
        return self._stage[key]

    def check_gate(self, ctx, name, tag):
        b, paths = self.ok_paths(name)
        ctx.saw("%s: %d paths" % (b.key, len(paths)))
        n = 0
        val_roles = None
        for p in paths:
            if p.end != "return" or not (p.ret[0] == "agg" and p.ret[2] == "Ok"):
                continue
            n += 1
            tl = self.timeline(p)
            written = set()
            for i, k, rs, _ in tl:
                if k == "W":
                    written |= rs
            vset = set()
            for r in ROLES:
                lastw = max([i for i, k, rs, _ in tl if k == "W" and r in rs] + [-1])
                vs = [lab for i, k, rs, lab in tl if k == "V" and r in rs and i > lastw]
                if vs:
                    vset.add(r)
                if lastw >= 0:
                    ctx.check(bool(vs), "%s:gate:%s" % (tag, r),
                              "%s can return Ok after writing the %s part of the state without a passed %s validator after the last such write (timeline: %s)"
                              % (name.rsplit("::", 1)[-1], r, r, [(k, sorted(rs), lab) for i, k, rs, lab in tl]), loc(b),
                              sample={"constructor": tag, "role": r, "validated by": vs[:1]})
            ctx.check(set(ROLES) <= written, "%s:writes-all-roles" % tag,
                      "%s returns Ok without establishing %s" % (name.rsplit("::", 1)[-1], sorted(set(ROLES) - written)), loc(b))
            val_roles = vset if val_roles is None else (val_roles & vset)
        ctx.floor("%s Ok paths" % tag, n, 1)
        return val_roles or set()


def fieldname(t):
    """last field of a getter template"""
    e = t
    while e[0] in ("index",):
        e = e[1]
    return e[2] if e[0] == "field" else None
