"""The slider scan that computes checkers and pins (shared by C03, C14, C06/C09).

The same computation exists in three places (the definition used by the constructors, the
tail of play_unchecked, null_move).  Each copy is recognised by its loop over an attacker set
and compared with one specification, parameterised by (board version, owner of the king):
    attackers = colors(!owner) & ((bishop_rays(K) & (B|Q)) | (rook_rays(K) & (R|Q))),  K = king(owner)
    per attacker a:  between(a, K) & occupied ;  len 0 -> checkers |= {a} ;  len 1 -> pinned |= between
Set expressions are compared by Boolean equivalence (cva/setalg.py)."""
from .. import sym, setalg
from .movegen import AND, OR, pieces, colors, WHITE, BLACK


def attackers_spec(board, owner, K):
    return AND(colors(("cnot", owner) if owner[0] != "cnot" else owner[1], board),
               OR(AND(("bishoprays", K), OR(pieces("Bishop", board), pieces("Queen", board))),
                  AND(("rookrays", K), OR(pieces("Rook", board), pieces("Queen", board)))))


class Scan:
    def __init__(self):
        self.header = None
        self.S = None
        self.K = None
        self.board = None
        self.owner = None
        self.arms = {}        # class -> list of (acc name, added expr)
        self.X = None
        self.pre = {}
        self.errors = []
        self.paths = 0
        self.first_event_idx = None


def strip_idx(e):
    """position-state versions are numbered by event index; drop the number for cross-path comparison"""
    if not isinstance(e, tuple) or not e:
        return e
    if e[0] == "post" and len(e) >= 3:
        return ("post", e[1])
    return tuple(strip_idx(x) if isinstance(x, tuple) else x for x in e)


def loop_fn(snap, body):
    """the function a loop snapshot belongs to (the analysed function itself, or a helper read as part of it)"""
    v = snap.get(("_fn", ()))
    return v[1] if v else body.key


def find_scans(f, L, body, paths):
    """group loop-body paths by loop header; only loops whose set mentions an empty-board ray are scans"""
    scans = {}
    for p in paths:
        # innermost loop membership = last cond of the form discr(next(S)) == 1
        loopc = None
        for i, c in enumerate(p.conds):
            e = c[0]
            if e[0] == "discr" and e[1][0] == "next" and c[1] == 1:
                loopc = (i, c)
        if loopc is None or p.end != "loopback":
            continue
        i, c = loopc
        S = strip_idx(L.lift(c[0][1][1]))
        if not sym.contains(S, lambda x: x[0] in ("bishoprays", "rookrays")):
            continue
        hdr = c[2]
        sc = scans.get(hdr)
        if sc is None:
            sc = Scan()
            sc.header = hdr
            sc.S = S
            sc.pre = {}
            # (loops of helpers read as part of this function count like its own)
            sc.frame_fn = body.key
            for k, snap in p.pre_loop.items():
                for v in snap.values():
                    if v is not None and v[0] in ("iter", "iter*", "iterk") and strip_idx(L.lift(v[1])) == S:
                        sc.frame_fn = loop_fn(snap, body)         # the function whose loop iterates the attacker set
            sc.loop_heads = {k[1] for k, snap in p.pre_loop.items() if loop_fn(snap, body) == sc.frame_fn}
            for k, snap in p.pre_loop.items():
                if loop_fn(snap, body) == sc.frame_fn:
                    for (nm, path), v in snap.items():
                        if v is not None and path:
                            sc.pre[nm + "".join("." + h[1] for h in path)] = L.lift(v)
                        elif v is not None and not nm.startswith("_") and v[0] == "tuple":
                            for i_, x_ in enumerate(v[1]):
                                sc.pre["%s.%d" % (nm, i_)] = L.lift(x_)
                        elif v is not None and not nm.startswith("_") and v[0] not in ("iter", "iter*"):
                            sc.pre[nm] = L.lift(v)
            scans[hdr] = sc
            rays = sym.subterms(S, lambda x: x[0] == "bishoprays")
            sc.K = rays[0][1] if rays else None
            gets = sym.subterms(S, lambda x: x[0] == "get" and x[1] in ("colors", "pieces"))
            boards = {g[2] for g in gets}
            sc.board = next(iter(boards)) if len(boards) == 1 else None
            if len(boards) != 1:
                sc.errors.append("attacker set reads placement from %d different board versions" % len(boards))
            if sc.K is not None and sc.K[0] == "king":
                sc.owner = sc.K[2]
            for e in p.events:
                if e.kind == "call" and e.name.endswith("Iterator>::next") and e.bb == hdr:
                    sc.first_event_idx = e.idx
        sc.paths += 1
        # classify by what the path's decisions leave for the size of the blocker set (between & occupied)
        cls = None
        X = None
        lifted = [(strip_idx(L.lift(c2[0])), c2[1]) for c2 in p.conds[i + 1:]]
        for e, v in lifted:
            for cand in sym.subterms(e, lambda x: x[0] in ("len", "isempty")):
                if sym.contains(cand[1], lambda y: y[0] == "between"):
                    X = cand[1]
        if X is not None:
            from ..ranges import Ranger
            bd = Ranger(f, {}).bounds(("len", X), lifted)
            if bd == (0, 0):
                cls = 0
            elif bd == (1, 1):
                cls = 1
            elif bd is not None and bd[0] >= 2:
                cls = "other"
            elif bd is not None and bd[0] >= 1:
                cls = ("not", 0)
            elif bd is not None and bd[1] == 1:
                cls = ("atmost", 1)
            else:
                cls = ("not", 1) if bd is not None and bd[0] == 0 else "other"
            # "not exactly one": the decisions exclude 1 without fixing the value
            if cls not in (0, 1):
                ex1 = any((e == ("bin", "Eq", ("int", 1, "u32"), ("len", X)) or e == ("bin", "Eq", ("len", X), ("int", 1, "u32"))) and v == 0 for e, v in lifted)
                if ex1:
                    cls = ("not", 1)
        if X is not None:
            sc.X = X
        # effects: accumulators changed relative to their havoc value
        eff = []
        for root, val in p.store.items():
            for nm, v in walk_accs(root, val, body):
                if v[0] == "or":
                    parts = flatten(v)
                    hv = [x for x in parts if x[0] == "hv"]
                    rest = [x for x in parts if x[0] != "hv"]
                    if len(hv) == 1 and rest:
                        r = rest[0]
                        for x in rest[1:]:
                            r = ("or", r, x)
                        eff.append((hv[0][2], strip_idx(L.lift(r))))
                elif v[0] != "hv":
                    eff.append((nm, ("assigned", strip_idx(L.lift(v)))))
        eff = sorted(set(eff), key=repr)          # a temporary holding the same update is not a second effect
        sc.arms.setdefault(cls, []).append(eff)
    # a scan must run to exhaustion: no path may leave the function (or fall out of the loop) from inside an iteration
    for p in paths:
        if p.end not in ("return",):
            continue
        last = {}
        for c in p.conds:
            e = c[0]
            if e[0] == "discr" and e[1][0] == "next" and isinstance(c[1], int):
                last[c[2]] = c[1]
        for hdr, v in last.items():
            sc = scans.get(hdr)
            if sc is not None and v == 1:
                msg = "the scan can stop before every aligned slider has been examined (a path leaves the loop from inside an iteration)"
                if msg not in sc.errors:
                    sc.errors.append(msg)
    return list(scans.values())


def flatten(e):
    if e[0] == "or":
        return flatten(e[1]) + flatten(e[2])
    return [e]


def walk_accs(root, val, body):
    """yield (name, value) for havoc-able accumulator places that are not plain havoc values"""
    def rec(v, name, depth=0):
        if not isinstance(v, tuple) or not v or depth > 3:
            return
        if v[0] == "with" and v[2][0] == "f":
            yield from rec(v[1], name, depth + 1)
            sub = v[3]
            nm = name + "." + v[2][1]
            if isinstance(sub, tuple) and sub and sub[0] in ("or", "and", "xor", "bbof", "bbconst") and \
                    sym.contains(sub, lambda x: x[0] == "hv"):
                yield nm, sub
            else:
                yield from rec(sub, nm, depth + 1)
        elif v[0] == "agg":
            for n, x in v[4]:
                nm = name + "." + n
                if isinstance(x, tuple) and x and x[0] in ("or", "and", "xor") and sym.contains(x, lambda y: y[0] == "hv"):
                    yield nm, x
                else:
                    yield from rec(x, nm, depth + 1)
    if root[0] == "P":
        yield from rec(val, "*" + root[1])
    elif root[0] == "L":
        # (a local of a helper read as part of this function: named after the havoc value it carries)
        nm = body.local_name(root[2]) if root[1] == 0 else "helper-local-%d-%d" % (root[1], root[2])
        if isinstance(val, tuple) and val and val[0] == "tuple":
            for i, x in enumerate(val[1]):
                if isinstance(x, tuple) and x and x[0] in ("or", "and", "xor") and sym.contains(x, lambda y: y[0] == "hv"):
                    yield "%s.%d" % (nm, i), x
        elif isinstance(val, tuple) and val and val[0] in ("or", "and", "xor") and sym.contains(val, lambda y: y[0] == "hv"):
            yield nm, val
        else:
            yield from rec(val, nm)


def check_scan(ctx, tag, body, sc, where, require_zero_arm=True):
    """compare one recognised scan with the specification; returns (checkers_acc, pinned_acc)"""
    for e in sc.errors:
        ctx.fail("%s:scan:%s" % (tag, e[:30]), e, where)
    ok = sc.K is not None and sc.K[0] == "king" and sc.board is not None
    if not ctx.check(ok, "%s:scan:binding" % tag,
                     "the slider scan is not anchored on king(owner) of one board version (K = %s)" % (sym.show(sc.K)[:120] if sc.K else None), where):
        return None, None
    want = attackers_spec(sc.board, sc.owner, sc.K)
    eq = setalg.equivalent(sc.S, want)
    d = None if eq else setalg.difference(sc.S, want)
    ctx.check(eq, "%s:scan:attackers" % tag,
              "attacker set differs from `enemy (bishops|queens on the king's diagonals) | (rooks|queens on its lines)`: %s ; differs when %s"
              % (sym.show(sc.S)[:300], d and {k: ([sym.show(x)[:80] for x in v] if isinstance(v, list) else v) for k, v in d.items()}), where,
              sample={"scan": tag, "king": sym.show(sc.K)[:80], "owner": sym.show(sc.owner)[:60]})
    elem = ("elem", sc.S)
    occ = OR(colors(WHITE, sc.board), colors(BLACK, sc.board))
    wantX = AND(("between", elem, sc.K), occ)
    okx = sc.X is not None and setalg.equivalent(sc.X, wantX)
    ctx.check(okx, "%s:scan:between" % tag,
              "the blocker set is not between(attacker, king) & occupied of the same board version: %s" % (sym.show(sc.X)[:300] if sc.X else None), where)
    # arms
    def effects(cls):
        out = []
        for eff in sc.arms.get(cls, []):
            out.append(tuple(sorted(eff, key=repr)))
        return set(out)
    one = effects(1)
    pinned_acc = None
    ok1 = len(one) == 1
    if ok1:
        eff = next(iter(one))
        ok1 = len(eff) == 1 and sc.X is not None and eff[0][1][0] != "assigned" and setalg.equivalent(eff[0][1], sc.X)
        if ok1:
            pinned_acc = eff[0][0]
    ctx.check(ok1, "%s:scan:one-blocker-pins" % tag,
              "with exactly one blocker the blocker set is not added to the pinned set (and nothing else changed): %s" % [[(n, sym.show(v)[:100]) for n, v in e] for e in one], where,
              sample={"scan": tag, "len==1": "pinned |= between & occupied"})
    zero = effects(0)
    checkers_acc = None
    if zero or require_zero_arm:
        ok0 = len(zero) == 1
        if ok0:
            eff = next(iter(zero))
            ok0 = len(eff) == 1 and eff[0][1] == ("bbof", elem)
            if ok0:
                checkers_acc = eff[0][0]
        ctx.check(ok0, "%s:scan:no-blocker-checks" % tag,
                  "with no blocker the attacker is not added to the checker set (and nothing else changed): %s" % [[(n, sym.show(v)[:100]) for n, v in e] for e in zero], where,
                  sample={"scan": tag, "len==0": "checkers |= bb(attacker)"})
    for cls, effs in sc.arms.items():
        if cls in (0, 1):
            continue
        if cls == ("not", 1) and not require_zero_arm:
            bad = [e for e in effs if e]
        else:
            bad = [e for e in effs if e]
        ctx.check(not bad, "%s:scan:other-lengths-inert" % tag,
                  "an attacker with %s blockers changes the tracked sets: %s" % (cls, bad[:1]), where)
    return checkers_acc, pinned_acc


def acc_initial(sc, acc):
    """value the accumulator `acc` (an hv name returned by check_scan) had on entry to the loop"""
    return sc.pre.get(acc) if acc else None


def is_acc_result(sc, acc, v):
    """v is the value of accumulator `acc` after the scan loop (its havoc version at this loop's header)"""
    return acc is not None and isinstance(v, tuple) and len(v) == 4 and v[0] == "hv" and v[2] == acc and v[3] in sc.loop_heads
