"""C05 attack and geometry look-ups equal their geometric definition.

Decided for all arguments: (T10) each public accessor is a pure index of one constant table
by `param as usize` per dimension -- the table item is discovered from the accessor's MIR --
and (T9) every cell of that table, as evaluated by rustc, equals the definition written in
cva/geom.py (leapers, pawn attacks, empty-board rays, between, line).  Sliders: the index
function reconstructed from the MIR of the configured back end (black magic or PEXT) is
evaluated over every subset of every relevance mask (constant data only), must stay inside
the generated table, and the cell it selects must equal an independent ray walk; occupancy
bits outside the relevance mask are shown not to influence the index (known-bits abstract
evaluation with all other bits unknown), which extends the audit to all 2^64 occupancies.
The const variants delegate to the same slow walkers the build script tabulates.  Pawn
pushes are evaluated in the known-bits domain per (square, colour) with every occupancy
bit except the two that matter unknown."""
from .. import sym, geom, evalx
from ..evalx import KB, CannotEval
from .common import paths_of, loc

MV = "cozy_chess::moves::"
SQ = "cozy_chess_types::square::Square"
COLOR = "cozy_chess_types::color::Color"


def idx_param(e):
    """(discr(param) as usize) -> param name"""
    if e[0] == "cast" and e[2][0] == "discr" and e[2][1][0] == "param":
        return e[2][1][1]
    return None


def table_accessor(ctx, f, name, dims):
    """check `name` is TABLE[p1 as usize]([p2 as usize]); return the table's decoded data"""
    body, paths = paths_of(f, MV + name)
    ctx.saw(body.key)
    if not ctx.check(len(paths) == 1 and paths[0].end == "return", "%s:single-path" % name,
                     "%s is no longer a straight-line table look-up (%d paths)" % (name, len(paths)), loc(body)):
        return None
    r = paths[0].ret
    params = []
    e = r
    while e[0] == "index":
        params.append(idx_param(e[2]))
        e = e[1]
    params.reverse()
    ok = e[0] == "item" and params == dims
    ctx.check(ok, "%s:shape" % name,
              "%s does not return TABLE%s of one constant table; got %s" % (name, "".join("[%s as usize]" % d for d in dims), sym.show(r)),
              loc(body), sample={"accessor": name, "returns": sym.show(r)})
    if not ok:
        return None
    c = f.consts.get(e[1])
    if c is None or "dec" not in c:
        ctx.fail("%s:table-const" % name, "table constant %s behind %s was not evaluated" % (e[1], name), loc(body))
        return None
    return c["dec"]


def bbval(cell):
    return cell["fields"][0][1]


def audit_tables(ctx, f):
    ctx.rule("tables.conform+audit")
    ncell = 0
    specs = [
        ("get_knight_moves", ["square"], lambda s: geom.knight_attacks(s)),
        ("get_king_moves", ["square"], lambda s: geom.king_attacks(s)),
        ("get_rook_rays", ["square"], lambda s: geom.rook_rays(s)),
        ("get_bishop_rays", ["square"], lambda s: geom.bishop_rays(s)),
    ]
    for name, dims, spec in specs:
        t = table_accessor(ctx, f, name, dims)
        if t is None:
            continue
        bad = [s for s in range(64) if len(t) != 64 or bbval(t[s]) != spec(s)]
        ncell += 64
        ctx.check(not bad, "%s:cells" % name,
                  "%s table differs from the geometric definition at %s" % (name, [geom.sqname(s) for s in bad[:8]]),
                  sample={"table": name, "cells": 64, "e4": "%#x" % spec(28)})
    t = table_accessor(ctx, f, "get_pawn_attacks", ["color", "square"])
    if t is not None:
        bad = [(c, s) for c in range(2) for s in range(64) if bbval(t[c][s]) != geom.pawn_attacks(s, c)]
        ncell += 128
        ctx.check(not bad and len(t) == 2, "get_pawn_attacks:cells",
                  "pawn attack table differs from the definition at %s" % [("WB"[c], geom.sqname(s)) for c, s in bad[:8]],
                  sample={"table": "get_pawn_attacks", "cells": 128})
    for name, spec in (("get_between_rays", geom.between), ("get_line_rays", geom.line)):
        t = table_accessor(ctx, f, name, ["from", "to"])
        if t is None:
            continue
        bad = [(a, b) for a in range(64) for b in range(64) if bbval(t[a][b]) != spec(a, b)]
        ncell += 4096
        ctx.check(not bad, "%s:cells" % name,
                  "%s table differs from the definition (empty unless aligned and distinct) at %s"
                  % (name, [(geom.sqname(a), geom.sqname(b)) for a, b in bad[:8]]),
                  sample={"table": name, "cells": 4096, "a1-h8": "%#x" % spec(0, 63)})
    ctx.floor("geometry table cells audited", ncell, 8576)
    return ncell


def slider_lookup(ctx, f, name):
    """get_X_moves = BitBoard(TABLEREF[index_fn(square, blockers)]) -> (table item, index fn name)"""
    body, paths = paths_of(f, MV + name)
    ctx.saw(body.key)
    if len(paths) != 1 or paths[0].end != "return":
        ctx.fail("%s:single-path" % name, "%s is no longer a single table look-up" % name, loc(body))
        return None
    r = paths[0].ret
    e = r
    if e[0] == "bb":
        e = e[1]
    ok = e[0] == "index" and e[2][0] == "call" and e[2][2] == (("param", "square"), ("param", "blockers"))
    tab = e[1] if ok else None
    while tab is not None and tab[0] in ("deref", "ref"):
        tab = tab[1]
    ok = ok and tab is not None and tab[0] == "item"
    ctx.check(ok, "%s:shape" % name,
              "%s is not BitBoard(TABLE[index_fn(square, blockers)]); got %s" % (name, sym.show(r)), loc(body),
              sample={"accessor": name, "returns": sym.show(r)})
    if not ok:
        return None
    return tab[1], e[2][1]


def index_expr(ctx, f, fn):
    b = f.need(fn)
    se = sym.SymExec(f, b, opaque=lambda n: n.endswith("::index_const") or n.endswith("::try_index") or "_pext_u64" in n,
                     max_inline_blocks=40, max_depth=6)
    paths = [p for p in se.run()]
    rets = [p for p in paths if p.end == "return"]
    if len(rets) != 1 or len(paths) != 1:
        ctx.fail("%s:single-path" % fn, "index function %s has %d paths; cannot reconstruct one index expression"
                 % (fn, len(paths)), loc(b))
        return None
    return rets[0].ret


def audit_sliders(ctx, f, cfgname):
    ctx.rule("sliders.%s" % cfgname)
    lk = {}
    for piece in ("rook", "bishop"):
        r = slider_lookup(ctx, f, "get_%s_moves" % piece)
        if r is None:
            return 0
        lk[piece] = r
    if not ctx.check(lk["rook"][0] == lk["bishop"][0], "same-table", "rook and bishop look-ups read different tables"):
        return 0
    tab = f.consts.get(lk["rook"][0])
    if tab is None or "dec" not in tab:
        ctx.fail("table-const", "slider table constant %s was not evaluated" % lk["rook"][0])
        return 0
    table = tab["dec"]
    n = len(table)
    ctx.note("%s: slider table %s has %d entries" % (cfgname, lk["rook"][0], n))
    total = 0
    for piece, relevant, walk in (("rook", geom.rook_relevant, geom.rook_moves),
                                  ("bishop", geom.bishop_relevant, geom.bishop_moves)):
        fn = lk[piece][1]
        ex = index_expr(ctx, f, fn)
        if ex is None:
            continue
        ctx.saw("%s index expression: %s" % (fn, sym.show(ex)[:300]))
        occ_leaf = ("field", ("param", "blockers"), "0")
        sq_leaf = ("param", "square")
        leaves = sym.subterms(ex, lambda x: x[0] == "param")
        ctx.check(set(leaves) <= {("param", "square"), ("param", "blockers")}, "%s:inputs" % fn,
                  "index function depends on something other than (square, blockers): %s" % leaves)
        oob = []
        wrong = []
        taint = []
        cannot = None
        cells = 0
        for s in range(64):
            mask = relevant(s)
            # (iv) irrelevant-bit independence: all bits outside the mask unknown, mask bits zero
            try:
                ev = evalx.Evaluator(f, {sq_leaf: KB.const(s), occ_leaf: KB(mask, 0, 64)})
                v = ev.ev(ex)
                if not (isinstance(v, KB) and v.full()):
                    taint.append(s)
            except CannotEval as e:
                # black magic multiplies (occ | !mask): unknown bits are forced to 1 by the or, so the
                # product is known; a CannotEval here means some unknown bit reaches the arithmetic
                taint.append(s)
            except IndexError:
                oob.append((s, 0))
            env = {sq_leaf: KB.const(s), occ_leaf: None}
            ev = evalx.Evaluator(f, env)
            for sub in geom.subsets(mask):
                env[occ_leaf] = KB.const(sub)
                try:
                    v = ev.ev(ex)
                except CannotEval as e:
                    cannot = str(e)
                    break
                idx = v.v
                cells += 1
                if idx >= n:
                    oob.append((s, sub))
                    continue
                if table[idx] != walk(s, sub):
                    wrong.append((s, sub, idx))
            if cannot:
                break
        if cannot:
            ctx.fail("%s:cannot-audit" % fn, "index function of the %s look-up uses a construct the audit cannot evaluate: %s"
                     % (piece, cannot))
            continue
        total += cells
        ctx.check(not oob, "%s:in-bounds" % fn,
                  "%s index leaves the table (size %d) for e.g. %s" % (piece, n, [(geom.sqname(s), hex(o)) for s, o in oob[:4]]),
                  sample={"index_fn": fn, "cells": cells, "table_size": n})
        ctx.check(not wrong, "%s:cells" % fn,
                  "%s look-up differs from the ray walk for e.g. %s" % (piece, [(geom.sqname(s), hex(o), i) for s, o, i in wrong[:4]]),
                  sample={"index_fn": fn, "square": "e4", "occ": "0x0", "expect": "%#x" % walk(28, 0)})
        ctx.check(not taint, "%s:irrelevant-bits" % fn,
                  "occupancy bits outside the relevance mask can influence the %s index for squares %s"
                  % (piece, [geom.sqname(s) for s in taint[:8]]),
                  sample={"index_fn": fn, "rule": "index fully determined with all non-mask bits unknown", "squares": 64})
    ctx.floor("slider cells audited (%s)" % cfgname, total, 107648)
    return total


def walker_audit(ctx, f):
    """The const variants (the ray walkers that also fill the tables) for EVERY square and EVERY occupancy.

    The walker is executed symbolically with the square fixed and the loops run as written (unrolled): the only
    undetermined branch conditions are occupancy tests.  Each must be a single occupancy bit (decided in the
    bit-function domain, so masking/renaming of the blocker set is seen through); a path is then a partial occupancy,
    the paths of one square must partition all 2^64 occupancies, and on each path the returned set must be what the
    geometric ray walk gives for every occupancy of that partial assignment -- which requires that the walk never
    needs a bit the path left undecided."""
    from ..bitfn import BitEval, CannotBit, vec_var, const_bit, combine
    ctx.rule("const-walkers.all-occupancies")
    SQT = "cozy_chess_types::square::Square"
    A = vec_var("occ")

    def to_u64(e):
        k = e[0]
        if e == ("param", "blockers"):
            return ("leafA",)
        if k in ("bb", "raw"):
            return to_u64(e[1])
        if k == "bbof" and e[1][0] == "enum":
            return ("int", 1 << geom.sq_index(e[1][2]), "u64")
        if k == "bbconst":
            return ("int", e[1], "u64")
        if k == "field" and e[2] == "0":
            return to_u64(e[1])
        if k == "with" and e[2] == ("f", "0"):
            return to_u64(e[3])
        if k in ("and", "or", "xor"):
            return ("bin", {"and": "BitAnd", "or": "BitOr", "xor": "BitXor"}[k], to_u64(e[1]), to_u64(e[2]))
        if k == "not":
            return ("un", "Not", to_u64(e[1]))
        if k == "bin":
            return ("bin", e[1], to_u64(e[2]), to_u64(e[3]))
        if k == "un":
            return ("un", e[1], to_u64(e[2]))
        if k == "int":
            return e
        raise CannotBit("walker expression %s" % (str(e)[:80]))
    ev = BitEval({("leafA",): A})
    memo = {}

    def bits_of(x):
        r = memo.get(x)
        if r is None:
            r = ev.vec(to_u64(x))
            memo[x] = r
        return r
    ncell = 0
    npaths = 0
    for piece, dirs in (("rook", geom.ROOK_D), ("bishop", geom.BISHOP_D)):
        body = f.need(MV + "get_%s_moves_const" % piece)
        bad = []
        # quick tier: the 16 squares whose file and rank are in {a,d,e,h} x {1,4,5,8} (every combination of ray lengths
        # 0/3/4/7 towards each edge); thorough tier: all 64
        squares = range(64) if ctx.tier == "thorough" else [r * 8 + fl for r in (0, 3, 4, 7) for fl in (0, 3, 4, 7)]
        for s in squares:
            name = geom.FILES[s & 7].upper() + str((s >> 3) + 1)
            try:
                ps = sym.SymExec(f, body, params={"square": ("enum", SQT, name)}, unroll=64, max_inline_blocks=80, max_depth=6,
                                 opaque=lambda n: n.startswith("cozy_chess_types::") and "::sliders::" not in n, max_paths=20000).run()
            except sym.PathLimit:
                bad.append((name, "too many paths"))
                continue
            weight = 0.0
            for p in ps:
                if p.end not in ("return",):
                    if p.end in ("panic", "diverge", "loopback", "unreachable"):
                        # must be infeasible: decided below like any other path
                        pass
                alpha = {}
                feasible = True
                why = None
                for c in p.conds:
                    e, v = c[0], c[1]
                    try:
                        if e[0] == "has" and e[2][0] == "enum":
                            term = bits_of(e[1])[geom.sq_index(e[2][2])]
                        else:
                            raise CannotBit("branch on %s" % sym.show(e)[:80])
                    except CannotBit as ex:
                        why = str(ex)
                        break
                    if term[0] == ():
                        if term[1] != (1 if v else 0):
                            feasible = False
                            break
                        continue
                    if len(term[0]) == 1 and term[1] in (0b10, 0b01) and isinstance(v, int):
                        k = term[0][0][1]
                        want = 1 if ((term[1] == 0b10) == bool(v)) else 0
                        if alpha.get(k, want) != want:
                            feasible = False
                            break
                        alpha[k] = want
                        continue
                    why = "occupancy test that is not a single bit: %s" % sym.show(e)[:80]
                    break
                if why:
                    bad.append((name, why))
                    continue
                if not feasible:
                    continue
                npaths += 1
                if p.end != "return":
                    bad.append((name, "path ends in %s for occupancy bits %s" % (p.end, alpha)))
                    continue
                weight += 2.0 ** (-len(alpha))
                try:
                    rv = ev.vec(to_u64(p.ret))
                except CannotBit as ex:
                    bad.append((name, str(ex)))
                    continue
                if any(b[0] != () for b in rv):
                    bad.append((name, "result depends on occupancy bits directly"))
                    continue
                got = sum(1 << i for i, b in enumerate(rv) if b[1])
                want = 0
                need = None
                for dx, dy in dirs:
                    fx, ry = s & 7, s >> 3
                    while True:
                        fx, ry = fx + dx, ry + dy
                        if not (0 <= fx < 8 and 0 <= ry < 8):
                            break
                        q = ry * 8 + fx
                        want |= 1 << q
                        if q not in alpha:
                            # undecided square on the ray: fine only if it is the last one before the edge
                            nfx, nry = fx + dx, ry + dy
                            if 0 <= nfx < 8 and 0 <= nry < 8:
                                need = q
                            break
                        if alpha[q]:
                            break
                    if need is not None:
                        break
                if need is not None:
                    bad.append((name, "the walk passes %s without testing whether it is occupied" % geom.sq_name(need)))
                elif got != want:
                    bad.append((name, "occupancy %s: walker gives %#x, ray walk gives %#x" % ({geom.sq_name(k): b for k, b in sorted(alpha.items())}, got, want)))
                elif s in alpha:
                    bad.append((name, "the result is made to depend on the slider's own square"))
            if abs(weight - 1.0) > 1e-9:
                bad.append((name, "the feasible paths do not partition the occupancies (weight %.6f)" % weight))
            ncell += 1
        ctx.check(not bad, "%s_const:ray-walk" % piece,
                  "get_%s_moves_const is not the geometric ray walk for every occupancy: %s" % (piece, bad[:4]), loc(body),
                  sample={"walker": "get_%s_moves_const" % piece, "squares": len(squares), "rule": "paths partition occupancies; each returns the ray walk"})
    ctx.floor("walker squares audited", ncell, 128 if ctx.tier == "thorough" else 32)
    ctx.saw("const walkers: %d feasible paths over %d (piece, square) cases" % (npaths, ncell))
    ctx.assumptions.append("Square::try_offset is coordinate arithmetic (C19)")


def const_variants(ctx, f):
    ctx.rule("const-variants+build-script")
    slow = {}
    for piece, dset in (("rook", set(geom.ROOK_D)), ("bishop", set(geom.BISHOP_D))):
        body, paths = paths_of(f, MV + "get_%s_moves_const" % piece)
        r = paths[0].ret if len(paths) == 1 else None
        ok = r is not None and r[0] == "call" and r[2] == (("param", "square"), ("param", "blockers"))
        ctx.check(ok, "%s_const:delegates" % piece, "get_%s_moves_const is not a direct call of a walker on (square, blockers): %s"
                  % (piece, sym.show(r) if r else None), loc(body))
        if not ok:
            continue
        slow[piece] = r[1]
        wb = f.bodies.get(r[1])
        if wb is None:
            ctx.fail("%s_slow:body" % piece, "walker %s has no body" % r[1])
            continue
        # what the walker computes is decided by the walker audit (every occupancy, per square); nothing about its text is
        ctx.ok("%s_slow:walker" % piece, {"walker": r[1], "decided by": "const-walkers.all-occupancies"})
    # build script: the table is filled by (relevant, index, slow) triples of the same functions
    bs = f.build_script
    if bs is None:
        ctx.fail("build-script", "no facts for the build script")
        return
    from ..facts import Body
    mains = [Body(b, "build_script_build", f) for b in bs["bodies"] if b["path"].endswith("::main") and b["promoted"] is None]
    if not mains:
        ctx.fail("build-script:main", "build script has no main")
        return
    triples = []
    for bb, t in mains[0].calls():
        fnargs = [a["fnref"].get("res") or a["fnref"]["fn"] for a in t["args"] if a.get("k") == "const" and "fnref" in a]
        if len(fnargs) == 3:
            triples.append(tuple(fnargs))
    ctx.saw("build.rs main passes %s" % (triples,))
    lk = {p: slider_lookup_quiet(f, "get_%s_moves" % p) for p in ("rook", "bishop")}
    for piece in ("rook", "bishop"):
        want_idx = lk[piece]
        want_slow = slow.get(piece)
        match = [t for t in triples if t[1] == want_idx and t[2] == want_slow]
        ctx.check(len(match) == 1 and piece in match[0][0], "build:%s-triple" % piece,
                  "build script does not tabulate (relevant_%s, %s, %s) together; triples: %s" % (piece, want_idx, want_slow, triples),
                  sample={"build_triple": match[0] if match else None})


def promoted_pairs(f, pb):
    if pb is None:
        return None
    out = set()
    for blk in pb.blocks:
        for s in blk["stmts"]:
            if s["k"] == "assign" and s["rv"]["k"] == "agg" and s["rv"]["ak"] == "tuple":
                ops = s["rv"]["ops"]
                if len(ops) == 2 and all("v" in o for o in ops):
                    out.add((ops[0]["v"], ops[1]["v"]))
    return out


def slider_lookup_quiet(f, name):
    b = f.bodies.get(MV + name)
    if b is None:
        return None
    for bb, t in b.calls():
        from ..facts import callee_name
        n = callee_name(t)
        if n and n.endswith("_moves_index"):
            return n
    return None


def pawn_quiets(ctx, f):
    ctx.rule("pawn-pushes.knownbits")
    body, paths = paths_of(f, MV + "get_pawn_quiets")
    ctx.saw(body.key + " (%d paths)" % len(paths))
    rets = [p for p in paths if p.end == "return"]
    if not ctx.check(len(rets) == len(paths) and rets, "pawn_quiets:paths", "get_pawn_quiets has non-returning paths", loc(body)):
        return
    occ_leaf = ("field", ("param", "blockers"), "0")
    bad = []
    undecided = []
    ncase = 0
    for color in range(2):
        d = 8 if color == 0 else -8
        for s in range(64):
            t1 = s + d
            t2 = s + 2 * d
            rel = [t for t in (t1, t2) if 0 <= t < 64]
            relmask = sum(1 << t for t in rel)
            for bits in range(1 << len(rel)):
                occv = sum((1 << t) for i, t in enumerate(rel) if bits >> i & 1)
                env = {("param", "square"): KB.const(s), ("param", "color"): KB.const(color),
                       occ_leaf: KB(relmask, occv, 64), ("param", "blockers"): KB(relmask, occv, 64)}
                ev = evalx.Evaluator(f, env)
                taken = []
                try:
                    for p in rets:
                        verdict = True
                        for (c, v, bb, depth) in p.conds:
                            cv = ev.ev(c)
                            if not cv.full():
                                verdict = None
                                break
                            if isinstance(v, int):
                                holds = cv.v == v
                            else:
                                holds = cv.v not in v[1]
                            if not holds:
                                verdict = False
                                break
                        if verdict is None:
                            taken = None
                            break
                        if verdict:
                            taken.append(p)
                    if taken is None or len(taken) != 1:
                        undecided.append((color, s, bits))
                        continue
                    r = ev.ev(taken[0].ret)
                    if isinstance(r, tuple):
                        r = ev.newtype(r)
                except CannotEval as e:
                    undecided.append((color, s, str(e)))
                    continue
                ncase += 1
                # spec with any completion of the unknown bits
                want = geom.pawn_pushes(s, color, occv)
                if not r.full() or r.v != want:
                    bad.append((color, s, bits, repr(r), hex(want)))
    ctx.check(not undecided, "pawn_quiets:decidable",
              "get_pawn_quiets depends on occupancy bits other than the one or two squares in front of the pawn, or uses a construct the audit cannot evaluate: %s"
              % undecided[:4], loc(body))
    ctx.check(not bad, "pawn_quiets:value",
              "get_pawn_quiets differs from the definition (single push if empty, double push from the second rank if both empty) for %s"
              % [("WB"[c], geom.sqname(s), b, r, w) for c, s, b, r, w in bad[:4]], loc(body),
              sample={"cases": ncase, "rule": "per (square, colour, the <=2 relevant occupancy bits); other 62+ bits unknown"})
    ctx.floor("pawn push cases", ncase, 400)


def run_lookups(ctx, cfg="A"):
    """the part of C05 that other properties stand on (move generation, checker/pin scans, validators): the
    look-up functions used at run time equal geometry -- tables, accessors, slider index, pawn pushes"""
    key = ("lookups", getattr(ctx, "rule_suffix", ""), cfg)
    done = ctx.__dict__.setdefault("_groups_done", set())
    if key in done:
        return
    done.add(key)
    f = ctx.facts(cfg)
    lvl, expl = ctx.level, ctx.explanation
    audit_tables(ctx, f)
    pawn_quiets(ctx, f)
    audit_sliders(ctx, f, "magic" if cfg != "C" else "pext")
    ctx.level, ctx.explanation = lvl, expl


def run(ctx):
    ctx.level = "proof"
    ctx.explanation = __doc__
    cfgs = ["A"] if ctx.tier == "quick" else ["A", "C"]
    cells = 0
    for cfg in cfgs:
        f = ctx.facts(cfg)
        if cfg == "A":
            cells += audit_tables(ctx, f)
            const_variants(ctx, f)
            walker_audit(ctx, f)
            pawn_quiets(ctx, f)
        cells += audit_sliders(ctx, f, "magic" if cfg != "C" else "pext")
    ctx.extra["cells_audited"] = cells
    # tables, accessors, slider index and pawn pushes are complete over their domains in both tiers; the const walkers
    # are run for 16 representative squares in the quick tier and for all 64 in the thorough tier
    ctx.extra["exhaustive"] = ctx.tier == "thorough"
    if ctx.tier != "thorough":
        ctx.note("quick tier: const ray walkers audited for the 16 squares {a,d,e,h} x {1,4,5,8}; the thorough tier covers all 64")
    ctx.assumptions += [
        "rustc's const evaluator and cargo's execution of build.rs produced the table bytes that the compiled library contains",
        "for the pext configuration: _pext_u64 is the parallel bit extract modelled in cva/geom.py",
        "Square::try_offset is coordinate arithmetic (C19): used to run the const walkers on concrete squares",
    ]
