"""Clock transfer functions (shared by C02, C14): the value a path assigns to a clock field is a
function of the old clock (and path decisions about it).  It is decided exactly by evaluating
the reconstructed expression and the path's clock comparisons over the whole admissible range of
the old value (0..=100 by the gate of C06) -- a finite-domain decision of a quantifier-free
formula over one bounded integer, not an execution of the library."""
from .. import evalx, sym
from ..evalx import KB, CannotEval


def arithmetic_over(e, leaf):
    """is e built only from integer arithmetic/comparisons over `leaf` and constants (and mentions leaf)?"""
    seen = [False]

    def ok(x):
        if x == leaf:
            seen[0] = True
            return True
        if not isinstance(x, tuple) or not x:
            return True
        if x[0] == "int":
            return True
        if x[0] == "bin":
            return ok(x[2]) and ok(x[3])
        if x[0] == "un":
            return ok(x[2])
        if x[0] == "cast":
            return ok(x[2])
        if x[0] == "call" and x[1].rsplit("::", 1)[-1] in ("min", "max", "saturating_add", "saturating_sub") and all(ok(a) for a in x[2]):
            return True
        return False
    return ok(e) and seen[0]


def mentions(e, leaf):
    return arithmetic_over(e, leaf)


def halfmove_step_table(f, paths_info, leaf, lo=0, hi=100):
    """paths_info: list of (conds, new_value_expr) for the paths of one scenario (all non-clock decisions fixed).
    returns dict old -> set(new values) by evaluating each path whose clock-conditions hold"""
    out = {}
    for v in range(lo, hi + 1):
        res = set()
        for conds, newv in paths_info:
            ev = evalx.Evaluator(f, {leaf: KB.const(v, 8)})
            ok = True
            try:
                for c in conds:
                    if not mentions(c[0], leaf):
                        continue
                    cv = ev.ev(c[0])
                    if not cv.full():
                        raise CannotEval("undetermined clock condition")
                    want = c[1]
                    holds = (cv.v == want) if isinstance(want, int) else (cv.v not in want[1])
                    if not holds:
                        ok = False
                        break
                if not ok:
                    continue
                r = ev.ev(newv)
                res.add(r.v if r.full() else None)
            except CannotEval as e:
                res.add(("cannot", str(e)[:60]))
        out[v] = res
    return out
