"""C16 masked generation filters by origin square and honours the abort contract.

Decided on all paths of all generators (both IN_CHECK values, three slider instances):
 * mask threading -- the origin set of every batch has the `mask` parameter as a conjunct
   (part of the batch specification shared with C01: origin set == own pieces of the kind &
   mask & (not) pinned; en-passant through the masked pawn set; king batch under mask.has(king));
 * abort contract -- every listener result is branched on; its true edge returns true with no
   further listener call; iteration continues / false is returned only after the result was
   tested false; add_all_legals stops at the first generator that reports true;
 * non-empty batches -- every batch is dominated by a non-emptiness test of the very set it
   delivers, or is a single-square set;
 * at most 18 batches -- structural part: each listener call sits in exactly one loop over a
   subset of the mover's pieces of one kind (pinned and unpinned subsets are disjoint by
   construction: S & !pinned, S & pinned), the kinds partition the mover's <=16 pieces (C06),
   the en-passant loop ranges over a pawn-attack set (<=2 squares, C05) and the king batch is
   delivered at most once.
Not decided: exactness of the delivered move set (C01)."""
from .. import lift, sym, setalg
from . import movegen
from .common import B, loc


def run(ctx):
    ctx.explanation = __doc__
    f = ctx.facts("A")
    L = lift.Lifter(f)
    ctx.rule("mask-threading+nonempty")
    n = movegen.check_generators(ctx, f, L)
    ctx.floor("listener sites", n, 16)
    movegen.check_king_generator(ctx, f, L)
    ctx.rule("abort-contract")
    ns = movegen.check_abort_contract(ctx, f, L)
    ctx.floor("listener call path-sites", ns, 40)
    movegen.check_roster(ctx, f, L)
    movegen.check_dispatch(ctx, f, L)
    ctx.rule("batch-count-structure")
    # every listener site lies in exactly one loop (or none for the king) and loops over disjoint origin sets
    total_sites = 0
    for in_check in (False, True):
        cg = {"IN_CHECK": sym.TRUE if in_check else sym.FALSE}
        for piece in ("Pawn", "Knight", "Bishop", "Rook", "Queen"):
            if piece in ("Pawn", "Knight", "King"):
                body, paths, sites = movegen.extract_sites(f, L, movegen.gen_key(f, piece), cg)
            else:
                body, paths, sites = movegen.extract_sites(f, L, movegen.slider_key(f), cg, {movegen.tparam(f): movegen.slider_types(f)[piece]})
            loops = [s.loop for s in sites if s.loop is not None]
            total_sites += len(sites)
            ctx.check(len(loops) == len(sites), "%s:%s:in-loop" % (piece, in_check),
                      "a batch of the %s generator is delivered outside a loop over an origin set" % piece, loc(body))
            # pairwise disjoint origin sets, except the en-passant loop (bounded separately by the pawn-attack set)
            main = [l for l in loops if not sym.contains(l, lambda x: x[0] == "pawnatt")]
            for i in range(len(main)):
                for j in range(i + 1, len(main)):
                    dis = setalg.equivalent(("and", main[i], main[j]), ("bbconst", 0))
                    ctx.check(dis, "%s:%s:disjoint-origins" % (piece, in_check),
                              "two batches of the %s generator range over overlapping origin sets (a piece could get two batches)" % piece,
                              loc(body))
            ep = [l for l in loops if l not in main]
            for l in ep:
                inside = setalg.subset(l, ("pawnatt", movegen.ep_squares()[0], movegen.NSTM))
                ctx.check(inside, "Pawn:%s:ep-bounded" % in_check,
                          "the en-passant loop is not bounded by a pawn-attack set (at most two capturers)", loc(body),
                          sample={"ep_loop": sym.show(l)[:200]})
    ctx.floor("batch sites", total_sites, 16)
    # look-up functions equal geometry (owned by C05): the atoms of the specifications above stand on it
    from . import c05
    c05.run_lookups(ctx)
    ctx.assumptions += ["<=16 pieces per side (C06) and pawn-attack sets of <=2 squares (C05) give the numeric bound 16 + 2 = 18"]
