"""C02 playing a legal move produces the rule-correct successor (writer table of play_unchecked).

Decided on every returning path of play_unchecked (symbolic execution with the position writers
kept opaque, so each path is a sequence of writer calls with symbolic arguments plus the
decisions taken): from the path's decisions (moved piece kind, victim, own piece on the
destination = castling, direction, promotion, double-push ranks, en-passant capture test,
back-rank and castle-file comparisons) the rules of chess prescribe
 * the placement toggles: lift/drop of the moved piece, removal of a victim of the other
   colour on the destination, pawn -> promotion piece, removal of the passed pawn on
   (to.file, 5th rank relative to the mover) for an en-passant capture, the four toggles of a
   castle with king/rook destination files (G,F) when from.file < to.file else (C,D);
 * the castle-right clearings: both wings of the mover for king moves and castling; the wing
   whose file equals the capture square's file on the opponent's back rank; the wing whose file
   equals the origin file of a rook leaving the mover's back rank; always to None, colour and
   wing constants consistent (short <-> true), short/long branches mirror each other;
 * exactly one en-passant write: Some(to.file) iff pawn, no promotion, from on rank 2|7 and to
   on rank 4|5; otherwise None;  * exactly one side toggle, after everything else;
 * clocks: half-move := 0 iff pawn move or capture (victim and not castling), else
   min(old+1, 100) for every old value 0..=100; full-move saturating +1 iff the mover is Black
   (side read before the toggle).
The writer calls actually made on the path must equal the prescribed multiset.
Not decided: that the composed effect is the FIDE successor on every board (the XOR trick when
victim and moved piece coincide, Chess960 castles where a piece stays put, are covered only in
so far as the writer table prescribes them); checker/pin tracking is C03; hash is C10."""
from .. import sym, lift, setalg
from . import zob, clocks
from .c03 import piece_case
from .movegen import SELF, STM, NSTM, PIECE, FILE, colors
from .common import B, loc, enum_values, in_set3, square_equals3, option_is_some_of3

COLOR = "cozy_chess_types::color::Color"
BLACK = ("enum", COLOR, "Black")
WHITEC = ("enum", COLOR, "White")
MV = ("param", "mv")
FROM = ("field", MV, "from")
TO = ("field", MV, "to")
PROMO = ("field", MV, "promotion")
RANK = "cozy_chess_types::rank::Rank"
EPGET = ("get", "en_passant", SELF)
# the en-passant target square: the recorded file on the 6th rank relative to the mover
EPSQ = ("sq", ("field", ("downcast", EPGET, "Some"), "0"), ("relrank", 5, STM))


def rankbb(n):
    return ("rankbb", ("enum", RANK, n))


def strip_ver(e):
    """treat reads of castle rights / en passant from any version of the position state alike"""
    if not isinstance(e, tuple) or not e:
        return e
    if e[0] == "zb":
        return SELF
    return tuple(strip_ver(x) if isinstance(x, tuple) else x for x in e)


def some(x):
    return ("agg", "core::option::Option<cozy_chess_types::file::File>", "Some", 1, (("0", x),))


def is_some_of(e, x):
    return e[0] == "agg" and e[2] == "Some" and dict(e[4]).get("0") == x


def is_none(e):
    return e[0] == "agg" and e[2] == "None"


def decisions(L, p, moved):
    d = {}
    kind, excl = piece_case(L, p, moved)
    d["moved"] = kind
    d["moved_excl"] = excl
    victim = ("piece_on", SELF, TO)
    for c in p.conds:
        e = strip_ver(L.lift(c[0]))
        v = c[1]
        if not isinstance(v, int):
            if e == ("discr", victim):
                d["victim"] = 1 not in v[1] if False else (False if 1 in v[1] else None)
            if e == ("discr", PROMO):
                d["promo"] = False if 1 in v[1] else None
            continue
        b = bool(v)
        if e == ("discr", victim):
            d["victim"] = (v == 1)
        elif e == ("bin", "Eq", ("discr", victim), ("int", 1, "isize")):
            d["victim"] = b
        elif e == ("discr", PROMO):
            d["promo"] = (v == 1)
        elif e[0] == "bin" and e[1] in ("Eq", "Ne") and set((e[2], e[3])) == {BLACK, STM}:
            d["black"] = (e[1] == "Eq") == b
        elif e[0] == "bin" and e[1] in ("Eq", "Ne") and set((e[2], e[3])) == {WHITEC, STM}:
            d["black"] = not ((e[1] == "Eq") == b)
        elif e == ("has", colors(STM), TO):
            d["castle"] = b
        elif e == ("bin", "Lt", ("file", FROM), ("file", TO)):
            d["short_side"] = b
        elif e == ("bin", "Gt", ("file", TO), ("file", FROM)):
            d["short_side"] = b
        elif e[0] == "has" and e[2] == FROM and setalg.equivalent(e[1], ("or", rankbb("Second"), rankbb("Seventh"))):
            d["from27"] = b
        elif e[0] == "has" and e[2] == TO and setalg.equivalent(e[1], ("or", rankbb("Fourth"), rankbb("Fifth"))):
            d["to45"] = b
        elif e == ("discr", EPGET):
            d["ep_some"] = (v == 1)
        elif e[0] == "bin" and e[1] in ("Eq", "Ne") and TO in (e[2], e[3]) and EPSQ in (e[2], e[3]):
            d["epcap"] = (e[1] == "Eq") == b
        elif e[0] == "bin" and e[1] in ("Eq", "Ne") and set((e[2], e[3])) in ({("relrank", 7, STM), ("rank", TO)}, {("relrank", 0, NSTM), ("rank", TO)}):
            d["their_back"] = (e[1] == "Eq") == b          # the 8th rank of the mover is the 1st rank of the opponent
        elif e[0] == "bin" and e[1] in ("Eq", "Ne") and set((e[2], e[3])) in ({("relrank", 0, STM), ("rank", FROM)}, {("relrank", 7, NSTM), ("rank", FROM)}):
            d["our_back"] = (e[1] == "Eq") == b
        elif e[0] == "bin" and e[1] == "Eq" and is_some_of(e[2], ("file", TO)) and e[3][0] == "field" and \
                e[3][1] == ("get", "castle_rights", SELF, NSTM):
            d["cap_" + e[3][2]] = b
        elif e[0] == "bin" and e[1] == "Eq" and is_some_of(e[2], ("file", FROM)) and e[3][0] == "field" and \
                e[3][1] == ("get", "castle_rights", SELF, STM):
            d["rk_" + e[3][2]] = b
        elif e[0] == "bin" and e[1] == "Eq" and ("enum", PIECE, "Knight") in (e[2], e[3]):
            pass
    lifted = [(strip_ver(L.lift(c[0])), c[1]) for c in p.conds]
    if "black" not in d:
        bl = in_set3(enum_values(L.f, lifted, STM, COLOR), {1})
        if bl is not None:
            d["black"] = bl
    # the double-push ranks may be tested through rank bitboards (handled above) or on the rank itself
    if "from27" not in d:
        r = in_set3(enum_values(L.f, lifted, ("rank", FROM), RANK), {1, 6})
        if r is not None and len(enum_values(L.f, lifted, ("rank", FROM), RANK)) < 8:
            d["from27"] = r
    if "to45" not in d:
        r = in_set3(enum_values(L.f, lifted, ("rank", TO), RANK), {3, 4})
        if r is not None and len(enum_values(L.f, lifted, ("rank", TO), RANK)) < 8:
            d["to45"] = r
    if "epcap" not in d and d.get("ep_some") is True:
        # the same comparison spelled as file(to) == ep file and rank(to) == 6th relative rank
        r3 = square_equals3(lifted, EPSQ, TO)
        if r3 is not None:
            d["epcap"] = r3
    if "epcap" not in d:
        # ... or as `en_passant == Some(to.file())` together with the rank test
        sf = option_is_some_of3(lifted, EPGET, ("file", TO))
        rk = None
        for e_, v_ in lifted:
            if e_[0] == "bin" and e_[1] in ("Eq", "Ne") and {e_[2], e_[3]} == {("relrank", 5, STM), ("rank", TO)} and isinstance(v_, int):
                rk = (e_[1] == "Eq") == bool(v_)
        both = None if (sf is None and rk is None) else (False if (sf is False or rk is False) else (True if (sf and rk) else None))
        if both is not None:
            d["epcap"] = both
            if both:
                d["ep_some"] = True
    if d.get("ep_some") is False and "epcap" not in d:
        d["epcap"] = False          # no en-passant square: nothing to compare the destination with
    return d


def run(ctx):
    if ctx.pid != "C02":
        # included by another property's check: once per run is enough
        key = ("c02", getattr(ctx, "rule_suffix", ""))
        done = ctx.__dict__.setdefault("_groups_done", set())
        if key in done:
            return
        done.add(key)
    ctx.explanation = __doc__
    f = ctx.facts("A")
    L = lift.Lifter(f)
    roles = zob.Roles(ctx, f)
    W = {k for k in roles.writers if f.bodies[k].j.get("impl_self") == roles.inner_ty}
    body = f.need(B + "::play_unchecked")
    from .common import read_as_part_of
    own = read_as_part_of(f, body.key, stop=lambda n: n in W)
    se = sym.SymExec(f, body, inline=lambda n: False if n in W else (True if n in own else None), max_paths=100000)
    paths = se.run()
    where = loc(body)
    ctx.saw("%s: %d paths" % (body.key, len(paths)))
    # classify writers by role (what they may write)
    role = {}
    for w in W:
        ms = (se.modset(w) or {}).get(1) or set()
        b = f.bodies[w]
        if {"pieces", "colors"} & ms or (ms and b.argc == 4 and "Piece" in b.locals[2]["ty"]):
            role[w] = "place"
        elif b.argc == 4:
            role[w] = "rights"
        elif b.argc == 2:
            role[w] = "ep"
        elif b.argc == 1:
            role[w] = "toggle"
    ctx.note("writer roles: %s" % {k.rsplit("::", 1)[-1]: v for k, v in role.items()})
    clock_leaf = ("field", ("obj", "self"), [t for (g, t, p_, pt) in L.templates if g == "halfmove_clock"][0][2])
    fm_f = [t for (g, t, p_, pt) in L.templates if g == "fullmove_number"][0][2]
    hm_f = clock_leaf[2]
    full_get = ("get", "fullmove_number", SELF)
    rets = [p for p in paths if p.end == "return"]
    ctx.floor("returning paths", len(rets), 100)
    ops = sym.Ops(f)
    seen = set()
    clock_paths = {}
    # closure of the en-passant square
    ep_closure_ok = {}
    for p in rets:
        moved = None
        for e in p.events:
            if e.kind == "call" and e.depth == 0 and e.name.endswith("::expect") and e.args[0][0] == "call" and e.args[0][1] == B + "::piece_on":
                if L.lift(e.args[0]) == ("piece_on", SELF, FROM):
                    moved = e.ret
        if moved is None:
            ctx.fail("moved-piece", "cannot identify the moved piece as piece_on(mv.from)", where)
            continue
        d = decisions(L, p, moved)
        mvd = L.lift(moved)
        kind = d.get("moved")
        castle = d.get("castle")
        if castle is None:
            ctx.fail("castle-undecided", "a path never tests whether the destination holds an own piece (castling encoding)", where)
            continue
        # writer calls on this board's position state, made directly or through an inlined private helper
        wev = [e for e in p.events if e.kind == "call" and e.name in W and e.args and e.args[0][0] == "ptr" and e.args[0][1] == ("P", "self")]
        place = []
        for e in wev:
            if role.get(e.name) != "place":
                continue
            pc_, col_, where_ = (strip_ver(L.lift(a)) for a in e.args[1:])
            # a writer that toggles a set of squares: a set written as an XOR of single squares is that many single toggles
            # (x ^= a; x ^= b  ==  x ^= (a ^ b), also when a == b)
            def singles(s_):
                if s_[0] == "xor":
                    l_, r_ = singles(s_[1]), singles(s_[2])
                    return None if l_ is None or r_ is None else l_ + r_
                if s_[0] == "bbof":
                    return [s_[1]]
                return None
            sq_list = singles(where_) if where_[0] in ("xor", "bbof") else None
            if sq_list is None:
                place.append((pc_, col_, where_))
            else:
                place += [(pc_, col_, s_) for s_ in sq_list]
        place = sorted(place, key=repr)
        rights = sorted([tuple(strip_ver(L.lift(a)) for a in e.args[1:]) for e in wev if role.get(e.name) == "rights"], key=repr)
        eps = [strip_ver(L.lift(e.args[1])) for e in wev if role.get(e.name) == "ep"]
        toggles = [e for e in wev if role.get(e.name) == "toggle"]
        # ---- ordering
        ctx.rule("side-toggle")
        ctx.check(len(toggles) == 1 and wev and wev[-1] is toggles[0], "toggle-once-last",
                  "the side to move is not toggled exactly once after all other writers (%d toggles)" % len(toggles), where,
                  sample={"writers on a path": [e.name.rsplit("::", 1)[-1] for e in wev]} if "tog" not in seen else None)
        seen.add("tog")
        # ---- expected placement
        ctx.rule("placement-writers")
        Pc = lambda n: ("enum", PIECE, n)
        Fl = lambda n: ("enum", FILE, n)
        back = ("relrank", 0, STM)
        want_place = None
        case = None
        if castle:
            ss = d.get("short_side")
            if ss is None:
                ctx.fail("castle:direction-undecided", "castling path does not compare from.file with to.file", where)
            else:
                kf, rf = ("G", "F") if ss else ("C", "D")
                want_place = [(Pc("King"), STM, FROM), (Pc("Rook"), STM, TO),
                              (Pc("King"), STM, ("sq", Fl(kf), back)), (Pc("Rook"), STM, ("sq", Fl(rf), back))]
                case = "castle-" + ("short" if ss else "long")
        else:
            want_place = [(mvd, STM, FROM), (mvd, STM, TO)]
            vic = d.get("victim")
            if vic is None:
                ctx.fail("victim-undecided", "a non-castling path never tests whether the destination is occupied", where)
                want_place = None
            else:
                if vic:
                    want_place.append((zob.payload(("piece_on", SELF, TO)), NSTM, TO))
                case = (kind or "other") + ("x" if vic else "")
                if kind == "Pawn":
                    pr = d.get("promo")
                    if pr is None:
                        ctx.fail("pawn:promotion-undecided", "a pawn path never looks at the promotion", where)
                        want_place = None
                    elif pr:
                        want_place += [(Pc("Pawn"), STM, TO), (zob.payload(PROMO), STM, TO)]
                        case += "=P"
                    else:
                        double = d.get("from27") and d.get("to45")
                        if d.get("from27") is None or (d.get("from27") and d.get("to45") is None):
                            ctx.fail("pawn:double-push-undecided", "a pawn path does not test the double-push ranks (2|7 -> 4|5)", where)
                            want_place = None
                        elif not double:
                            ec = d.get("epcap")
                            if ec is None:
                                ctx.fail("pawn:ep-capture-undecided", "a pawn path does not compare the destination with the en-passant square", where)
                                want_place = None
                            elif ec:
                                want_place.append((Pc("Pawn"), NSTM, ("sq", ("file", TO), ("relrank", 4, STM))))
                                case += "-ep"
                                # the en-passant square: ep file on the 6th rank relative to the mover
                                okc = d.get("ep_some") is True
                                ctx.check(okc, "pawn:ep-square", "the en-passant capture is not recognised by to == (ep file, 6th rank relative to the mover)", where,
                                          sample={"ep capture": "Some(to) == en_passant.map(|f| Square::new(f, Sixth.relative_to(color)))"} if "epsq" not in seen else None)
                                seen.add("epsq")
                        else:
                            case += "-double"
        if want_place is not None:
            ok = sorted(want_place, key=repr) == place
            ctx.check(ok, "placement:%s" % case,
                      "placement toggles for case %s are %s; the rules prescribe %s" % (case, [tuple(sym.show(x)[:50] for x in t) for t in place],
                                                                                        [tuple(sym.show(x)[:50] for x in t) for t in sorted(want_place, key=repr)]), where,
                      sample={"case": case, "toggles": [tuple(sym.show(x)[:40] for x in t) for t in place]} if ("pl", case) not in seen else None)
            seen.add(("pl", case))
        # ---- castle rights
        ctx.rule("castle-right-clearings")
        T, F_ = sym.TRUE, sym.FALSE
        want_r = []
        undecided = None
        if castle:
            want_r = [(STM, T), (STM, F_)]
        else:
            if kind == "King":
                want_r = [(STM, T), (STM, F_)]
            if d.get("victim"):
                tb = d.get("their_back")
                if tb is None:
                    undecided = "capture path does not compare the destination rank with the opponent's back rank"
                elif tb:
                    if d.get("cap_short") is None:
                        undecided = "capture on the opponent's back rank does not compare to.file with the opponent's short right"
                    elif d["cap_short"]:
                        want_r.append((NSTM, T))
                    elif d.get("cap_long") is None:
                        undecided = "capture on the opponent's back rank does not compare to.file with the opponent's long right"
                    elif d["cap_long"]:
                        want_r.append((NSTM, F_))
            if kind == "Rook" and undecided is None:
                ob = d.get("our_back")
                if ob is None:
                    undecided = "rook move does not compare the origin rank with the mover's back rank"
                elif ob:
                    if d.get("rk_short") is None:
                        undecided = "rook move from the back rank does not compare from.file with the mover's short right"
                    elif d["rk_short"]:
                        want_r.append((STM, T))
                    elif d.get("rk_long") is None:
                        undecided = "rook move from the back rank does not compare from.file with the mover's long right"
                    elif d["rk_long"]:
                        want_r.append((STM, F_))
        if undecided:
            ctx.fail("rights:undecided", undecided, where)
        else:
            got = sorted([(r[0], r[1]) for r in rights], key=repr)
            allnone = all(is_none(r[2]) for r in rights)
            ok = got == sorted(want_r, key=repr) and allnone
            rkey = "%s|%s" % (case, ",".join(sorted("%s%s" % ("own" if c == STM else "opp", "S" if w == T else "L") for c, w in want_r)))
            ctx.check(ok, "rights:%s" % rkey,
                      "castle rights cleared for case %s are %s (all None: %s); the rules prescribe %s"
                      % (rkey, [(sym.show(c)[:30], sym.show(w)) for c, w in got], allnone, [(sym.show(c)[:30], sym.show(w)) for c, w in want_r]), where,
                      sample={"case": rkey, "cleared": [(sym.show(c)[:30], "short" if w == T else "long") for c, w in got]} if ("r", rkey) not in seen else None)
            seen.add(("r", rkey))
        # ---- en passant
        ctx.rule("en-passant-write")
        if ctx.check(len(eps) == 1, "ep:exactly-one-write", "the en-passant file is written %d times on a path (expected once)" % len(eps), where):
            double = (not castle) and kind == "Pawn" and d.get("promo") is False and d.get("from27") and d.get("to45")
            if double:
                ctx.check(is_some_of(eps[0], ("file", TO)), "ep:set-after-double-push", "after a two-square pawn advance the en-passant file is %s, not Some(to.file)" % sym.show(eps[0])[:80], where,
                          sample={"case": "double push", "ep": sym.show(eps[0])[:60]} if "epd" not in seen else None)
                seen.add("epd")
            else:
                ctx.check(is_none(eps[0]), "ep:none-otherwise", "the en-passant file is set (%s) after a move that is not a two-square pawn advance (case %s)" % (sym.show(eps[0])[:80], case), where)
        # ---- clocks
        ctx.rule("clocks")
        st = p.store[("P", "self")]
        fm = L.lift(ops.field(st, fm_f))
        blk = d.get("black")
        if blk is None:
            ctx.fail("fullmove:undecided", "a path does not decide whether the mover is Black", where)
        elif blk:
            ok = fm[0] == "call" and fm[1].endswith("saturating_add") and fm[2] == (full_get, ("int", 1, "u16"))
            ctx.check(ok, "fullmove:black-increments", "after Black's move the full-move number is %s, not saturating old+1" % sym.show(fm)[:80], where)
        else:
            ctx.check(fm == full_get, "fullmove:white-unchanged", "after White's move the full-move number changes: %s" % sym.show(fm)[:80], where)
        reset = (kind == "Pawn") or (bool(d.get("victim")) and not castle)
        if castle and kind == "Pawn":
            reset = True
        hm = ops.field(st, hm_f)
        import os
        if os.environ.get("CVA_DEBUG") and ((kind is None and "Pawn" not in d["moved_excl"]) or (reset and hm != ("int", 0, "u8"))):
            print("DEBUG", case, kind, d.get("moved_excl"), d.get("victim"), castle)
            for c in p.conds:
                print("     ", sym.show(L.lift(c[0]))[:150], c[1])
        if kind is None and "Pawn" not in d["moved_excl"]:
            ctx.fail("halfmove:pawn-undecided", "a path does not decide whether the moved piece is a pawn", where)
        elif reset:
            ctx.check(hm == ("int", 0, "u8"), "halfmove:reset", "half-move clock after a pawn move or capture is %s, not 0 (case %s)" % (sym.show(hm)[:80], case), where)
        else:
            clock_paths.setdefault("count", []).append((p.conds, hm))
    ctx.rule("clocks")
    if clock_paths.get("count"):
        uniq = []
        for conds, nv in clock_paths["count"]:
            key = (tuple(c[:2] for c in conds if clocks.mentions(c[0], clock_leaf)), nv)
            if key not in [u[0] for u in uniq]:
                uniq.append((key, conds, nv))
        tab = clocks.halfmove_step_table(f, [(c, nv) for _, c, nv in uniq], clock_leaf)
        bad = {v: r for v, r in tab.items() if r != {min(v + 1, 100)}}
        ctx.check(not bad, "halfmove:min(old+1,100)", "half-move clock after a quiet non-pawn move is not min(old+1, 100) for old values %s" % dict(list(bad.items())[:4]), where,
                  sample={"old": [0, 99, 100], "new": [sorted(tab[0]), sorted(tab[99]), sorted(tab[100])]})
    else:
        ctx.fail("halfmove:no-counting-path", "no path counts the half-move clock up", where)
    ctx.rule("coverage")
    cases = {c for k, c in seen if isinstance((k, c), tuple) and k == "pl"} if False else {x[1] for x in seen if isinstance(x, tuple) and x[0] == "pl"}
    need = {"castle-short", "castle-long", "Pawn-double", "Pawn-ep", "Pawnx=P", "Pawn=P", "Knight", "Rookx", "King"}
    ctx.check(need <= cases, "cases-recognised", "move kinds not recognised on any path: %s" % sorted(need - cases), where,
              sample={"cases": sorted(map(str, cases))})
    # the placement / rights / en-passant writers do what their calls are taken to mean (toggle a piece, set a right,
    # set the file) and keep the hash in step: C10's lock-step rule, re-run here
    from . import c10, c15
    expl_ = ctx.explanation
    c10.run(ctx)
    # "playing a legal move": the public ways to play are wrappers around the function analysed above; they must hand it
    # the very move they were given (owned by C15; re-run here)
    c15.check_wrappers(ctx, f)
    ctx.explanation = expl_
    ctx.assumptions += ["old half-move clock within 0..=100 (C06 gate; preserved by this rule and C14)", "castling is encoded as king-takes-own-rook (C01 dispatch/king generator)"]
