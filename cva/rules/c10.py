"""C10 the hash is a pure function of the position, kept in step incrementally.

Decided: (1) closed writer set -- every assignment to, and every `&mut` of, a field of the
inner position state (including the hash) is inside a method of that state type, the state is
only constructed by its own `empty()`, all its fields are private and no method returns a
mutable reference; (2) lock-step -- every path of every writer is executed symbolically and
the change of the state fields is compared with the change of the hash: a placement toggle
XORs exactly the key indexed by the same (colour, piece, square), an optional feature
(castling right, en-passant file) XORs out the key of the value it replaces and XORs in the key
of the new value from one table, the side toggle XORs the side key; a path that changes state
without the matching key (or the reverse), or on which the old/new value is not decided,
is reported; `empty()` starts at hash 0 with nothing on the board; (3) non-interference --
`hash()` returns exactly the hash field, `hash_without_ep()` additionally XORs the key of the
current en-passant file from the table the en-passant writer uses.  With a closed writer set
each of which preserves `hash = XOR of keys(state)`, purity over all histories follows by
induction (argued in DESIGN.md, not mechanised)."""
from .. import sym
from . import zob
from .zob import xor_leaves, cancel, key_path, opt_state, payload, enum_idx
from .common import B, paths_of, loc


def changed_fields(v, root):
    """with-chain over `root` -> {field: new value}"""
    out = {}
    while v != root:
        if v[0] != "with" or v[2][0] != "f":
            return None
        out.setdefault(v[2][1], v[3])
        v = v[1]
    return out


def analyse_writers(ctx, f, roles):
    """returns feature -> key table description"""
    ctx.rule("lock-step")
    features = {}
    root = ("obj", "self")
    hf = roles.hash_field
    h0 = ("field", root, hf)
    n_paths = 0
    for w in sorted(roles.writers):
        body = f.bodies[w]
        if body.j.get("impl_self") != roles.inner_ty or body.kind != "AssocFn":
            continue
        if body.argc < 1 or body.local_name(1) != "self":
            continue
        if private_part_of_writers(f, roles, w):
            # a helper private to the state's module that does part of a writer's work (the set update without the key, or
            # the key without the set update): hash and state are in step at the writers that can be called from outside,
            # which are read with such helpers inlined
            ctx.ok("%s:private-part" % short(w), {"helper": short(w), "read": "inlined at its callers, all methods of the state type"})
            continue
        paths = sym.SymExec(f, body).run()
        ctx.saw("%s: %d paths" % (w, len(paths)))
        if any(p.pre_loop for p in paths) and set_toggle_writer(ctx, f, w, body, paths, root, hf, features):
            n_paths += len(paths)
            continue
        for p in paths:
            if p.end not in ("return", "loopback"):
                ctx.fail("%s:path-end" % short(w), "writer %s has a path ending in %s" % (w, p.end), loc(body))
                continue
            n_paths += 1
            final = p.store[("P", "self")]
            if p.pre_loop or p.end == "loopback":
                # a writer with a loop (it toggles a set of squares): every segment of an execution -- entry to the loop
                # head, one iteration, loop head to return -- must keep state and hash in step; the engine's paths are
                # "prefix + one iteration" and "prefix + exit" with the state at the loop head havocked, so the prefix
                # must leave the state alone and the rest is read relative to the state at the head
                final = loop_segment(ctx, w, body, p, final, root)
                if final is None:
                    continue
            ch = changed_fields(final, root)
            if ch is None:
                ctx.fail("%s:opaque-change" % short(w), "cannot read off what %s changes: %s" % (w, sym.show(p.store[("P", "self")])[:200]), loc(body))
                continue
            newhash = ch.pop(hf, h0)
            leaves = cancel(xor_leaves(newhash))
            if h0 not in leaves:
                ctx.fail("%s:hash-not-xor" % short(w), "%s assigns the hash something that is not `hash ^ key...`: %s"
                         % (w, sym.show(newhash)[:200]), loc(body))
                continue
            leaves.remove(h0)
            keys = [key_path(l) for l in leaves]
            if any(k is None for k in keys) and not ch and key_toggle_helper(f, roles, w, body, leaves):
                # a helper private to the state's module that XORs a value handed in by its caller (`toggle_key(Some(k))`):
                # what is XORed is decided where it is called -- every caller is a writer of the state type and is read
                # with the helper inlined
                ctx.ok("%s:private-key-toggler" % short(w), {"helper": short(w), "xors": [sym.show(l)[:80] for l in leaves],
                                                                "callers": "methods of the state type only"})
                continue
            if any(k is None for k in keys):
                ctx.fail("%s:non-key-xor" % short(w), "%s XORs a value that is not a projection of a key constant into the hash: %s"
                         % (w, [sym.show(l)[:120] for l in leaves]), loc(body))
                continue
            state = set(ch)
            key = "%s:%s" % (short(w), ",".join(sorted(state)) or "nostate")
            sample = {"writer": short(w), "state_changed": sorted(state), "keys_xored": [sym.show(l)[:140] for l in leaves]}
            if not state:
                ctx.check(not keys, key + ":hash-only", "%s changes the hash on a path that changes no state field (keys %s)"
                          % (w, sample["keys_xored"]), loc(body), sample=sample)
                continue
            exp = expected_keys(ctx, f, body, p, ch, root, features, w, final)
            if exp is None:
                continue
            want, feat = exp
            got = sorted(keys, key=repr)
            ctx.check(sorted(want, key=repr) == got, key + ":lock-step",
                      "%s changes %s but XORs %s into the hash; the keys required for that state change are %s"
                      % (w, sorted(state), [show_key(k) for k in got], [show_key(k) for k in want]), loc(body), sample=sample)
    ctx.floor("writer paths", n_paths, 8)          # four writers, each with at least its two cases
    return features


def set_toggle_writer(ctx, f, w, body, paths, root, hf, features):
    """A placement writer for a whole set of squares: it toggles S in one colour board and one piece board and XORs,
    in a loop over exactly S whose body does nothing else, the key indexed by (that colour, that piece, the square at
    hand).  Iteration visits each member of S once (C18), so state and hash end in step.  -> True when the writer has
    this shape and was accounted for (its obligations recorded); False to let the general rule speak."""
    rets = [p for p in paths if p.end == "return"]
    backs = [p for p in paths if p.end == "loopback"]
    if len(rets) != 1 or len(backs) != 1 or len(paths) != 2:
        return False
    pr, pb = rets[0], backs[0]
    heads = [k for k in pr.pre_loop if k[0] == 0]
    if len(heads) != 1 or list(pr.pre_loop) != heads or list(pb.pre_loop) != heads:
        return False
    snap = pr.pre_loop[heads[0]]
    tag = body.key.rsplit("::", 1)[-1]
    Hh = ("hv", tag, "*self." + hf, heads[0][1])
    # before the loop: the hash untouched, two cells toggled by one set
    if snap.get(("*self", (("f", hf),))) != ("field", root, hf):
        return False
    written_in_loop = {path for (ln, path), v in snap.items() if ln == "*self"}
    if written_in_loop != {(("f", hf),)}:
        return False
    ch = changed_fields(pr.store[("P", "self")], root)
    if ch is None or ch.get(hf) != Hh:
        return False
    ch.pop(hf)
    if len(ch) != 2:
        return False
    cells = {x: is_cell_toggle(ch[x], ("field", root, x)) for x in ch}
    if not all(cells.values()):
        return False
    (fa, (ia, sa)), (fb, (ib, sb)) = sorted(cells.items())
    if sa != sb:
        return False
    S = sa
    # the loop runs over S
    its = [v for (ln, path), v in snap.items() if v is not None and v[0] in ("iter", "iter*", "iterk")]
    if len(its) != 1 or its[0][1] != S:
        return False
    # one iteration: hash ^= key[..][elem(S)], nothing else
    chb = changed_fields(pb.store[("P", "self")], root)
    if chb is None or set(chb) != set(ch) | {hf} or any(chb[x] != ch[x] for x in ch):
        return False
    leaves = cancel(xor_leaves(chb[hf]))
    if Hh not in leaves:
        return False
    leaves.remove(Hh)
    keys = [key_path(l) for l in leaves]
    if len(keys) != 1 or keys[0] is None:
        return False
    tab = keys[0]
    elem = ("elem", S)
    idxs = sorted([x[1] for x in tab[1] if isinstance(x, tuple)], key=repr)
    ok = idxs == sorted([ia, ib, enum_idx(elem)], key=repr)
    ctx.check(ok, "%s:set-toggle:lock-step" % short(w),
              "%s toggles a set of squares in %s[%s] and %s[%s] but the key XORed per square is not indexed by exactly those two values and the square"
              % (w, fa, sym.show(ia), fb, sym.show(ib)), loc(body),
              sample={"writer": short(w), "state_changed": [fa, fb], "per square of the set": show_key(tab)})
    if ok:
        feat = features.setdefault("piece", {})
        feat["table"] = table_shape(tab)
        feat["dims"] = [x[1] for x in tab[1] if isinstance(x, tuple)]
        feat["body"] = body
    return True


def loop_segment(ctx, w, body, p, final, root):
    """the final state of a path through a writer's loop, re-expressed over the state at the loop head"""
    heads = [k for k in p.pre_loop if k[0] == 0]
    if len(heads) != 1 or len(p.pre_loop) != 1:
        ctx.fail("%s:loops" % short(w), "writer %s has nested or several loops: not analysed" % w, loc(body))
        return None
    snap = p.pre_loop[heads[0]]
    hvmap = {}
    for (lname, path), oldv in snap.items():
        if lname != "*self":
            continue
        if len(path) != 1 or path[0][0] != "f":
            ctx.fail("%s:loop-state" % short(w), "writer %s: the loop writes a part of the state the rule cannot name (%s)" % (w, path), loc(body))
            return None
        fld = path[0][1]
        if oldv is not None and oldv != ("field", root, fld):
            ctx.fail("%s:state-before-loop" % short(w), "writer %s changes %s before its loop: not analysed" % (w, fld), loc(body))
            return None
        hvmap[("hv", body.key.rsplit("::", 1)[-1], "*self." + fld, heads[0][1])] = ("field", root, fld)

    def sub(e):
        if isinstance(e, tuple):
            if e in hvmap:
                return hvmap[e]
            return tuple(sub(x) for x in e)
        return e
    v = sub(final)
    # drop `field := field` left over from the havoc
    out = []
    while v != root:
        if v[0] != "with" or v[2][0] != "f":
            return v
        if v[3] != ("field", root, v[2][1]):
            out.append((v[2], v[3]))
        v = v[1]
    r = root
    for fl, val in reversed(out):
        r = ("with", r, fl, val)
    return r


def show_key(k):
    item, path = k
    return item.rsplit("::", 1)[-1] + "".join("[%s]" % sym.show(x[1]) if isinstance(x, tuple) else "." + x for x in path)


def short(w):
    return w.rsplit("::", 1)[-1]


def table_shape(k):
    item, path = k
    return item, tuple("[]" if isinstance(x, tuple) else x for x in path)


def params_by_type(body):
    """{type tail: [parameter names]} of a writer (self excluded)"""
    out = {}
    for i in range(2, body.argc + 1):
        ty = body.locals[i]["ty"]
        out.setdefault(ty.rsplit("::", 1)[-1].rstrip(">"), []).append(body.local_name(i))
    return out


def array_len_of_field(f, adt_name, field):
    """length of the array a state field holds (written as a number or as the NUM constant of the indexing enum)"""
    for fl in f.adts[adt_name]["variants"][0]["fields"]:
        if fl["name"] == field:
            import re
            m = re.search(r";\s*([\w:]+)\]$", fl["ty"])
            if not m:
                return None
            n = m.group(1)
            if n.isdigit():
                return int(n)
            return {"Piece::NUM": 6, "Color::NUM": 2, "Square::NUM": 64, "File::NUM": 8, "Rank::NUM": 8}.get(n.split("::", 1)[-1] if n.count("::") > 1 else n)
    return None


def expected_keys(ctx, f, body, p, ch, root, features, w, final=None):
    if final is None:
        final = p.store[("P", "self")]
    """required key multiset for the state change on this path"""
    sw = short(w)
    fields = set(ch)
    # placement: two array cells toggled by the same square bit
    if len(fields) == 2 and all(is_cell_toggle(ch[x], ("field", root, x)) for x in fields):
        cells = {x: is_cell_toggle(ch[x], ("field", root, x)) for x in fields}
        (fa, (ia, sa)), (fb, (ib, sb)) = sorted(cells.items())
        if sa != sb or sa[0] != "bbof":
            ctx.fail("%s:placement-square" % sw, "%s toggles different squares in its two bitboard arrays" % w, loc(body))
            return None
        sq = sa[1]
        # what the call means to its callers: toggle (piece, colour) at the square handed in -- the piece parameter indexes
        # the per-piece boards, the colour parameter the per-colour boards, the square parameter is the bit
        pt = params_by_type(body)
        ity_ = body.j.get("impl_self")
        okm = len(pt.get("Piece", [])) == 1 and len(pt.get("Color", [])) == 1 and len(pt.get("Square", [])) == 1
        if okm:
            pi, ci = enum_idx(("param", pt["Piece"][0])), enum_idx(("param", pt["Color"][0]))
            by_idx = {ia: fa, ib: fb}
            okm = set(by_idx) == {pi, ci} and array_len_of_field(f, ity_, by_idx[pi]) == 6 and array_len_of_field(f, ity_, by_idx[ci]) == 2 \
                and sq == ("param", pt["Square"][0])
        ctx.check(okm, "%s:meaning" % sw,
                  "%s does not toggle its square parameter in the per-piece board of its piece parameter and the per-colour board of its colour parameter" % w,
                  loc(body), sample={"writer": sw, "means": "pieces[piece] ^= bb(square); colors[color] ^= bb(square)"})
        feat = features.setdefault("piece", {})
        # find the key used: a key whose indices are exactly {ia, ib, idx(sq)}
        want_idx = sorted([ia, ib, enum_idx(sq)], key=repr)
        newhash = final
        tab = None
        for l in cancel(xor_leaves(find_hash(newhash, root))):
            kp = key_path(l)
            if kp:
                idxs = sorted([x[1] for x in kp[1] if isinstance(x, tuple)], key=repr)
                if idxs == want_idx:
                    tab = kp
        if tab is None:
            ctx.fail("%s:placement-key" % sw,
                     "%s toggles %s[%s], %s[%s] with bit(%s) but XORs no key indexed by exactly those three values"
                     % (w, fa, sym.show(ia), fb, sym.show(ib), sym.show(sq)), loc(body))
            return None
        feat["table"] = table_shape(tab)
        feat["dims"] = [x[1] for x in tab[1] if isinstance(x, tuple)]
        feat["body"] = body
        return [tab], "piece"
    if len(fields) == 1:
        fld = next(iter(fields))
        new = ch[fld]
        old = ("field", root, fld)
        # side toggle
        if new == ("cnot", old):
            feat = features.setdefault("side", {})
            keys = [key_path(l) for l in cancel(xor_leaves(find_hash(final, root))) if key_path(l)]
            if len(keys) == 1 and not any(isinstance(x, tuple) for x in keys[0][1]):
                feat["table"] = table_shape(keys[0])
                return [keys[0]], "side"
            ctx.fail("%s:side-key" % sw, "%s flips the side to move but does not XOR one scalar side key" % w, loc(body))
            return None
        # optional feature: whole field, or one cell/sub-field of it
        tgt, oldv, newv = option_update(new, old)
        if tgt is not None:
            # what the call means to its callers: the value parameter goes into the slot its other parameters name
            pt = params_by_type(body)
            okm = newv[0] == "param"
            if len(tgt) == 2:
                # (colour cell, wing sub-field): the colour parameter picks the cell; the bool parameter picks the wing
                # named `short` when true and `long` when false (the convention every caller is checked against)
                wing = None
                for c_ in p.conds:
                    if c_[0][0] == "param" and c_[0][1] in pt.get("bool", []) and isinstance(c_[1], int):
                        wing = "short" if c_[1] else "long"
                okm = okm and len(pt.get("Color", [])) == 1 and tgt[0] == enum_idx(("param", pt["Color"][0])) and wing is not None and tgt[1] == wing
            elif len(tgt) == 1:
                okm = okm and len(pt.get("Color", [])) == 1 and tgt[0] == enum_idx(("param", pt["Color"][0]))
            ctx.check(okm, "%s:%s:meaning" % (sw, fld),
                      "%s does not store its value parameter in the slot named by its colour / wing parameters (slot %s)" % (w, [sym.show(x) if isinstance(x, tuple) else x for x in tgt]),
                      loc(body), sample={"writer": sw, "slot": [sym.show(x) if isinstance(x, tuple) else x for x in tgt]})
            so, sn = opt_state(p, oldv), opt_state(p, newv)
            if so is None or sn is None:
                ctx.fail("%s:%s:undecided" % (sw, fld),
                         "%s replaces %s on a path that does not decide whether the old (%s) and the new (%s) value are Some; "
                         "the hash cannot be kept in step on such a path" % (w, fld, so, sn), loc(body))
                return None
            feat = features.setdefault(fld, {})
            want = []
            # table: learnt from any path that XORs a key for this feature
            keys = [key_path(l) for l in cancel(xor_leaves(find_hash(final, root))) if key_path(l)]
            for k in keys:
                feat.setdefault("table", table_shape(k))
                feat.setdefault("example", k)
                feat.setdefault("body", body)
            for k in keys:
                if table_shape(k) != feat["table"]:
                    ctx.fail("%s:%s:two-tables" % (sw, fld), "%s keys the feature %s from two different tables" % (w, fld), loc(body))
                    return None
            ex = feat.get("example")
            if (so == "Some" or sn == "Some") and ex is None:
                ctx.fail("%s:%s:no-key" % (sw, fld), "%s replaces %s but never XORs a key for it" % (w, fld), loc(body))
                return None
            outer = tgt  # index path of the updated cell (e.g. colour)
            if so == "Some":
                want.append(subst_key(ex, outer, enum_idx(payload(oldv))))
            if sn == "Some":
                want.append(subst_key(ex, outer, enum_idx(payload(newv))))
            want = cancel_keys(want)
            feat["outer"] = outer
            return want, fld
    ctx.fail("%s:unclassified" % sw, "%s changes %s in a way no lock-step pattern covers" % (w, sorted(fields)), loc(body))
    return None


def cancel_keys(ks):
    out = []
    for k in ks:
        if k in out:
            out.remove(k)
        else:
            out.append(k)
    return out


def subst_key(example, outer, last_idx):
    """key with the same table and outer indices, last index replaced"""
    item, path = example
    idxpos = [i for i, x in enumerate(path) if isinstance(x, tuple)]
    path = list(path)
    path[idxpos[-1]] = ("idx", last_idx)
    return item, tuple(path)


def find_hash(v, root):
    while v != root:
        if v[0] == "with" and v[2][0] == "f" and v[3] is not None:
            if v[2][1] == _HASH[0]:
                return v[3]
            v = v[1]
        else:
            break
    return ("field", root, _HASH[0])


_HASH = ["hash"]


def is_cell_toggle(new, old):
    """old{[i] := old[i] ^ X} -> (i, X)"""
    if new[0] == "with" and new[1] == old and new[2][0] == "i":
        i = new[2][1]
        v = new[3]
        cell = ("index", old, i)
        if v[0] == "xor" and cell in (v[1], v[2]):
            other = v[2] if v[1] == cell else v[1]
            return i, other
    return None


def option_update(new, old):
    """recognise  old := param  |  old{[i] := old[i]{sub := param}}  -> (outer index or (), old value, new value)"""
    if new[0] == "param":
        return (), old, new
    if new[0] == "with" and new[1] == old and new[2][0] == "i":
        i = new[2][1]
        cell = ("index", old, i)
        inner = new[3]
        if inner[0] == "with" and inner[1] == cell and inner[2][0] == "f" and inner[3][0] == "param":
            return (i, inner[2][1]), ("field", cell, inner[2][1]), inner[3]
        if inner[0] == "param":
            return (i,), cell, inner
    return None, None, None


def closed_writer_set(ctx, f, roles):
    ctx.rule("closed-writer-set")
    ity = roles.inner_ty
    adt = f.adts[ity]
    for fl in adt["variants"][0]["fields"]:
        ctx.check(not fl["pub"], "field-private:%s" % fl["name"],
                  "field %s of the inner position state is public: the hash can be desynchronised from outside" % fl["name"])
    outside = sorted({k for k in roles.direct_writers if f.bodies[k].j.get("impl_self") != ity})
    ctx.check(not outside, "writers-inside-state-type",
              "fields of the inner position state are written (or borrowed mutably) outside its own methods: %s" % outside,
              sample={"writers": sorted(short(k) for k in roles.writers)})
    ctx.floor("hash/state writers", len([k for k in roles.writers if f.bodies[k].j.get("impl_self") == ity]), 4)
    makers = []
    for k, b in f.bodies.items():
        for blk in b.blocks:
            for s in blk["stmts"]:
                if s["k"] == "assign" and s["rv"]["k"] == "agg" and s["rv"].get("adt") == ity:
                    makers.append(k)
    bad = sorted({k for k in makers if f.bodies[k].j.get("impl_self") != ity})
    ctx.check(not bad and makers, "constructed-only-by-itself",
              "the inner position state is constructed outside its own impl: %s" % bad, sample={"constructors": sorted(set(makers))})
    import re as _re
    own_module = ity.rsplit("::", 1)[0].split("::", 1)[-1]          # e.g. board::zobrist
    for k, fn in f.fns.items():
        if k.startswith(ity + "::") and "&mut" in fn["output"]:
            # a helper private to the module that defines the state (only the writers themselves can call it) may
            # select a slot by reference; anything visible further out may not
            m_ = _re.match(r"Restricted\(DefId\([^~]*~ [^:]*::(.*)\)\)$", fn.get("vis", ""))
            if m_ and m_.group(1) == own_module:
                ctx.ok("private-slot-selector:%s" % short(k), {"helper": short(k), "visible in": own_module})
                continue
            ctx.fail("hands-out-mut:%s" % short(k), "%s returns a mutable reference into the position state" % k)
    # empty(): zero hash, nothing on the board
    for k in set(makers):
        b = f.bodies[k]
        ps = sym.SymExec(f, b).run()
        for p in ps:
            r = p.ret
            if r is None or r[0] != "agg":
                ctx.fail("%s:shape" % short(k), "%s does not return a plain aggregate" % k, loc(b))
                continue
            fields = dict(r[4])
            h = fields.get(roles.hash_field)
            empty = True
            for n, v in fields.items():
                if n == roles.hash_field:
                    continue
                if not is_empty_value(v):
                    empty = False
            ctx.check(h == ("int", 0, "u64") and empty, "%s:zero-hash-empty-state" % short(k),
                      "%s does not start from (empty position, hash 0): %s" % (k, sym.show(r)[:300]), loc(b),
                      sample={"constructor": short(k), "hash": sym.show(h) if h else None})


def private_part_of_writers(f, roles, w):
    """w is visible only inside the module that defines the position state and every caller is a method of the state
    type that is not itself such a private part without callers (so every use is read through a writer visible outside)"""
    import re as _re
    from ..facts import callee_name
    ity = roles.inner_ty
    own_module = ity.rsplit("::", 1)[0].split("::", 1)[-1]

    def private(k):
        m_ = _re.match(r"Restricted\(DefId\([^~]*~ [^:]*::(.*)\)\)$", (f.fns.get(k) or {}).get("vis", ""))
        return bool(m_ and m_.group(1) == own_module)
    if not private(w):
        return False
    seen, work = set(), [w]
    reaches_visible = False
    while work:
        k = work.pop()
        callers = {k2.split("::{closure")[0] for k2, b in f.bodies.items() if any(callee_name(t) == k for _, t in b.calls())}
        if not callers:
            continue
        for c in callers:
            cb = f.bodies.get(c)
            if cb is None or cb.j.get("impl_self") != ity:
                return False
            if private(c):
                if c not in seen:
                    seen.add(c)
                    work.append(c)
            else:
                reaches_visible = True
    return reaches_visible


def key_toggle_helper(f, roles, w, body, leaves):
    """w is private to the module that defines the position state, everything it XORs into the hash besides keys comes
    from its own parameters, and it is called only from methods of the state type"""
    import re as _re
    from ..facts import callee_name
    ity = roles.inner_ty
    own_module = ity.rsplit("::", 1)[0].split("::", 1)[-1]
    fn = f.fns.get(w) or {}
    m_ = _re.match(r"Restricted\(DefId\([^~]*~ [^:]*::(.*)\)\)$", fn.get("vis", ""))
    if not (m_ and m_.group(1) == own_module):
        return False
    params = {body.local_name(i) for i in range(2, body.argc + 1)}
    for l in leaves:
        if key_path(l) is not None:
            continue
        roots_ = sym.subterms(l, lambda y: y[0] in ("param", "obj", "call", "hv", "field") and y[0] != "field")
        if not roots_ or any(not (r_[0] == "param" and r_[1] in params) for r_ in roots_):
            return False
    callers = [k for k, b in f.bodies.items() if any(callee_name(t) == w for _, t in b.calls())]
    return bool(callers) and all(f.bodies[k].j.get("impl_self") == ity or f.bodies[k].kind == "Closure" and k.startswith(ity + "::") for k in callers)


def is_empty_value(v):
    if v[0] == "bbconst":
        return v[1] == 0
    if v[0] == "repeat":
        return is_empty_value(v[1])
    if v[0] == "array":
        return all(is_empty_value(x) for x in v[1])
    if v[0] == "enum":
        return v[2] == "White"
    if v[0] == "agg":
        if v[2] == "None":
            return True
        return all(is_empty_value(x) for _, x in v[4])
    return False


def non_interference(ctx, f, roles, features):
    ctx.rule("non-interference")
    root = ("obj", "self")
    b, ps = paths_of(f, B + "::hash")
    ctx.check(len(ps) == 1, "hash:pure-read", "Board::hash is not a single field read", loc(b),
              sample={"Board::hash": sym.show(ps[0].ret)})
    b, ps = paths_of(f, B + "::hash_without_ep")
    inner = ("field", root, roles.inner_field)
    h = ("field", inner, roles.hash_field)
    ep_feat = None
    for name, ft in features.items():
        if name not in ("piece", "side") and ft.get("outer") == ():
            ep_feat = (name, ft)
    if not ctx.check(ep_feat is not None, "ep-feature", "no whole-field optional feature (en-passant file) writer found"):
        return
    epname, ft = ep_feat
    epv = ("field", inner, epname)
    n = 0
    for p in ps:
        st = opt_state(p, epv)
        leaves = cancel(xor_leaves(p.ret)) if p.ret else []
        if st == "None":
            n += 1
            ctx.check(leaves == [h], "hash_without_ep:none", "hash_without_ep with no en-passant file is not the plain hash: %s"
                      % sym.show(p.ret), loc(b), sample={"ep": "None", "returns": sym.show(p.ret)})
        elif st == "Some":
            n += 1
            ks = [key_path(l) for l in leaves if l != h]
            want = subst_key(ft["example"], (), enum_idx(payload(epv)))
            # the example key was recorded relative to the writer's `self`; re-root its indices
            ok = h in leaves and len(ks) == 1 and ks[0] is not None and zob_shape(ks[0]) == zob_shape(want) \
                and last_index(ks[0]) == enum_idx(payload(epv))
            ctx.check(ok, "hash_without_ep:some",
                      "hash_without_ep does not XOR exactly the key of the current en-passant file from the writer's table: %s"
                      % sym.show(p.ret)[:300], loc(b), sample={"ep": "Some(f)", "returns": sym.show(p.ret)[:200]})
        else:
            ctx.fail("hash_without_ep:undecided", "hash_without_ep has a path that does not test the en-passant field", loc(b))
    ctx.floor("hash_without_ep paths", n, 2)
    # the getters read nothing else: their return expressions mention only inner.hash / inner.en_passant / key table
    for p in ps:
        used = sym.subterms(p.ret, lambda x: x[0] == "field" and x[1] == root)
        ctx.check(all(u[2] == roles.inner_field for u in used), "hash_without_ep:reads-only-inner",
                  "hash_without_ep reads board fields outside the position state: %s" % used, loc(b))


def zob_shape(k):
    return k[0], tuple("[]" if isinstance(x, tuple) else x for x in k[1])


def last_index(k):
    idx = [x[1] for x in k[1] if isinstance(x, tuple)]
    return idx[-1] if idx else None


def run(ctx):
    if ctx.pid != "C10":
        # included by another property's check: once per run is enough
        key = ("c10", getattr(ctx, "rule_suffix", ""))
        done = ctx.__dict__.setdefault("_groups_done", set())
        if key in done:
            return
        done.add(key)
    ctx.explanation = __doc__
    f = ctx.facts("A")
    roles = zob.Roles(ctx, f)
    _HASH[0] = roles.hash_field
    ctx.note("inner state type %s, hash field %s, state fields %s" % (roles.inner_ty, roles.hash_field, roles.state_fields))
    closed_writer_set(ctx, f, roles)
    features = analyse_writers(ctx, f, roles)
    ctx.rule("feature-coverage")
    # every state field other than the hash is keyed by some writer
    keyed = set()
    for name, ft in features.items():
        if name == "piece":
            keyed |= {"pieces", "colors"} if False else set()
    covered = set(features)
    ctx.note("features keyed: %s" % {k: v.get("table") for k, v in features.items()})
    ctx.check("piece" in features and "side" in features and len(features) >= 4, "all-feature-kinds-keyed",
              "not every feature kind (placement, side, castling right, en-passant) has a writer that keys it: %s" % sorted(features),
              sample={"features": {k: str(v.get("table")) for k, v in features.items()}})
    shapes = [v.get("table") for v in features.values()]
    ctx.check(len(set(shapes)) == len(shapes), "distinct-tables", "two feature kinds share one key table: %s" % shapes)
    non_interference(ctx, f, roles, features)
    ctx.assumptions.append("induction from per-writer lock-step to all histories is a written argument (DESIGN.md C10)")
    return features
