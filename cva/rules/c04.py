"""C04 is_legal agrees with move generation for every conceivable move.

Decided: the legality predicate is executed symbolically on all paths (is_legal and its king
helper; the pawn generator, can_castle and king_safe_on stay opaque because C01 already pins
their meaning) and compared, path by path, with a reference decision function derived from the
generator specification of C01:
  legal(mv) =  own piece on from  AND
    king  : no promotion AND ( castle_W: no checkers, right W present, to == (right file, back rank),
            can_castle(right file, G,F | C,D)   OR   to in king_moves(from) & !own AND king_safe_on(to) )
    other : (not pinned OR to on line(king, from)) AND at most one checker AND
            pawn  : (to on 8th rel. rank <=> promotion in {N,B,R,Q}; otherwise no promotion) AND the pawn
                    generator restricted to {from}, in the matching check mode, offers to
            N/B/R/Q: no promotion AND to in targets(check mode) & leaper/ray set of from
                    [AND between(from,to) & occupied empty for sliders]
Three-valued evaluation: a path answering false must have decided some conjunct false; a path
answering true/with a residual expression must have decided every other conjunct true and return
exactly the residual conjunct.  Set-valued operands are compared by Boolean equivalence.
Also: a panic audit of the predicate.  The agreement of this reference function with the
generators on accepted boards (a pinned piece can never resolve a check) is a geometric argument
recorded in DESIGN.md, not mechanised."""
from ..facts import callee_name as facts_callee
from .names import names
from .common import square_equals3, option_is_some_of3
from .. import sym, lift, setalg, panics
from . import movegen, zob
from .movegen import (SELF, STM, NSTM, OWN, OCC, PINNED, CHECKERS, K, AND, OR, NOT, PIECE, FILE, bb, targets)
from .common import B, loc

MV = ("param", "mv")
FROM = ("field", MV, "from")
TO = ("field", MV, "to")
PROMO = ("field", MV, "promotion")
PIECES = ["Pawn", "Knight", "Bishop", "Rook", "Queen", "King"]
ON = ("piece_on", SELF, FROM)
ONP = zob.payload(ON)


class Facts3:
    """three-valued facts a path has decided"""

    def __init__(self):
        self.b = {}            # atom name -> bool
        self.kind = None
        self.kind_excl = set()
        self.promo = None      # 'Some' | 'None'
        self.promo_piece = None
        self.promo_excl = set()
        self.nchk = None       # 0 | 1 | 'many'
        self.has = []          # (set expr canon, square, bool)
        self.unknown = []


def opt_from_discr(v, some_idx=1):
    if isinstance(v, int):
        return "Some" if v == some_idx else "None"
    vals = set(v[1])
    if some_idx in vals and (1 - some_idx) not in vals:
        return "None"
    if (1 - some_idx) in vals and some_idx not in vals:
        return "Some"
    return None


def opt_test(e, v, X):
    """e (decided as v) tests whether the Option X is Some: -> 'Some' | 'None' | None (not such a test / undecided)"""
    if e == ("discr", X):
        return opt_from_discr(v)
    if e[0] == "bin" and e[1] in ("Eq", "Ne") and ("discr", X) in (e[2], e[3]) and isinstance(v, int):
        other = e[3] if e[2] == ("discr", X) else e[2]
        if other[0] == "int" and other[1] in (0, 1):
            holds = (e[1] == "Eq") == bool(v)
            return "Some" if (other[1] == 1) == holds else "None"
    return None


def is_opt_test(e, X):
    return e == ("discr", X) or (e[0] == "bin" and e[1] in ("Eq", "Ne") and ("discr", X) in (e[2], e[3]) and
                                 (e[3] if e[2] == ("discr", X) else e[2])[0] == "int")


def subst(e, old, new):
    if e == old:
        return new
    if isinstance(e, tuple):
        return tuple(subst(x, old, new) for x in e)
    return e


def from_is_king(L, p):
    """the path has established mv.from == king square of the mover: the two name the same square from there on"""
    for c in p.conds:
        e = L.lift(c[0])
        if e[0] == "bin" and e[1] in ("Eq", "Ne") and set((e[2], e[3])) == {K, FROM} and isinstance(c[1], int):
            return (e[1] == "Eq") == bool(c[1])
    return None


def gather(L, p, extra_atoms):
    F = Facts3()
    some_pawn = None
    same = from_is_king(L, p) is True
    for c in p.conds:
        e = L.lift(c[0])
        v = c[1]
        if same and not (e[0] == "bin" and set((e[2], e[3])) == {K, FROM}):
            e = subst(e, K, FROM)
        if e == ("has", OWN, FROM):
            F.b["own_from"] = bool(v)
        elif e[0] == "bin" and e[1] in ("Eq", "Ne") and set((e[2], e[3])) == {K, FROM} and isinstance(v, int):
            F.b["is_king"] = (e[1] == "Eq") == bool(v)
        elif is_opt_test(e, PROMO):
            st = opt_test(e, v, PROMO)
            if st:
                F.promo = st
        elif e == ("discr", zob.payload(PROMO)):
            if isinstance(v, int):
                F.promo_piece = PIECES[v]
            else:
                F.promo_excl |= {PIECES[x] for x in v[1] if x < 6}
        elif e[0] == "bin" and e[1] in ("Lt", "Le", "Gt", "Ge") and isinstance(v, int) and zob.payload(PROMO) in (e[2], e[3]) and \
                (e[3] if e[2] == zob.payload(PROMO) else e[2])[0] == "enum" and (e[3] if e[2] == zob.payload(PROMO) else e[2])[1] == PIECE:
            # an ordering test on the promotion piece (the derived order is the declaration order): the kinds it leaves
            left_is_promo = e[2] == zob.payload(PROMO)
            k_ = PIECES.index((e[3] if left_is_promo else e[2])[2])
            op_ = e[1] if left_is_promo else {"Lt": "Gt", "Le": "Ge", "Gt": "Lt", "Ge": "Le"}[e[1]]
            sat = {x for i_, x in enumerate(PIECES) if {"Lt": i_ < k_, "Le": i_ <= k_, "Gt": i_ > k_, "Ge": i_ >= k_}[op_] == bool(v)}
            F.promo_excl |= set(PIECES) - sat
            left_ = [x for x in PIECES if x not in F.promo_excl]
            if len(left_) == 1:
                F.promo_piece = left_[0]
        elif e == ("has", PINNED, FROM):
            F.b["pinned_from"] = bool(v)
        elif e[0] == "has" and e[2] == TO and e[1][0] == "line" and set(e[1][1:]) == {K, FROM}:
            F.b["on_line"] = bool(v)
        elif e == ("len", CHECKERS):
            F.nchk = v if isinstance(v, int) and v in (0, 1) else ("many" if not isinstance(v, int) and set(v[1]) >= {0, 1} else None)
        elif e == ("isempty", CHECKERS) and isinstance(v, int):
            F.b["chk_empty"] = bool(v)
        elif is_opt_test(e, ON):
            st = opt_test(e, v, ON)
            if st == "None":
                F.kind = "None"
            elif st == "Some":
                F.b["on_some"] = True
        elif e == ("discr", ONP):
            if isinstance(v, int):
                F.kind = PIECES[v]
            else:
                F.kind_excl |= {PIECES[x] for x in v[1] if x < 6}
        elif e[0] == "bin" and e[1] in ("Eq", "Ne") and ONP in (e[2], e[3]) and isinstance(v, int) and \
                (e[3] if e[2] == ONP else e[2])[0] == "enum" and (e[3] if e[2] == ONP else e[2])[1] == PIECE:
            # `piece == Piece::X` on the unwrapped piece
            other = e[3] if e[2] == ONP else e[2]
            if (e[1] == "Eq") == bool(v):
                F.kind = other[2]
            else:
                F.kind_excl.add(other[2])
            F.b["on_some"] = True
        elif e[0] == "bin" and e[1] in ("Eq", "Ne") and ON in (e[2], e[3]) and isinstance(v, int):
            other = e[3] if e[2] == ON else e[2]
            if other[0] == "agg" and other[2] == "Some" and dict(other[4]).get("0") == ("enum", PIECE, "Pawn"):
                is_pawn = (e[1] == "Eq") == bool(v)
                F.b["is_pawn"] = is_pawn
            else:
                F.unknown.append(e)
        elif e[0] == "bin" and e[1] in ("Eq", "Ne") and set((e[2], e[3])) == {("relrank", 7, STM), ("rank", TO)} and isinstance(v, int):
            F.b["to_eighth"] = (e[1] == "Eq") == bool(v)
        elif e[0] == "has" and isinstance(v, int):
            F.has.append((e[1], e[2], bool(v)))
        else:
            handled = False
            for name, fn in extra_atoms.items():
                r = fn(e, v)
                if r is not None:
                    F.b[name] = r
                    handled = True
            if not handled:
                F.unknown.append(e)
    if F.b.get("is_pawn") is True:
        F.kind = "Pawn"
    elif F.b.get("is_pawn") is False:
        F.kind_excl.add("Pawn")
    if F.kind is None and F.b.get("on_some") and len(set(PIECES) - F.kind_excl) == 1:
        F.kind = next(iter(set(PIECES) - F.kind_excl))      # the catch-all arm of a match that named every other kind
    F.b.pop("on_some", None)
    return F


def and3(vals):
    """vals: list of True/False/None"""
    if any(v is False for v in vals):
        return False
    if any(v is None for v in vals):
        return None
    return True


def check_is_legal(ctx, f, L):
    body = f.need(B + "::is_legal")
    N = names(f)
    opaque_here = set(N.generators.values()) | {N.can_castle, N.king_safe_on, N.roster}
    kil = N.king_is_legal

    own_helpers = N.exclusive_helpers(B + "::is_legal")

    def noin(n):
        if n in opaque_here:
            return False
        if kil is not None and n == kil:
            return True            # the king branch is read as part of is_legal, whether or not it is a function of its own
        if n in own_helpers:
            return True            # so is any helper only is_legal uses (a branch per piece kind moved into a function)
        return None
    paths = sym.SymExec(f, body, inline=noin, max_depth=6).run()
    where = loc(body)
    ctx.saw("%s: %d paths" % (body.key, len(paths)))
    seen = set()
    n = 0
    for p in paths:
        if p.end != "return":
            ctx.fail("is_legal:path-end", "is_legal has a path ending in %s" % p.end, where)
            continue
        n += 1
        KS = king_state()
        F = gather(L, p, {"king": lambda e_, v_: king_decision(KS, N, e_, v_)})
        for u in F.unknown:
            ctx.fail("is_legal:unknown-decision", "is_legal branches on a condition the reference function does not know: %s" % sym.show(u)[:200], where)
        ret = L.lift(p.ret)
        if from_is_king(L, p) is True:
            ret = subst(ret, K, FROM)
        # ---- reference conjuncts
        conj = {"own piece on from": F.b.get("own_from")}
        residual = None
        case = None
        isk = F.b.get("is_king")
        if isk is True:
            case = "king"
            if KS["promo"] is not None and F.promo is None:
                F.promo = "Some" if KS["promo"] else "None"
            conj["no promotion"] = None if F.promo is None else (F.promo == "None")
            # castling (either wing) or an ordinary step to a safe square
            for w, (kf_, rf_) in (("short", ("G", "F")), ("long", ("C", "D"))):
                ws = KS["wing"][w]
                if ws["args"] is not None:
                    ctx.check(ws["args"] == (("enum", FILE, kf_), ("enum", FILE, rf_)), "king:%s:dest-files" % w,
                              "%s castling is tested with destination files %s instead of (%s, %s)" % (w, [sym.show(a) for a in ws["args"]], kf_, rf_), where)
            chk_empty = KS["chk_empty"]
            if chk_empty is None and F.nchk is not None:
                chk_empty = F.nchk == 0
            if chk_empty is None and F.b.get("chk_empty") is not None:
                chk_empty = F.b["chk_empty"]
            dis = {}
            lifted_ = [(L.lift(c_[0]), c_[1]) for c_ in p.conds]
            back_ = ("relrank", 0, STM)
            rank_at = None
            for e_, v_ in lifted_:
                if e_[0] == "bin" and e_[1] in ("Eq", "Ne") and {e_[2], e_[3]} == {back_, ("rank", TO)} and isinstance(v_, int):
                    rank_at = (e_[1] == "Eq") == bool(v_)
            for w in ("short", "long"):
                ws = KS["wing"][w]
                rf_ = ("field", ("get", "castle_rights", SELF, STM), w)
                pl_ = zob.payload(rf_)
                if ws["at"] is None and ws["some"]:
                    # destination == the right's rook square, possibly decided through its file and its rank
                    ws["at"] = square_equals3(lifted_, ("sq", pl_, back_), TO)
                if ws["some"] is None or ws["at"] is None:
                    # `rights.W == Some(to.file())` together with `to.rank() == back rank`
                    sf = option_is_some_of3(lifted_, rf_, ("file", TO))
                    both = and3([sf, rank_at])
                    if both is not None:
                        ws["some"], ws["at"] = (True, True) if both else (ws["some"] if ws["some"] is not None else True, False)
                        if both is False and ws["some"] is None:
                            ws["some"] = True
                dis[w] = and3([chk_empty, ws["some"], ws["at"] if ws["some"] else (False if ws["some"] is False else None),
                               ws["can"] if (ws["some"] and ws["at"]) else (False if (ws["some"] is False or ws["at"] is False) else None)])
            step = KS["step"]
            if step is None:
                step_set_ = AND(("kingmoves", FROM), NOT(OWN))
                step = setalg.membership3(step_set_, [(s_, hv_) for (s_, sq_, hv_) in F.has if sq_ == TO])
            base = and3(list(conj.values()))
            kcase = None
            if ret == sym.TRUE:
                ok = base is True and (dis["short"] is True or dis["long"] is True)
                ctx.check(ok, "king:true-justified", "is_legal answers true for a king move on a path where neither castling disjunct is fully established (%s, %s)" % (conj, dis), where,
                          sample={"case": "castle", "answer": True} if ("king", "T") not in seen else None)
                kcase = "T"
            elif ret == sym.FALSE:
                ok = base is False or (dis["short"] is False and dis["long"] is False and step is False)
                ctx.check(ok, "king:false-justified",
                          "is_legal answers false for a king move although nothing of the reference function is refuted (%s, castles %s, step %s)" % (conj, dis, step), where)
                kcase = "F"
            else:
                ok = ret[0] == "call" and ret[1] == N.king_safe_on and ret[2][1] == TO and ret[2][0][0] == "ptr" and ret[2][0][1] == ("P", "self") \
                    and base is True and dis["short"] is False and dis["long"] is False and step is True
                ctx.check(ok, "king:step-residual",
                          "is_legal returns %s for a king move on a path where (%s, castles %s, ordinary step %s); required king_safe_on(mv.to) exactly when both castles are refuted and the step is admissible"
                          % (sym.show(ret)[:120], conj, dis, step), where, sample={"case": "king step", "returns": "king_safe_on(mv.to)"} if ("king", "S") not in seen else None)
                kcase = "S"
            seen.add(("king", kcase))
            seen.add(("king", "R"))
            continue
        elif isk is False:
            pin = F.b.get("pinned_from")
            if pin is False:
                conj["pin line"] = True
            elif pin is True:
                conj["pin line"] = F.b.get("on_line")
            else:
                conj["pin line"] = None
            conj["at most one checker"] = None if F.nchk is None else (F.nchk != "many")
            kind = F.kind
            if kind is None and F.kind_excl:
                conj["piece kind"] = None
            if kind in ("None", "King"):
                conj["movable non-king piece"] = False
                case = "none/king"
            elif kind == "Pawn":
                case = "pawn"
                e8 = F.b.get("to_eighth")
                if F.promo == "Some" and (F.promo_piece in ("Pawn", "King") or {"Knight", "Bishop", "Rook", "Queen"} <= F.promo_excl):
                    conj["promotion shape"] = False         # no rank admits a promotion to a pawn or a king
                elif e8 is None or F.promo is None:
                    conj["promotion shape"] = None
                elif e8:
                    if F.promo == "None":
                        conj["promotion shape"] = False
                    elif F.promo_piece in ("Knight", "Bishop", "Rook", "Queen"):
                        conj["promotion shape"] = True
                    elif F.promo == "Some" and {"Pawn", "King"} <= F.promo_excl and not {"Knight", "Bishop", "Rook", "Queen"} <= F.promo_excl:
                        conj["promotion shape"] = True          # (decided by exclusion: an ordering test or a run of != tests)
                    elif F.promo_piece in ("Pawn", "King") or {"Knight", "Bishop", "Rook", "Queen"} <= F.promo_excl:
                        conj["promotion shape"] = False
                    else:
                        conj["promotion shape"] = None
                else:
                    conj["promotion shape"] = (F.promo == "None")
                inchk = None
                if F.nchk in (0, 1):
                    inchk = F.nchk == 1
                flag = "true" if inchk else "false"
                residual = ("pawn-generator", flag)
            elif kind in ("Knight", "Bishop", "Rook", "Queen"):
                case = kind
                conj["no promotion"] = None if F.promo is None else (F.promo == "None")
                if F.nchk in (0, 1):
                    tg = targets(F.nchk == 1)
                    rays = {"Knight": ("knight", FROM), "Bishop": ("bishoprays", FROM), "Rook": ("rookrays", FROM),
                            "Queen": OR(("rookrays", FROM), ("bishoprays", FROM))}[kind]
                    want_set = AND(tg, rays)
                    # what the membership tests made on this path (in whatever order and grouping) say about
                    # `to in targets & rays`
                    facts_ = [(s, hv) for (s, sq, hv) in F.has if sq == TO]
                    m3 = setalg.membership3(want_set, facts_)
                    if kind == "Knight":
                        if m3 is None:
                            residual = ("has", want_set, TO, facts_)
                        else:
                            conj["destination in targets & knight moves"] = m3
                    else:
                        conj["destination in targets & rays"] = m3
                        residual = ("isempty", AND(("between", FROM, TO), OCC))
            elif kind is None:
                conj["piece kind"] = None
                if "Pawn" in F.kind_excl:
                    conj["no promotion (non-pawn)"] = None if F.promo is None else (F.promo == "None")
        else:
            conj["is it the king?"] = None
        verdict = and3(list(conj.values()))
        key = "is_legal:%s" % (case or "early")
        if ret == sym.FALSE:
            ok = verdict is False
            ctx.check(ok, key + ":false-justified",
                      "is_legal answers false on a path where no condition of the reference function is decided false (decided: %s)" % conj, where,
                      sample={"case": case, "answer": "false", "because": [k for k, v in conj.items() if v is False]} if (case, "F") not in seen else None)
            seen.add((case, "F"))
        else:
            if verdict is False:
                ctx.fail(key + ":accepts-too-much", "is_legal can answer non-false although %s is decided false"
                         % [k for k, v in conj.items() if v is False], where)
                continue
            if verdict is None:
                ctx.fail(key + ":undecided", "is_legal answers without deciding: %s (case %s)" % ([k for k, v in conj.items() if v is None], case), where)
                continue
            ok = False
            if residual is None:
                ok = ret == sym.TRUE
            elif residual[0] == "pawn-generator":
                pg = N.generators["Pawn"]
                cls = N.gen_call_classes(pg)
                flag_v = sym.TRUE if residual[1] == "true" else sym.FALSE
                # the check mode as a constant generic of the call, or handed in as a runtime flag
                ok = ret[0] == "call" and ret[1] == pg and ((len(ret) > 3 and residual[1] in ret[3]) or flag_v in ret[2]) and len(ret[2]) == len(cls)
                li = cls.index("listener") if "listener" in cls else 2
                if ok:
                    raw_args = p.ret[2]
                    bound = N.gen_bound_params(pg, residual[1] == "true")
                    pgb = f.bodies[pg]
                    for i_, c_ in enumerate(cls):
                        a_ = ret[2][i_]
                        if c_ == "self":
                            ok = ok and a_[0] == "ptr" and a_[1] == ("P", "self")
                        elif c_ == "mask":
                            ok = ok and a_ == ("bbof", FROM)
                        elif c_ == "bound" and a_ in (sym.TRUE, sym.FALSE) and f.bodies[pg].locals[i_ + 1]["ty"] == "bool":
                            ok = ok and a_ == flag_v            # the runtime check-mode flag
                        elif c_ == "bound":
                            # a value the roster computes and hands in: is_legal must hand in the same value
                            want_ = L.lift(bound.get(pgb.local_name(i_ + 1)))
                            ok = ok and (a_ == want_ or setalg.equivalent(a_, want_))
                # listener: |moves| moves.to.has(mv.to)
                if ok:
                    cl = None
                    for ev in p.events:
                        if ev.kind == "call" and ev.ret == p.ret:
                            cl = ev.extra.get("pointees", {}).get(li)
                    okc = False
                    if cl is not None and cl[0] == "closure":
                        cb = f.bodies.get(cl[1])
                        cps = sym.SymExec(f, cb).run() if cb else []
                        if len(cps) == 1 and cps[0].ret is not None:
                            r = L.lift(cps[0].ret)
                            okc = r[0] == "has" and r[1] == ("field", ("param", "moves"), "to")
                            # upvar is mv.to
                            okc = okc and len(cl[2]) == 1
                    ok = okc
            elif residual[0] == "call":
                # king_is_legal on this board and this move (further arguments are bound and checked in check_king_is_legal)
                ok = ret[0] == "call" and ret[1] == residual[1] and MV in ret[2] and ret[2][0][0] == "ptr" and ret[2][0][1] == ("P", "self")
            elif residual[0] == "has":
                # the returned membership test completes the decided ones to exactly `to in wanted set`
                ok = ret[0] == "has" and ret[2] == residual[2] and \
                    setalg.membership3(residual[1], residual[3] + [(ret[1], True)]) is True and \
                    setalg.membership3(residual[1], residual[3] + [(ret[1], False)]) is False
            elif residual[0] == "isempty":
                ok = ret[0] == "isempty" and setalg.equivalent(ret[1], residual[1])
            ctx.check(ok, key + ":residual",
                      "with every other condition true, is_legal returns %s; the reference function requires %s"
                      % (sym.show(ret)[:240], residual if residual and residual[0] == "pawn-generator" else (sym.show(residual)[:240] if residual else "true")), where,
                      sample={"case": case, "returns": sym.show(ret)[:160]} if (case, "R") not in seen else None)
            seen.add((case, "R"))
    ctx.floor("is_legal paths", n, 60)
    need = {"king", "pawn", "Knight", "Bishop", "Rook", "Queen"}
    got = {c for c, _ in seen}
    ctx.check(need <= got, "is_legal:cases", "piece kinds not recognised on any path: %s" % sorted(need - got), where)


def king_state():
    return {"chk_empty": None, "promo": None, "step": None,
            "wing": {"short": {"some": None, "at": None, "can": None, "args": None}, "long": {"some": None, "at": None, "can": None, "args": None}}}


def king_decision(KS, N, e, v):
    """record a decision of the king branch (castle right present, destination is its rook square, can_castle, ordinary
    step admissible, checkers empty); -> True when the decision was recognised"""
    rights = ("get", "castle_rights", SELF, STM)
    back = ("relrank", 0, STM)
    step_set = AND(("kingmoves", FROM), NOT(OWN))
    if e == ("isempty", CHECKERS) and isinstance(v, int):
        KS["chk_empty"] = bool(v)
        return True
    if e[0] == "bin" and e[1] in ("Eq", "Ne") and {e[2], e[3]} == {back, ("rank", TO)} and isinstance(v, int):
        return True          # `to` on the mover's back rank: read together with the file comparison (square_equals3 / option_is_some_of3)
    for w_ in ("short", "long"):
        rf_ = ("field", rights, w_)
        if e[0] == "bin" and e[1] in ("Eq", "Ne") and rf_ in (e[2], e[3]) and isinstance(v, int):
            o_ = e[3] if e[2] == rf_ else e[2]
            if o_[0] == "agg" and o_[2] == "Some":
                return True      # `rights.W == Some(file)`: read by option_is_some_of3
    if e[0] == "has" and e[2] == TO and isinstance(v, int) and setalg.equivalent(e[1], step_set):
        KS["step"] = bool(v)
        return True
    for w in ("short", "long"):
        rf = ("field", rights, w)
        pl = zob.payload(rf)
        if is_opt_test(e, rf):
            s_ = opt_test(e, v, rf)
            KS["wing"][w]["some"] = None if s_ is None else (s_ == "Some")
            return True
        if e[0] == "bin" and e[1] in ("Eq", "Ne") and set((e[2], e[3])) == {("sq", pl, back), TO} and isinstance(v, int):
            KS["wing"][w]["at"] = (e[1] == "Eq") == bool(v)
            return True
        if e[0] == "call" and e[1] == N.can_castle and isinstance(v, int) and e[2][1] == ("file", TO):
            # named through the destination's file: belongs to the wing whose destination files are asked for
            ww = "short" if e[2][2] == ("enum", FILE, "G") else ("long" if e[2][2] == ("enum", FILE, "C") else None)
            if ww == w:
                KS["wing"][w]["can"] = bool(v)
                KS["wing"][w]["args"] = (e[2][2], e[2][3])
                KS["wing"][w]["via_to_file"] = True
                return True
        if e[0] == "call" and e[1] == N.can_castle and isinstance(v, int) and (e[2][1] == pl or e[2][1] == ("sq", pl, back)):
            KS["wing"][w]["can"] = bool(v)
            KS["wing"][w]["args"] = (e[2][2], e[2][3])
            return True
    return None


def check_king_is_legal(ctx, f, L):
    """the king branch is checked as part of is_legal (check_is_legal inlines it); kept for callers that name it"""
    ctx.ok("king-branch-read-inside-is_legal")


PANIC_TABLE = {
    ("Board::king", "expect", "bitboard::BitBoard::next_square"): "every accepted board has exactly one king per colour (C06)",
    ("<target-squares>", "unwrap", "bitboard::BitBoard::next_square"): "instantiated with IN_CHECK=true only under len(checkers) == 1",
    ("get_bishop_moves", "assert", "BoundsCheck"): "C05 in-bounds audit",
    ("get_rook_moves", "assert", "BoundsCheck"): "C05 in-bounds audit",
    ("pext::get_pext_index", "assert", "Overflow:Add(usize)"):
        "PEXT back end: C05 evaluates offset + pext(occupancy, mask) for every square and relevant subset and finds it inside the table",
    ("rank::Rank::index_const", "panic", "panic_fmt"): "documented panicking constructor; callers proved in range",
    ("square::Square::index_const", "panic", "panic_fmt"): "documented panicking constructor; callers proved in range",
    ("file::File::index_const", "panic", "panic_fmt"): "documented panicking constructor; callers proved in range",
}


def role_table(f):
    """the panic table with the private target-square helper named as it is called today"""
    from .names import names as _names
    from ..panics import short as _short
    tab = dict(PANIC_TABLE)
    tab[(_short(_names(f).target_squares), "unwrap", "bitboard::BitBoard::next_square")] = tab.pop(("<target-squares>", "unwrap", "bitboard::BitBoard::next_square"))
    return tab


def run(ctx):
    ctx.explanation = __doc__
    f = ctx.facts("A")
    L = lift.Lifter(f)
    ctx.rule("is_legal.reference-function")
    check_is_legal(ctx, f, L)
    ctx.rule("king_is_legal.reference-function")
    check_king_is_legal(ctx, f, L)
    ctx.rule("shared-gates")
    movegen.check_can_castle(ctx, f, L)
    movegen.check_king_safe_on(ctx, f, L)
    # the pawn generator delegated to is the audited one
    movegen.compare_sites(ctx, "Pawn/nocheck", f.need(movegen.gen_key(f, "Pawn")),
                          movegen.extract_sites(f, L, movegen.gen_key(f, "Pawn"), {"IN_CHECK": sym.FALSE})[2], movegen.spec_sites("Pawn", False))
    movegen.compare_sites(ctx, "Pawn/check", f.need(movegen.gen_key(f, "Pawn")),
                          movegen.extract_sites(f, L, movegen.gen_key(f, "Pawn"), {"IN_CHECK": sym.TRUE})[2], movegen.spec_sites("Pawn", True))
    ctx.rule("panic-audit")
    a = panics.Audit(f).run([B + "::is_legal"])
    panics.report(ctx, a, role_table(f), "panic")
    # look-up functions equal geometry (owned by C05): the atoms of the specifications above stand on it
    from . import c05
    c05.run_lookups(ctx)
    ctx.assumptions += ["reference function == generator on accepted boards: a pinned piece can never capture or block a checker (two distinct lines through the king meet only at the king) -- argued, DESIGN.md C04",
                        "is_legal's pawn branch inherits C01's batch specification of the pawn generator"]
