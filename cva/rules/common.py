"""Helpers shared by the rule modules."""
from .. import sym, cfg as cfgmod
from ..facts import callee_name, MissingAnchor

B = "cozy_chess::board::Board"
ZB = "cozy_chess::board::zobrist::ZobristBoard"
T = "cozy_chess_types::"
BBT = "cozy_chess_types::bitboard::BitBoard"


def paths_of(facts, name, noinline=(), **kw):
    b = facts.need(name)
    if noinline:
        ni = set(noinline)
        kw["inline"] = lambda n: (False if n in ni else None)
    return b, sym.SymExec(facts, b, **kw).run()


def calls(path, suffix=None, name=None, depth0=True):
    out = []
    for e in path.events:
        if e.kind != "call":
            continue
        if depth0 and e.depth != 0 and not (path.events and "::{closure" in e.fn and e.fn.split("::{closure")[0] == path.events[0].fn.split("::{closure")[0]):
            continue        # (statements of the function's own closures count as its own)
        if name is not None and e.name != name:
            continue
        if suffix is not None and not e.name.endswith(suffix):
            continue
        out.append(e)
    return out


def mut_ptr_roots(v, out=None, depth=0):
    """roots of all mutable pointers reachable inside a value"""
    if out is None:
        out = []
    if depth > 8 or not isinstance(v, tuple) or not v:
        return out
    if v[0] == "ptr":
        if v[3]:
            out.append(v[1])
        return out
    for x in v[1:]:
        if isinstance(x, tuple):
            mut_ptr_roots(x, out, depth + 1)
    return out


def is_ok_agg(v):
    return isinstance(v, tuple) and v[0] == "agg" and v[2] == "Ok"


def is_err_agg(v):
    return isinstance(v, tuple) and v[0] == "agg" and v[2] == "Err"


def is_some_agg(v):
    return isinstance(v, tuple) and v[0] == "agg" and v[2] == "Some"


def is_none_agg(v):
    return isinstance(v, tuple) and v[0] == "agg" and v[2] == "None"


def cond_holds(path, pred):
    """index of first branch decision satisfying pred(expr, value)"""
    for i, c in enumerate(path.conds):
        if pred(c[0], c[1]):
            return i
    return -1


def loc(body, line=None):
    f = body.file
    from ..facts import REPO
    if f.startswith(REPO + "/"):
        f = f[len(REPO) + 1:]
    return "%s:%d" % (f, line if line is not None else body.line)


def all_bodies_local(facts, crate=None):
    for k, b in facts.bodies.items():
        if crate is None or b.crate == crate:
            yield b


def iter_places(body):
    """Yield (kind, place, bb, stmt_index_or_None, span) for every place occurrence.
    kind in: 'write' (assignment target), 'read' (operand), 'ref', 'refmut', 'calldest'."""
    def from_operand(op):
        if op["k"] in ("copy", "move"):
            yield "read", op["pl"]

    def from_rv(rv):
        k = rv["k"]
        if k in ("use", "cast", "repeat"):
            yield from from_operand(rv["op"])
        elif k in ("ref", "rawptr"):
            yield ("refmut" if rv["mut"] else "ref"), rv["pl"]
        elif k == "bin":
            yield from from_operand(rv["a"])
            yield from from_operand(rv["b"])
        elif k == "un":
            yield from from_operand(rv["a"])
        elif k == "discr":
            yield "read", rv["pl"]
        elif k == "agg":
            for o in rv["ops"]:
                yield from from_operand(o)

    for bi, blk in enumerate(body.blocks):
        if blk["cleanup"]:
            continue
        for si, s in enumerate(blk["stmts"]):
            if s["k"] == "assign":
                yield "write", s["pl"], bi, si, s["sp"]
                for kind, pl in from_rv(s["rv"]):
                    yield kind, pl, bi, si, s["sp"]
            elif s["k"] == "setdiscr":
                yield "write", s["pl"], bi, si, s["sp"]
        t = blk["term"]
        if t["k"] == "call":
            yield "calldest", t["dest"], bi, None, t["sp"]
            for a in t["args"]:
                for kind, pl in from_operand(a):
                    yield kind, pl, bi, None, t["sp"]
            if "indirect" in t["callee"]:
                for kind, pl in from_operand(t["callee"]["indirect"]):
                    yield kind, pl, bi, None, t["sp"]
        elif t["k"] == "switch":
            for kind, pl in from_operand(t["discr"]):
                yield kind, pl, bi, None, t["sp"]
        elif t["k"] == "assert":
            for kind, pl in from_operand(t["cond"]):
                yield kind, pl, bi, None, t["sp"]
        elif t["k"] == "drop":
            pass


def place_fields(pl):
    """list of (adt type string, field name) along a place's projection"""
    out = []
    for p in pl["p"]:
        if isinstance(p, dict) and "f" in p:
            out.append((p["of"].lstrip("&").replace("mut ", "").strip(), p["n"]))
    return out


def local_callees(facts, body):
    """resolved local callee keys + closures/fn items mentioned in the body"""
    out = set()

    def scan_op(op):
        if op.get("k") == "const":
            if "fnref" in op:
                r = op["fnref"]
                n = r.get("res") or r["fn"]
                out.add(n)
            if "closure" in op:
                out.add(op["closure"])

    for blk in body.blocks:
        if blk["cleanup"]:
            continue
        for s in blk["stmts"]:
            if s["k"] != "assign":
                continue
            rv = s["rv"]
            if rv["k"] == "agg":
                if rv["ak"] == "closure":
                    out.add(rv["closure"])
                for o in rv["ops"]:
                    scan_op(o)
            elif rv["k"] in ("use", "cast"):
                scan_op(rv["op"])
        t = blk["term"]
        if t["k"] == "call":
            n = callee_name(t)
            if n:
                out.add(n)
            for a in t["args"]:
                scan_op(a)
    return out


def reachable_bodies(facts, roots, stop=None):
    seen = set()
    work = list(roots)
    while work:
        k = work.pop()
        if k in seen:
            continue
        b = facts.bodies.get(k)
        if b is None:
            continue
        seen.add(k)
        if stop and stop(k):
            continue
        for c in local_callees(facts, b):
            if c not in seen:
                work.append(c)
        # closures defined inside are reached when constructed (handled above)
    return seen


def transitive_field_access(facts, roots, kinds=("read", "ref", "refmut", "write")):
    """set of (adt, field) touched by the bodies reachable from roots"""
    out = {}
    for k in reachable_bodies(facts, roots):
        b = facts.bodies[k]
        for kind, pl, bi, si, sp in iter_places(b):
            if kind not in kinds:
                continue
            for af in place_fields(pl):
                out.setdefault(af, []).append((k, sp["line"]))
    return out


# ------------------------------------------------------------------------------ panic census

PANIC_CALLS = ("::unwrap", "::expect", "::unwrap_or_else")


def enum_variant_count(facts, ty):
    a = facts.adts.get(ty)
    if a and a["kind"] == "Enum":
        return len(a["variants"])
    return None


def census_body(facts, body):
    """potential panic sites of one body: list of (kind, detail, line)"""
    out = []
    for bi, blk in enumerate(body.blocks):
        if blk["cleanup"]:
            continue
        t = blk["term"]
        if t["k"] == "assert":
            kind = t["msg"]
            detail = kind
            if kind == "BoundsCheck":
                detail = bounds_detail(facts, body, blk, t)
            elif kind == "Overflow":
                detail = overflow_detail(body, blk, t)
            out.append(("assert:" + kind, detail, t["sp"]["line"]))
        elif t["k"] == "call":
            n = callee_name(t) or ""
            tail = n.rsplit("::", 1)[-1]
            if n.startswith("core::panicking::") or n.startswith("std::rt::begin_panic"):
                if t["sp"]["exp"] and any(x[0].startswith("assert:") for x in out[-1:]):
                    pass
                out.append(("panic", tail, t["sp"]["line"]))
            elif (n.startswith("core::option::Option<") or n.startswith("core::result::Result<")) and \
                    tail in ("unwrap", "expect"):
                out.append(("call:" + tail, n.split("<")[0].rsplit("::", 1)[-1], t["sp"]["line"]))
            elif tail in ("index_const", "index") and n.startswith("cozy_chess_types::"):
                out.append(("call:enum-from-index", n.rsplit("::", 2)[-2] + "::" + tail, t["sp"]["line"]))
            elif n == "cozy_chess_types::square::Square::offset":
                out.append(("call:offset", "Square::offset", t["sp"]["line"]))
            elif n.startswith("core::slice::index::") or "::index::Index" in n or n.startswith("core::str::traits::"):
                out.append(("call:index", tail, t["sp"]["line"]))
            elif t["t"] is None and not n.startswith("core::panicking"):
                out.append(("call:diverges", n, t["sp"]["line"]))
    return out


def _def_of(blk, local):
    for s in reversed(blk["stmts"]):
        if s["k"] == "assign" and s["pl"]["l"] == local and not s["pl"]["p"]:
            return s["rv"]
    return None


def bounds_detail(facts, body, blk, t):
    """classify `assert(idx < len)`"""
    c = t["cond"]
    if c["k"] not in ("copy", "move"):
        return "const"
    rv = _def_of(blk, c["pl"]["l"])
    if rv is None or rv["k"] != "bin" or rv["op"] != "Lt":
        return "unknown"
    bound = rv["b"].get("v") if rv["b"]["k"] == "const" else None
    a = rv["a"]
    if a["k"] in ("copy", "move") and not a["pl"]["p"]:
        d1 = _def_of(blk, a["pl"]["l"])
        if d1 and d1["k"] == "cast" and d1["op"]["k"] in ("copy", "move"):
            d2 = _def_of(blk, d1["op"]["pl"]["l"])
            if d2 and d2["k"] == "discr":
                n = enum_variant_count(facts, d2["of"])
                if n is not None and bound is not None and n <= bound:
                    return "enum-index-in-range"
                return "enum-index:%s:%s" % (d2["of"].rsplit("::", 1)[-1], bound)
    if a["k"] == "const" and bound is not None and a.get("v") is not None and a["v"] < bound:
        return "const-index-in-range"
    return "index<%s" % bound


def overflow_detail(body, blk, t):
    c = t["cond"]
    if c["k"] not in ("copy", "move"):
        return "const"
    # cond is (tuple).1 of a WithOverflow op
    l = c["pl"]["l"]
    rv = _def_of(blk, l)
    if rv and rv["k"] == "bin":
        def od(o):
            if o["k"] == "const":
                return str(o.get("v"))
            return body.locals[o["pl"]["l"]]["ty"].rsplit("::", 1)[-1]
        return "%s(%s,%s)" % (rv["op"].replace("WithOverflow", ""), od(rv["a"]), od(rv["b"]))
    return "unknown"


def census(facts, roots, stop=None):
    """-> {fn key: [(kind, detail, line)]} over everything reachable from roots"""
    out = {}
    for k in sorted(reachable_bodies(facts, roots, stop)):
        b = facts.bodies[k]
        if b.j["sp"]["exp"] and b.j.get("impl_trait") in ("core::fmt::Debug", "core::fmt::Display"):
            continue
        sites = census_body(facts, b)
        if sites:
            out[k] = sites
    return out


# ------------------------------------------------------------------ enum-valued decisions, form-independent
def enum_values(facts, conds, X, adt, lifted=True):
    """Which variants (by index) of the fieldless enum `adt` the expression X can still have after the decisions
    `conds` [(expr, value)].  Recognised forms: `X == Enum::V` / `!=`, `match X {..}` (discr(X) with a value or an
    exclusion set), `matches!`.  -> set of indices"""
    a = facts.adts.get(adt)
    n = len(a["variants"]) if a else 0
    names = [v["name"] for v in a["variants"]] if a else []
    poss = set(range(n))
    for c in conds:
        e, v = c[0], c[1]
        if e == ("discr", X):
            if isinstance(v, int):
                poss &= {v}
            elif isinstance(v, tuple) and v and v[0] == "not":
                poss -= set(v[1])
        elif e[0] == "bin" and e[1] in ("Eq", "Ne") and isinstance(v, int):
            other = None
            if e[2] == X:
                other = e[3]
            elif e[3] == X:
                other = e[2]
            if other is not None and other[0] == "enum" and other[1] == adt and other[2] in names:
                k = names.index(other[2])
                if (e[1] == "Eq") == bool(v):
                    poss &= {k}
                else:
                    poss -= {k}
            elif e[2] == ("discr", X) and e[3][0] == "int" or e[3] == ("discr", X) and e[2][0] == "int":
                k = e[3][1] if e[2] == ("discr", X) else e[2][1]
                if (e[1] == "Eq") == bool(v):
                    poss &= {k}
                else:
                    poss -= {k}
    return poss


def in_set3(poss, wanted):
    """three-valued membership of a set of still-possible values in `wanted`"""
    wanted = set(wanted)
    if poss <= wanted:
        return True
    if not (poss & wanted):
        return False
    return None


def checkers_pins_definition(facts):
    """the function both constructors call to compute (checkers, pinned) for a colour: a method of Board taking
    (&self, Color) and returning a pair of BitBoards -- identified by its signature, not its name"""
    out = []
    for k, b in facts.bodies.items():
        if b.kind == "AssocFn" and b.j.get("impl_self") == B and b.argc == 2 and b.promoted is None and \
                b.locals[0]["ty"].startswith("(cozy_chess_types::bitboard::BitBoard, cozy_chess_types::bitboard::BitBoard") and \
                b.locals[1]["ty"].startswith("&") and b.locals[2]["ty"].endswith("color::Color"):
            out.append(k)
    return sorted(out)


def run_closure_in_context(facts, clos, store, **kw):
    """execute a closure body with its captured variables bound to what they hold in `store` (the store of the
    path of the enclosing function that created the closure): by-reference captures are re-rooted at ('U', i)"""
    if clos[0] != "closure":
        return None, []
    cb = facts.bodies.get(clos[1])
    if cb is None:
        return None, []
    entry = {}
    ups = []
    for i, u in enumerate(clos[2]):
        if isinstance(u, tuple) and u and u[0] == "ptr":
            root, path = u[1], u[2]
            v = store.get(root)
            if v is None:
                v = ("undef", root)
            ops = sym.Ops(facts)
            if path:
                v = ops.project(v, path)
            entry[("U", i)] = v
            ups.append(("ptr", ("U", i), (), u[3]))
        else:
            ups.append(u)
    env_ty = cb.locals[1]["ty"]
    val = ("closure", clos[1], tuple(ups))
    params = {}
    if env_ty.startswith("&"):
        entry[("ENV", 0)] = val
        params[cb.local_name(1)] = ("ptr", ("ENV", 0), (), env_ty.startswith("&mut"))
    else:
        params[cb.local_name(1)] = val
    se = sym.SymExec(facts, cb, params=params, entry_store=entry, **kw)
    return cb, se.run()


def square_equals3(conds, sq_expr, x):
    """three-valued: do the decisions `conds` [(lifted expr, value)] say that square x equals sq(file F, rank R)?
    Recognised: x == sq(F, R) directly, or file(x) == F together with rank(x) == R (in either spelling, Eq/Ne)."""
    assert sq_expr[0] == "sq"
    F, R = sq_expr[1], sq_expr[2]
    direct = fe = re_ = None
    for e, v in conds:
        if e[0] != "bin" or e[1] not in ("Eq", "Ne") or not isinstance(v, int):
            continue
        holds = (e[1] == "Eq") == bool(v)
        s = {e[2], e[3]}
        if s == {sq_expr, x}:
            direct = holds
        elif s == {F, ("file", x)}:
            fe = holds
        elif s == {R, ("rank", x)}:
            re_ = holds
    if direct is not None:
        return direct
    if fe is False or re_ is False:
        return False
    if fe is True and re_ is True:
        return True
    return None


def option_is_some_of3(conds, opt, x):
    """three-valued: do the decisions say that the Option `opt` is Some(x)?  Recognised: opt == Some(x) directly, or a
    presence test of opt together with payload == x."""
    payload = ("field", ("downcast", opt, "Some"), "0")
    direct = some = pe = None
    for e, v in conds:
        if e == ("discr", opt):
            if isinstance(v, int):
                some = (v == 1)
            elif isinstance(v, tuple) and v and v[0] == "not":
                some = False if 1 in v[1] else (True if 0 in v[1] else some)
            continue
        if e[0] != "bin" or e[1] not in ("Eq", "Ne") or not isinstance(v, int):
            continue
        holds = (e[1] == "Eq") == bool(v)
        s = (e[2], e[3])
        for a, b in (s, s[::-1]):
            if a == opt and b[0] == "agg" and b[2] == "Some" and len(b[4]) == 1 and b[4][0][1] == x:
                direct = holds
            if a == ("discr", opt) and b[0] == "int" and b[1] in (0, 1):
                some = holds if b[1] == 1 else (not holds)
            if a == payload and b == x:
                pe = holds
    if direct is not None:
        return direct
    if some is False or pe is False:
        return False
    if some is True and pe is True:
        return True
    return None


def affine_in(e, x):
    """e == x + a for an integer constant a (through casts) -> a, else None"""
    while e[0] == "cast":
        e = e[2]
    if e == x:
        return 0
    if e[0] == "bin" and e[1] in ("Add", "Sub"):
        l, r = e[2], e[3]
        if r[0] == "int":
            a = affine_in(l, x)
            if a is not None:
                return a + (r[1] if e[1] == "Add" else -r[1])
        if l[0] == "int" and e[1] == "Add":
            a = affine_in(r, x)
            if a is not None:
                return a + l[1]
    return None


def loop_counter(paths, body, hv):
    """A local kept by hand as a loop counter.  `hv` is the havoc value that stands for it at the head of its loop
    (('hv', fn, name, header)).  -> (value before the loop, step per iteration) when the local holds an integer
    constant before the loop, every back edge of that loop stores `counter + step` with one constant step (a write
    inside an inner loop would show up as that loop's own havoc value and fail the test); None otherwise."""
    if hv[0] != "hv":
        return None
    hdr, cname = hv[3], hv[2]
    init = None
    for p in paths:
        snap = p.pre_loop.get((0, hdr))
        if snap is not None:
            v = snap.get((cname, ()))
            if v is None or v[0] != "int":
                return None
            if init is not None and init != v[1]:
                return None
            init = v[1]
    if init is None:
        return None
    step = None
    nback = 0
    for q in paths:
        if q.end != "loopback":
            continue
        val = None
        for root, v_ in q.store.items():
            if root[0] == "L" and root[1] == 0 and body.local_name(root[2]) == cname:
                val = v_
        if q.end_bb == hdr:
            nback += 1
            a = affine_in(val, hv) if val is not None else None
            if a is None or a == 0 or (step is not None and step != a):
                return None
            step = a
    if nback == 0 or step is None:
        return None
    return init, step


def read_as_part_of(f, key, stop=None):
    """private helpers that are read as part of the function `key` whatever their size: loop-free ones only `key` uses,
    and loop-carrying ones it reaches (a scan moved into a function of its own, possibly shared with another caller);
    `stop(name)` names functions never looked into (the position-state writers)"""
    out = set()
    try:
        from .names import names as role_names
        out |= set(role_names(f).exclusive_helpers(key))
    except Exception:
        pass
    for k in reachable_bodies(f, [key], stop=stop):
        hb = f.bodies[k]
        if k == key or hb.kind not in ("Fn", "AssocFn") or not hb.crate.startswith("cozy_chess") or hb.promoted is not None:
            continue
        if f.fns.get(k, {}).get("pub") or (stop and stop(k)):
            continue
        if cfgmod.natural_loops(hb):
            out.add(k)
    return out
