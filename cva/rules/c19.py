"""C19 coordinates and their text forms are total, exact inverses in every build.

Decided:
 * no panic in either overflow profile (configurations A: checks on, B: checks off): every assert
   and every panicking call reachable from the public functions of square/file/rank/piece/color/
   chess_move is discharged by interval reasoning on the reconstructed operands refined by the
   path's branch decisions (e.g. try_offset: file 0..=7 plus an i8 offset fits the wider type; the
   four range guards bound the argument of the enum constructors), or is a documented panicking
   constructor (index, index_const, offset);
 * coordinate arithmetic: the reconstructed result expression of every coordinate function is
   evaluated over its whole finite domain (64 squares, 8x8, x2 colours) and equals plain
   arithmetic (new = 8*rank+file, file = i%8, rank = i/8, flips, colour-relative views, bitboards,
   adjacent files); try_offset is decided by decomposition: file+df and rank+dr are exact for all
   8x256 pairs each, None is returned exactly when either leaves 0..=7, otherwise Some(new(..));
   try_index maps k to the variant with discriminant k for all five enums and to None beyond;
 * text forms: for File, Rank, Piece, Color the enum->char and char->enum tables extracted from
   the two switches are inverse bijections; FromStr accepts exactly one char (first next() must
   be Some, second must be None) and delegates to the char table; Display writes the table's
   char; Square parses file char, rank char, then requires end of input, and formats them in the
   same order; Move parses [0,2) and [2,4) as squares and the *whole remainder* as nothing or a
   promotion piece that is not a king or pawn, formats from, to, then the promotion letter;
 * parsers call only functions from a list of total core functions (a slice index or split_at
   would be reported).
Not decided: that core's str/char helpers behave as documented."""
from .. import sym, panics, conc, geom
from ..conc import Stuck
from .common import loc
from .c06 import natom

T = "cozy_chess_types::"
ENUMS = {"Square": 64, "File": 8, "Rank": 8, "Piece": 6, "Color": 2}
MODS = {"Square": "square", "File": "file", "Rank": "rank", "Piece": "piece", "Color": "color"}
NV = {T + MODS[k] + "::" + k: v for k, v in ENUMS.items()}


def raw_opaque(n):
    return n.rsplit("::", 1)[-1] in ("try_index", "index_const", "index")


def text_opaque(n):
    """for the text rules of Square and Move: the char tables of the coordinate enums are atoms (decided on their own)"""
    return raw_opaque(n) or (n.startswith("<cozy_chess_types::") and n.endswith("core::convert::TryFrom<char>>::try_from"))


def rpaths(f, name, **kw):
    b = f.need(name)
    kw.setdefault("auto_unroll", True)
    op = kw.pop("opaque", raw_opaque)
    return b, sym.SymExec(f, b, raw=True, opaque=op, max_depth=6, **kw).run()


PANIC_TABLE = {}
for _e, _m in MODS.items():
    PANIC_TABLE[("%s::%s::index_const" % (_m, _e), "panic", "panic_fmt")] = "documented: panics if the index is out of bounds"
    PANIC_TABLE[("%s::%s::index::{closure#0}" % (_m, _e), "panic", "panic_fmt")] = "documented: panics if the index is out of bounds"
    PANIC_TABLE[("%s::%s::index" % (_m, _e), "panic", "panic_fmt")] = "documented: panics if the index is out of bounds"
PANIC_TABLE[("square::Square::offset", "panic", "panic_fmt")] = "documented: panics if the offset leaves the board (try_offset is the total variant)"

TOTAL_CORE = (
    "str::strip_suffix", "str::strip_prefix", "str::starts_with", "str::ends_with", "str::char_indices", "str::bytes", "str::trim",
    "core::str::iter::Chars<'a>::as_str", "core::str::iter::", "<_ as core::iter::traits::iterator::Iterator>::next",
    "str::chars", "str::get", "str::parse", "str::split", "str::rsplit", "str::len", "str::is_empty", "str::as_bytes",
    "char::to_digit", "char::to_ascii_lowercase", "char::to_ascii_uppercase", "char::is_ascii_uppercase", "char::is_ascii_lowercase",
    "char::is_ascii_digit", "char::methods::<impl char>::",
    "core::option::Option<T>::", "core::result::Result<T, E>::", "<core::option::Option<T> as ", "<core::result::Result<T, ",
    "core::iter::traits::iterator::Iterator::", "core::iter::adapters::", "<core::iter::adapters::", "<core::str::iter::", "<core::slice::iter::",
    "<T as core::convert::", "<char as core::", "<str as core::cmp::PartialEq", "<&A as core::cmp::PartialEq", "core::cmp::", "<&'a ",
    "core::fmt::", "core::convert::", "<core::ops::range::", "core::str::<impl str>::", "core::char::methods::<impl char>::",
    "core::num::<impl ", "core::mem::replace", "[T]::iter", "core::slice::<impl [T]>::iter", "<[T; N] as core::iter::traits::collect::IntoIterator>::into_iter", "<core::array::iter::", "<&'a [T; N] as core::iter::traits::collect::IntoIterator>::into_iter", "[T]::len", "core::slice::<impl [T]>::len", "<I as core::iter::traits::collect::IntoIterator>::into_iter", "<u64 as core::ops::bit::", "u64::", "u8::", "u16::", "usize::", "<bool>::then_some", "bool::then_some", "core::bool::<impl bool>::then_some",
)
PARTIAL_CORE = ("::unwrap", "::expect", "::split_at", "::index", "::index_mut", "slice::index", "::unwrap_unchecked", "::get_unchecked",
                "::nth", "::step_by", "::chunks", "::windows", "::from_utf8_unchecked", "::split_at_mut", "::copy_from_slice", "::swap", "::remove", "::insert")


def core_callee_ok(n):
    tail = n.rsplit("::", 1)[-1]
    for p in PARTIAL_CORE:
        if n.endswith(p) or p in n and p.startswith("slice"):
            return False
    if n.startswith("core::str::traits::") or "ops::index::Index" in n:
        return False
    for t in TOTAL_CORE:
        if n.startswith(t):
            return True
    return False


def parser_callees(ctx, f, roots, tag, only_files=None):
    """every core function a parser reaches must be on the total list"""
    from .common import reachable_bodies
    from ..facts import callee_name
    n = 0
    documented = lambda k: k.rsplit("::", 1)[-1] in ("index_const", "index", "offset") or "::index::{closure" in k
    for k in sorted(reachable_bodies(f, roots, stop=documented)):
        if documented(k):
            continue
        b = f.bodies[k]
        if only_files and not any(b.file.endswith(x) for x in only_files):
            continue
        # function items of the core library handed on as values (`take_last(&mut s, char::to_digit)`) are calls in waiting
        for blk_ in b.blocks:
            ops_ = []
            for s_ in blk_["stmts"]:
                if s_["k"] == "assign":
                    rv_ = s_["rv"]
                    ops_ += list(rv_.get("ops") or []) + ([rv_["op"]] if rv_["k"] in ("use", "cast") and "op" in rv_ else [])
            if blk_["term"]["k"] == "call":
                ops_ += blk_["term"]["args"]
            for o_ in ops_:
                if isinstance(o_, dict) and o_.get("k") == "const" and "fnref" in o_:
                    fn_ = o_["fnref"].get("res") or o_["fnref"]["fn"]
                    if fn_ in f.bodies or fn_.startswith("cozy_chess") or fn_.startswith("<cozy_chess"):
                        continue
                    n += 1
                    ctx.check(core_callee_ok(fn_), "%s:total-callee:%s" % (tag, fn_.split("<")[0][-40:] + fn_.rsplit("::", 1)[-1]),
                              "parser code hands on %s, which is not on the list of total core functions (it may panic on some input)" % fn_, loc(b))
        for bb, t in b.calls():
            cn = callee_name(t)
            if cn in ("core::ops::function::FnOnce::call_once", "core::ops::function::FnMut::call_mut", "core::ops::function::Fn::call") \
                    and (t["callee"].get("targs") or [None])[0] in (b.j.get("generics") or []):
                # a call of the function's own callable parameter: whatever is handed in is a closure or function of this
                # crate (read as a body of its own) or a core function item (checked where it is mentioned)
                n += 1
                ctx.ok("%s:callable-parameter:%s" % (tag, k.rsplit("::", 1)[-1]))
                continue
            if not cn or cn in f.bodies or cn.startswith("cozy_chess"):
                continue
            if cn.startswith("<cozy_chess") and cn in f.bodies:
                continue
            if cn.startswith("<cozy_chess"):
                continue
            n += 1
            ctx.check(core_callee_ok(cn), "%s:total-callee:%s" % (tag, cn.split("<")[0][-40:] + cn.rsplit("::", 1)[-1]),
                      "parser code calls %s, which is not on the list of total core functions (it may panic on some input)" % cn, loc(b, t["sp"]["line"]))
    return n


def run(ctx):
    if ctx.pid != "C19":
        # included by another property's check: once per run is enough
        key = ("c19", getattr(ctx, "rule_suffix", ""))
        done = ctx.__dict__.setdefault("_groups_done", set())
        if key in done:
            return
        done.add(key)
    if ctx.pid == "C19":
        ctx.level = "proof"
    ctx.explanation = __doc__
    # ------------------------------------------------------------------ no panic, both profiles
    for cfg in ("A", "B"):
        f = ctx.facts(cfg)
        ctx.rule("no-panic[%s]" % ("overflow-checks on" if cfg == "A" else "overflow-checks off"))
        roots = [k for k, b in f.bodies.items() if b.crate == "cozy_chess_types" and b.promoted is None and b.kind in ("Fn", "AssocFn") and
                 any(k.startswith(T + m + "::") or k.startswith("<" + T + m + "::") or (k.startswith("<char as") and m in k)
                     for m in ("square", "file", "rank", "piece", "color", "chess_move")) and
                 not any(x in k for x in ("Debug", "Hash", "PartialOrd", "::Ord>", "Clone", "PartialEq", "::Eq>"))]
        a = panics.Audit(f).run(roots)
        n = panics.report(ctx, a, PANIC_TABLE, "panic")
        ctx.floor("panic sites audited [%s]" % cfg, n, 15 if cfg == "A" else 8)
        ctx.saw("config %s: %d functions audited" % (cfg, len(a.analysed)))
    f = ctx.facts("A")
    # ------------------------------------------------------------------ coordinate arithmetic
    ctx.rule("coordinate-arithmetic")
    SQ = T + "square::Square"

    def P(n):
        return ("param", n)

    def table(name, params, domain, spec, key):
        b, ps = rpaths(f, name)
        bad = []
        n = 0
        for vals in domain:
            env = {P(p): v for p, v in zip(params, vals)}
            try:
                got = conc.eval_paths(ps, env, NV)
            except Stuck as e:
                bad.append((vals, "stuck: %s" % e))
                continue
            n += 1
            if got != spec(*vals):
                bad.append((vals, got, spec(*vals)))
        ctx.check(not bad, key, "%s differs from plain coordinate arithmetic for %s" % (name.replace(T, ""), bad[:3]), loc(b),
                  sample={"fn": name.replace(T, ""), "cases": n})
    sq64 = [(s,) for s in range(64)]
    table(SQ + "::new", ["file", "rank"], [(fl, r) for fl in range(8) for r in range(8)], lambda fl, r: 8 * r + fl, "Square::new")
    table(SQ + "::file", ["self"], sq64, lambda s: s % 8, "Square::file")
    table(SQ + "::rank", ["self"], sq64, lambda s: s // 8, "Square::rank")
    table(SQ + "::bitboard", ["self"], sq64, lambda s: 1 << s, "Square::bitboard")
    table(SQ + "::flip_file", ["self"], sq64, lambda s: 8 * (s // 8) + (7 - s % 8), "Square::flip_file")
    table(SQ + "::flip_rank", ["self"], sq64, lambda s: 8 * (7 - s // 8) + s % 8, "Square::flip_rank")
    table(SQ + "::relative_to", ["self", "color"], [(s, c) for s in range(64) for c in range(2)],
          lambda s, c: s if c == 0 else 8 * (7 - s // 8) + s % 8, "Square::relative_to")
    table(T + "file::File::flip", ["self"], [(x,) for x in range(8)], lambda x: 7 - x, "File::flip")
    table(T + "rank::Rank::flip", ["self"], [(x,) for x in range(8)], lambda x: 7 - x, "Rank::flip")
    table(T + "rank::Rank::relative_to", ["self", "color"], [(x, c) for x in range(8) for c in range(2)], lambda x, c: x if c == 0 else 7 - x, "Rank::relative_to")
    table(T + "file::File::bitboard", ["self"], [(x,) for x in range(8)], lambda x: geom.file_bb(x), "File::bitboard")
    table(T + "rank::Rank::bitboard", ["self"], [(x,) for x in range(8)], lambda x: geom.rank_bb(x), "Rank::bitboard")
    # File::adjacent through its table
    b, ps = rpaths(f, T + "file::File::adjacent")
    want_adj = tuple(("bbconst", (geom.file_bb(x - 1) if x > 0 else 0) | (geom.file_bb(x + 1) if x < 7 else 0)) for x in range(8))
    selfidx = ("cast", "usize", ("discr", ("param", "self")))
    okadj = len(ps) == 1 and ps[0].end == "return" and ps[0].ret[0] == "index" and ps[0].ret[1] == ("array", want_adj) and ps[0].ret[2] == selfidx
    ctx.check(okadj, "File::adjacent", "File::adjacent table is not the neighbouring files", loc(b))
    # ---- try_offset by decomposition
    b, ps = rpaths(f, SQ + "::try_offset")
    some = [p for p in ps if p.ret[0] == "agg" and p.ret[2] == "Some"]
    none = [p for p in ps if p.ret[0] == "agg" and p.ret[2] == "None"]
    oks = len(some) == 1 and len(some) + len(none) == len(ps)
    ctx.check(oks, "try_offset:shape", "try_offset does not have exactly one Some path and otherwise None paths", loc(b))
    if oks:
        sp = some[0]
        # the coordinate sums: the smallest subterms that combine the square with exactly one of the offsets
        def has_(x, leaf):
            return sym.contains(x, lambda y: y == leaf)

        def minimal_sums(off, other):
            found = []

            def rec(x):
                if not isinstance(x, tuple) or not x:
                    return
                ok_here = has_(x, P(off)) and has_(x, P("self")) and not has_(x, P(other))
                kids = [y for y in x[1:] if isinstance(y, tuple)]
                if x[0] in ("call",):
                    kids = list(x[2]) if len(x) > 2 else []
                inner = [y for y in kids if isinstance(y, tuple) and y and has_(y, P(off)) and has_(y, P("self")) and not has_(y, P(other))]
                if ok_here and not inner:
                    if x not in found:
                        found.append(x)
                    return
                for y in kids:
                    rec(y)
            for c in sp.conds:
                rec(c[0])
            return found
        sums = {}
        bad = []
        good = 0
        for off, other, uses_f in (("file_offset", "rank_offset", True), ("rank_offset", "file_offset", False)):
            cands = minimal_sums(off, other)
            if len(cands) != 1:
                bad.append("%d candidate coordinate sums for %s" % (len(cands), off))
                continue
            se_ = cands[0]
            for s in range(64):
                coord = s % 8 if uses_f else s // 8
                for d in range(-128, 128):
                    try:
                        v = conc.Conc({P("self"): s, P(off): d}, NV).ev(se_)
                    except Stuck as e:
                        bad.append(str(e))
                        break
                    if v != coord + d:
                        bad.append((s, d, v))
                        break
                if bad:
                    break
            sums[off] = se_
            good += 1
        # the decisions of the Some path, as a function of the two sums, hold exactly on 0..=7 x 0..=7
        if good == 2 and not bad:
            for vf in range(-128, 135):
                for vr in range(-128, 135):
                    env = {sums["file_offset"]: vf, sums["rank_offset"]: vr}
                    try:
                        holds = all(bool(conc.Conc(env, NV).ev(c[0])) == bool(c[1]) for c in sp.conds if isinstance(c[1], int))
                    except Stuck as e:
                        bad.append("guard not a function of the two sums: %s" % e)
                        break
                    if holds != (0 <= vf <= 7 and 0 <= vr <= 7):
                        bad.append(("guard", vf, vr, holds))
                        break
                if bad:
                    break
        # the same decided without naming the sums: every decision of every path looks at one offset only (so the accepted
        # offset pairs are a product set), and along each axis -- all 64 squares x all 256 offsets, the other offset 0 -- the
        # answer is Some exactly when the moved coordinate stays on the board
        if not (good == 2 and not bad):
            sep = all(not (has_(c[0], P("file_offset")) and has_(c[0], P("rank_offset"))) for p_ in ps for c in p_.conds)
            bad_ax = []
            if sep:
                for off, other, uses_f in (("file_offset", "rank_offset", True), ("rank_offset", "file_offset", False)):
                    for s_ in range(64):
                        coord = s_ % 8 if uses_f else s_ // 8
                        for d_ in range(-128, 128):
                            try:
                                got_ = conc.eval_paths(ps, {P("self"): s_, P(off): d_, P(other): 0}, NV)
                            except Stuck as e:
                                bad_ax.append(str(e))
                                break
                            if (got_ != ("none",)) != (0 <= coord + d_ <= 7):
                                bad_ax.append((s_, off, d_, got_))
                                break
                        if bad_ax:
                            break
                if not bad_ax:
                    good, bad = 2, []
                else:
                    bad = bad + bad_ax[:2]
        ctx.check(good == 2 and not bad, "try_offset:sums+guards",
                  "try_offset's coordinate sums are not exactly file+df / rank+dr guarded by 0..=7: %s" % bad[:3], loc(b),
                  sample={"try_offset": "Some iff 0<=file+df<8 and 0<=rank+dr<8", "pairs checked": 2 * 64 * 256, "guard points": 263 * 263})
        # the Some value is new(File(file+df), Rank(rank+dr)): evaluate over in-range combinations
        badv = []
        for s in range(64):
            for df in range(-7, 8):
                for dr in range(-7, 8):
                    fl, r = s % 8 + df, s // 8 + dr
                    if 0 <= fl < 8 and 0 <= r < 8:
                        try:
                            v = conc.Conc({P("self"): s, P("file_offset"): df, P("rank_offset"): dr}, NV).ev(sp.ret)
                        except Stuck as e:
                            badv.append(str(e))
                            break
                        if v != ("some", 8 * r + fl):
                            badv.append((s, df, dr, v))
        ctx.check(not badv, "try_offset:value", "try_offset's Some value is not the square at (file+df, rank+dr): %s" % badv[:3], loc(b))
    # ---- try_index tables
    ctx.rule("try_index-tables")
    for en, n in ENUMS.items():
        name = T + MODS[en] + "::" + en + "::try_index"
        b, ps = rpaths(f, name)
        seen = {}
        other = None
        if not all(len([c for c in p.conds if c[0] == P("index")]) == 1 for p in ps):
            # not a switch on the index (e.g. `if index < NUM { Some(ALL[index]) } else { None }`): decided by evaluating
            # the paths for every index 0..NUM+2 and for indexes far outside (the function of one bounded argument)
            bad_ = []
            for idx in list(range(n + 3)) + [255, 256, 1 << 16, 1 << 32, (1 << 64) - 1]:
                try:
                    got = conc.eval_paths(ps, {P("index"): idx}, NV)
                except Stuck as e_:
                    bad_.append((idx, str(e_)[:60]))
                    continue
                want_ = ("some", idx) if idx < n else ("none",)
                if got != want_:
                    bad_.append((idx, got))
            ctx.check(not bad_, "try_index:%s" % en, "try_index of %s does not map k to the variant with discriminant k (and everything else to None): %s" % (en, bad_[:4]),
                      loc(b), sample={"enum": en, "evaluated indexes": n + 8})
            continue
        for p in ps:
            c = [c for c in p.conds if c[0] == P("index")]
            if len(c) != 1:
                ctx.fail("try_index:%s:shape" % en, "try_index of %s is not a single switch on the index" % en, loc(b))
                continue
            v = c[0][1]
            if isinstance(v, int):
                r = p.ret
                if r[0] == "agg" and r[2] == "Some" and dict(r[4])["0"][0] == "enum":
                    ev_ = dict(r[4])["0"]
                    seen[v] = conc.enum_index(ev_)
            else:
                other = (set(v[1]), p.ret)
        ok = seen == {k: k for k in range(n)} and other is not None and other[0] == set(range(n)) and other[1][2] == "None"
        ctx.check(ok, "try_index:%s" % en, "try_index of %s does not map k to the variant with discriminant k (and everything else to None): %s" % (en, sorted(seen.items())[:5]),
                  loc(b), sample={"enum": en, "arms": n})
    # ------------------------------------------------------------------ text forms
    ctx.rule("char-tables")
    tables = {}
    for en in ("File", "Rank", "Piece", "Color"):
        ty = T + MODS[en] + "::" + en
        b, ps = rpaths(f, "<char as core::convert::From<%s>>::from" % ty)
        to_char = {}
        for p in ps:
            c = [c for c in p.conds if c[0] == ("discr", P("value"))]
            if len(c) == 1 and isinstance(c[0][1], int) and p.ret[0] == "int":
                to_char[c[0][1]] = p.ret[1]
        b2, ps2 = rpaths(f, "<%s as core::convert::TryFrom<char>>::try_from" % ty)
        # char -> enum by evaluation: every decision of the function compares the char with a constant (a `match` on
        # literals, or a search through a constant table executed element by element), so its answer is constant on
        # each constant and between them; the constants, their neighbours and the ends of the char range are evaluated
        from_char = {}
        VAL = P("value")
        consts = set(to_char.values())
        piecewise = True
        for p in ps2:
            for c in p.conds:
                e_ = c[0]
                if e_ == VAL:
                    consts |= {c[1]} if isinstance(c[1], int) else set(c[1][1])
                elif e_[0] == "bin" and e_[1] in ("Eq", "Ne") and VAL in (e_[2], e_[3]) and (e_[2][0] == "int" or e_[3][0] == "int"):
                    consts.add((e_[2] if e_[2][0] == "int" else e_[3])[1])
                elif sym.contains(e_, lambda y: y == VAL):
                    piecewise = False
        reps = set()
        for k_ in consts:
            reps |= {k_ - 1, k_, k_ + 1}
        reps |= {0, 0x10FFFF}
        reps = sorted(x for x in reps if 0 <= x <= 0x10FFFF and not 0xD800 <= x <= 0xDFFF)
        rejected = set()
        stuck = None
        for ch in reps:
            try:
                got = conc.eval_paths(ps2, {VAL: ch}, NV)
            except Stuck as ex:
                stuck = "%r: %s" % (chr(ch), ex)
                break
            if isinstance(got, tuple) and got and got[0] == "ok":
                from_char[ch] = got[1]
            elif got == ("err",):
                rejected.add(ch)
            else:
                stuck = "%r -> %s" % (chr(ch), got)
                break
        n = ENUMS[en]
        ok = len(to_char) == n and len(set(to_char.values())) == n and from_char == {ch: k for k, ch in to_char.items()} and \
            piecewise and stuck is None and rejected == set(reps) - set(to_char.values())
        if stuck:
            ctx.note("%s::try_from(char): %s" % (en, stuck))
        ctx.check(ok, "char-table:%s" % en, "%s: enum->char and char->enum are not inverse bijections (to_char %s, from_char %s)"
                  % (en, {k: chr(v) for k, v in to_char.items()}, {chr(k): v for k, v in from_char.items()}), loc(b),
                  sample={"enum": en, "chars": "".join(chr(to_char[k]) for k in sorted(to_char))})
        tables[en] = to_char
        # FromStr: exactly one char
        b3, ps3 = rpaths(f, "<%s as core::str::traits::FromStr>::from_str" % ty, count_next=True)
        S = ("chars", ("ptr", ("P", "s"), (), False))
        n_ok = 0
        for p in ps3:
            firsts = [c for c in p.conds if sym.contains(c[0], lambda x: x == ("next", S, 0))]
            seconds = [c for c in p.conds if sym.contains(c[0], lambda x: x == ("next", S, 1))]
            r = p.ret
            delegates = r[0] == "call" and r[1].endswith("TryInto<U>>::try_into") and r[2] == (("nth", S, 0),)
            if delegates:
                n_ok += 1
                dec = {}
                for c in p.conds:
                    a_, pol_ = natom(c[0], c[1])
                    if a_[0] == "issome":
                        dec[a_[1]] = pol_
                f_some = dec.get(("next", S, 0)) is True
                s_none = dec.get(("next", S, 1)) is False
                ctx.check(f_some and s_none, "FromStr:%s:exactly-one-char" % en,
                          "%s::from_str converts a char on a path that did not test `first char present` and `no second char`" % en, loc(b3),
                          sample={"FromStr": en, "accepts": "exactly one char, via the char table"})
            else:
                ctx.check(r[0] == "agg" and r[2] == "Err", "FromStr:%s:else-error" % en, "%s::from_str returns something other than the table conversion or an error: %s" % (en, sym.show(r)[:100]), loc(b3))
        ctx.check(n_ok == 1, "FromStr:%s:one-accepting-path" % en, "%s::from_str has %d accepting paths (expected 1)" % (en, n_ok), loc(b3))
        # Display: writes the char of the table
        b4, ps4 = rpaths(f, "<%s as core::fmt::Display>::fmt" % ty)
        r = ps4[0].ret if len(ps4) == 1 else None
        okd = r is not None and r[0] == "call" and r[1].startswith("<char as core::fmt::Display>::fmt") and \
            sym.contains(r[2][0], lambda x: x[0] == "call" and x[1].endswith("Into<U>>::into") and x[2] == (("obj", "self"),))
        ctx.check(okd, "Display:%s" % en, "%s's Display does not write exactly the table's char: %s" % (en, sym.show(r)[:120] if r else None), loc(b4))
    # ------------------------------------------------------------------ Square and Move
    ctx.rule("square+move-text")
    b, ps = rpaths(f, "<%s as core::str::traits::FromStr>::from_str" % (T + "square::Square"), count_next=True, opaque=text_opaque)
    S = ("chars", ("ptr", ("P", "s"), (), False))
    oks = 0
    for p in ps:
        r = p.ret
        if r[0] == "agg" and r[2] == "Ok":
            oks += 1
            third_none = False
            for c in p.conds:
                a_, pol_ = natom(c[0], c[1])
                if a_ == ("issome", ("next", S, 2)) and pol_ is False:
                    third_none = True
            # the same through the text's bytes: exactly two bytes, each widened to a char and sent through the char tables
            # (which accept ASCII characters only, so two accepted bytes are the text's two characters)
            BY = ("call", "str::as_bytes", (("ptr", ("P", "s"), (), False),))
            for c in p.conds:
                e_ = c[0]
                if e_[0] == "bin" and e_[1] in ("Eq", "Ne") and isinstance(c[1], int) and ((e_[1] == "Eq") == bool(c[1])):
                    pair = (e_[2], e_[3])
                    if ("int", 2, "usize") in pair and any(x[0] == "un" and x[1] == "PtrMetadata" and x[2] == BY or x == ("len", BY) or
                                                           (x[0] == "call" and x[1].endswith("::len") and x[2] and x[2][0] == BY) for x in pair):
                        third_none = True
            byte = lambda k: ("index", ("deref", BY), ("int", k, "usize"))
            ch = lambda k: (lambda x: x == ("next", S, k) or x == ("nth", S, k) or x == byte(k))
            uses0 = sym.contains(r, ch(0))
            uses1 = sym.contains(r, ch(1))
            # the square index as a function of the two decoded coordinates: 8 * (value from char 1) + (value from char 0)
            v = dict(r[4])["0"]
            l0 = sym.subterms(v, lambda x: x[0] == "discr" and sym.contains(x, ch(0)) and not sym.contains(x, ch(1)))
            l1 = sym.subterms(v, lambda x: x[0] == "discr" and sym.contains(x, ch(1)) and not sym.contains(x, ch(0)))
            l0 = [x for x in l0 if not any(y is not x and y[0] == "discr" and sym.contains(x[1], lambda z: z == y) for y in l0)]
            l1 = [x for x in l1 if not any(y is not x and y[0] == "discr" and sym.contains(x[1], lambda z: z == y) for y in l1)]
            rank_from_1 = len(set(l0)) == 1 and len(set(l1)) == 1
            if rank_from_1:
                idx = v[2][0] if v[0] == "call" and v[1].endswith("index_const") and len(v[2]) == 1 else v
                for fv in range(8):
                    for rv in range(8):
                        try:
                            got = conc.Conc({l0[0]: fv, l1[0]: rv}, NV).ev(idx)
                        except Stuck:
                            got = None
                        if got != 8 * rv + fv:
                            rank_from_1 = False
            ctx.check(third_none and uses0 and uses1 and rank_from_1, "Square::from_str",
                      "Square::from_str does not read (file char, rank char) and then require end of input", loc(b),
                      sample={"Square::from_str": "file=char0, rank=char1, end"})
    ctx.check(oks == 1, "Square::from_str:one-accepting-path", "Square::from_str has %d accepting paths" % oks, loc(b))
    # Display order via the two display arguments
    b, ps = rpaths(f, "<%s as core::fmt::Display>::fmt" % (T + "square::Square"))
    orders = []
    for p in ps:
        order = []
        orders.append(order)
        for e in p.events:
            as_char = e.kind == "call" and e.name.endswith("::write_char") and "core::fmt" in e.name
            if (e.kind == "call" and e.name.endswith("Argument<'_>::new_display")) or as_char:
                a = e.args[1] if as_char else e.args[0]
                if a[0] == "ptr":
                    a = e.extra.get("pointees", {}).get(0, a)
                # the coordinate written as its character: look through the conversion to char
                while a[0] == "call" and len(a[2]) == 1 and (a[1].endswith("Into<U>>::into") or a[1].endswith(">::from") or a[1] == "char::from"):
                    a = a[2][0]
                # which coordinate the argument is: evaluated for all 64 squares
                kind = "?"
                try:
                    vals = [conc.Conc({("obj", "self"): s_, ("param", "self"): s_}, NV).ev(a) for s_ in range(64)]
                    if vals == [s_ % 8 for s_ in range(64)]:
                        kind = "file"
                    elif vals == [s_ // 8 for s_ in range(64)]:
                        kind = "rank"
                except (Stuck, TypeError, KeyError, IndexError):
                    pass
                order.append(kind)
    # the path on which everything is written (a write followed by `?` also has a path that stops early: a prefix of it)
    order = max(orders, key=len) if orders else []
    ctx.check(order == ["file", "rank"] and all(o_ == order[:len(o_)] for o_ in orders), "Square::fmt:order", "Square's Display does not format file then rank: %s" % order, loc(b), sample={"Square::fmt": order})
    # Move's Display: origin, destination, then the promotion piece when there is one -- for every move value, with no case
    # set apart by what the squares are (a null-move spelling for from == to is a text the parser does not read)
    MV_T = T + "chess_move::Move"
    b, ps = rpaths(f, "<%s as core::fmt::Display>::fmt" % MV_T)
    from .c07 import tmpl as _tmpl
    SELFP = ("P", "self")
    n_okp = 0
    for p in ps:
        if not (p.end == "return" and p.ret[0] == "agg" and p.ret[2] == "Ok"):
            continue
        n_okp += 1
        seq = []
        lit = ""
        for e in p.events:
            if e.kind not in ("call", "inlined") or e.depth != 0:
                continue              # (what a square's or piece's own Display writes is theirs: decided above)
            val = None
            if e.name.endswith("Argument<'_>::new_display") or e.name.endswith("core::fmt::Display>::fmt"):
                a = e.args[0]
                if a[0] == "ptr" and a[1] == SELFP and a[2]:
                    val = ("field", ("obj", "self"), a[2][0][1])
                elif a[0] == "ptr":
                    val = (e.extra.get("pointees") or {}).get(0, a)
                else:
                    val = a
            elif e.name.endswith("::write_char") and "core::fmt" in e.name:
                val = e.args[1]
                if val[0] == "int":
                    lit += chr(val[1])
                    continue
            elif e.name.endswith("::write_str") and "core::fmt" in e.name:
                a = e.args[1]
                while a[0] in ("ref", "deref"):
                    a = a[1]
                lit += a[1] if a[0] == "str" else "?"
                continue
            elif "Arguments" in e.name and (e.name.endswith("::new") or e.name.endswith("from_str")):
                try:
                    lit += _tmpl(e.args[0]).replace("{}", "")
                except Exception:
                    lit += "?"
                continue
            if val is not None:
                which = [n_ for n_ in ("from", "to", "promotion") if sym.contains(val, lambda y: y[0] == "field" and y[2] == n_ and y[1] in (("obj", "self"), ("param", "self")))]
                seq.append(which[0] if len(which) == 1 else "?")
        promo = None
        plain_conds = True
        for c in p.conds:
            e_ = c[0]
            if e_ == ("discr", ("field", ("obj", "self"), "promotion")):
                promo = (c[1] == 1) if isinstance(c[1], int) else (False if 1 in c[1][1] else True)
            elif sym.contains(e_, lambda y: y[0] == "call" and "core::fmt" in y[1]):
                pass
            else:
                plain_conds = False
        want = ["from", "to"] + (["promotion"] if promo else [])
        ctx.check(seq == want and lit == "" and plain_conds and promo is not None, "Move::fmt",
                  "Move's Display does not write origin, destination and (if any) the promotion piece for every move alike: wrote %s%s on a path deciding %s"
                  % (seq, (" and the text %r" % lit) if lit else "", [sym.show(c[0])[:60] for c in p.conds if not sym.contains(c[0], lambda y: y[0] == "call" and "core::fmt" in y[1])]), loc(b),
                  sample={"Move::fmt": want} if n_okp == 1 else None)
    ctx.check(n_okp >= 2, "Move::fmt:paths", "Move's Display lacks the (no promotion, promotion) paths", loc(b))
    # Move::from_str
    mname = "<%s as core::str::traits::FromStr>::from_str" % (T + "chess_move::Move")
    b, ps = rpaths(f, mname, max_inline_blocks=120)
    sptr = ("ptr", ("P", "s"), (), False)
    n_acc = 0
    for p in ps:
        r = p.ret
        # accepted: Ok(move) -- possibly written as Some(move).ok_or(err)
        if r[0] == "call" and r[1].endswith("::ok_or") and r[2][0][0] == "agg" and r[2][0][2] == "Some":
            r = r[2][0]
        elif r[0] == "agg" and r[2] == "Ok":
            pass
        else:
            continue
        n_acc += 1
        gets = []
        for c in p.conds:
            for g in sym.subterms(c[0], lambda x: x[0] == "call" and x[1] == "str::get"):
                if g not in gets:
                    gets.append(g)
        ranges = []
        for g in gets:
            rg = g[2][1]
            if rg[0] == "agg":
                d = dict(rg[4])
                ranges.append((d.get("start", ("int", 0))[1], d["end"][1] if "end" in d else None))
        if not gets:
            # the same pieces cut off with split_at_checked: (text[..k], text[k..]) of the text or of a later piece of it
            def piece(t_):
                """byte range of a piece of the text, or None"""
                while t_[0] in ("ref", "deref"):
                    t_ = t_[1]
                if t_ == sptr:
                    return (0, None)
                if t_[0] == "field" and t_[2] in ("0", "1") and t_[1][0] == "field" and t_[1][2] == "0" and t_[1][1][0] == "downcast" and t_[1][1][2] == "Some":
                    c_ = t_[1][1][1]
                    if c_[0] == "call" and c_[1] in ("str::split_at_checked", "core::str::<impl str>::split_at_checked") and c_[2][1][0] == "int":
                        base = piece(c_[2][0])
                        if base is None:
                            return None
                        k_ = c_[2][1][1]
                        return (base[0], base[0] + k_) if t_[2] == "0" else (base[0] + k_, base[1])
                return None
            used = []
            for x_ in [c[0] for c in p.conds] + [r]:
                for u_ in sym.subterms(x_, lambda y: y[0] == "call" and y[1] in ("str::parse", "str::is_empty", "core::str::<impl str>::is_empty") and y[2]):
                    pr_ = piece(u_[2][0])
                    if pr_ is not None and pr_ not in used:
                        used.append(pr_)
            ranges = used
        ranges.sort(key=lambda x: x[0])
        cover = ranges == [(0, 2), (2, 4), (4, None)]
        ctx.check(cover, "Move::from_str:consumes-whole-input",
                  "Move::from_str accepts after reading byte ranges %s: the text is not consumed to its end (trailing characters would be ignored)" % ranges, loc(b),
                  sample={"Move::from_str": "[0,2) [2,4) [4,..)"} if n_acc == 1 else None)
        mv = dict(r[4])["0"]
        promo = dict(mv[4]).get("promotion") if mv[0] == "agg" else None
        if promo is not None and promo[0] == "agg" and promo[2] == "Some":
            # the piece must have been tested not to be king/pawn
            pk = [c for c in p.conds if c[0][0] == "discr" and sym.contains(c[0], lambda x: x[0] == "call" and x[1] == "str::parse")]
            okp = False
            for c in pk:
                if isinstance(c[1], int):
                    okp = c[1] in (1, 2, 3, 4)
                else:
                    okp = set(c[1][1]) >= {0, 5}
            ctx.check(okp, "Move::from_str:promotion-set", "Move::from_str accepts a promotion letter without excluding king and pawn", loc(b))
    ctx.check(n_acc >= 2, "Move::from_str:accepting-paths", "Move::from_str lacks the (no promotion, promotion) accepting paths", loc(b))
    # parsers only call total core functions
    ctx.rule("parsers-total-callees")
    roots = [k for k in f.bodies if "core::str::traits::FromStr>::from_str" in k and k.startswith("<" + T)] + \
        [k for k in f.bodies if "TryFrom<char>>::try_from" in k and k.startswith("<" + T)]
    n = parser_callees(ctx, f, roots, "types")
    ctx.floor("core callees of the text parsers", n, 10)
    ctx.extra["exhaustive"] = True
    ctx.assumptions += ["core's chars/next/get/parse/try_into are total and behave as documented",
                        "Move's Display order (from, to, promotion letter) is checked in C07/C20's format rules"]
