"""C17 a move batch iterates, counts and tests membership consistently.

Decided on all paths of the seven functions of PieceMoves / PieceMovesIter:
 * next(): None iff the destination set is empty (state untouched); otherwise the lowest
   destination S (C18) is taken; it is a promotion iff piece == Pawn and rank(S) in {1st, 8th};
   non-promotions yield (from, S, None) and remove S; promotions yield (from, S, Some(p)) with the
   counter value k in 0..=3 mapped bijectively onto {Knight, Bishop, Rook, Queen}, the counter
   steps k -> k+1 keeping S for k < 3 and wraps to 0 removing S at k = 3;
 * field invariant (assume/guarantee over the closed writer set): promotion counter in 0..=3 --
   established by into_iter (0), preserved by every returning path of next(), no other writer,
   fields private; this discharges the unreachable!() arm and the length subtraction (C01 table);
 * len(): pawn -> 4 * |to ∩ M| + |to \ M| with M == squares on the 1st and 8th rank (constant
   compared with the definition) and multiplier == number of promotion pieces produced; other
   pieces -> |to|; is_empty() <=> to empty; iterator len = batch len - counter; size_hint exact;
 * has(): three-valued comparison with the reference  from == mv.from AND to.has(mv.to) AND
   (promotion None AND not promoting  OR  promotion in {N,B,R,Q} AND promoting), promoting as above.
Not decided: the full enumeration equality as behaviour (follows by induction over next() from the
facts above together with C18's lowest-member/removal facts; argued)."""
from .. import sym, lift, setalg, geom
from . import zob
from .common import loc, iter_places, place_fields, enum_values, in_set3
from .c04 import opt_test

PM = "cozy_chess::board::movegen::piece_moves::"
PIECE = "cozy_chess_types::piece::Piece"
PIECES = ["Pawn", "Knight", "Bishop", "Rook", "Queen", "King"]
NEXT = "<" + PM + "PieceMovesIter as core::iter::traits::iterator::Iterator>::next"
SELF = ("obj", "self")


def fld(*names):
    e = SELF
    for n in names:
        e = ("field", e, n)
    return e


def run(ctx):
    ctx.explanation = __doc__
    f = ctx.facts("A")
    L = lift.Lifter(f)
    M = geom.rank_bb(0) | geom.rank_bb(7)
    PAWN = ("enum", PIECE, "Pawn")

    # ------------------------------------------------------------------ next
    ctx.rule("next")
    body = f.need(NEXT)
    where = loc(body)
    paths = sym.SymExec(f, body).run()
    ctx.saw("%s: %d paths" % (body.key, len(paths)))
    # private fields of the iterator by role: the batch (of type PieceMoves) and the promotion counter (an integer)
    it_adt = f.adts.get(PM + "PieceMovesIter")
    if it_adt is None:
        from ..facts import MissingAnchor
        raise MissingAnchor(PM + "PieceMovesIter")
    BATCH = [fl["name"] for fl in it_adt["variants"][0]["fields"] if fl["ty"].endswith("PieceMoves")]
    CNT = [fl["name"] for fl in it_adt["variants"][0]["fields"] if fl["ty"] in ("u8", "u16", "u32", "usize", "u64")]
    if len(BATCH) != 1 or len(CNT) != 1 or len(it_adt["variants"][0]["fields"]) != 2:
        from ..facts import MissingAnchor
        raise MissingAnchor("PieceMovesIter is no longer (batch: PieceMoves, counter: integer)")
    BATCH, CNT = BATCH[0], CNT[0]
    CNT_TY = [fl["ty"] for fl in it_adt["variants"][0]["fields"] if fl["name"] == CNT][0]
    T = fld(BATCH, "to")
    Fr = fld(BATCH, "from")
    P = fld(BATCH, "piece")
    C = fld(CNT)
    first = ("call", "cozy_chess_types::bitboard::BitBoard::next_square", (T,))
    S = zob.payload(first)
    removed = [("xor", T, ("bbof", S)), ("and", T, ("not", ("bbof", S)))]
    # next() as a function of (destination left?, pawn?, lowest destination on rank 1|8?, counter): every path is read
    # off for each counter value 0..=3 it applies to -- its decisions about the counter and the values it produces are
    # evaluated, not matched -- and compared with the enumeration's transition table:
    #   nothing left            -> None, state untouched
    #   not a promotion (k = 0) -> (from, S, None), S removed, counter stays 0
    #   promotion, counter k    -> (from, S, Some([N, B, R, Q][k])), counter' = (k + 1) mod 4, S removed exactly when k = 3
    # (k != 0 without a promotion does not occur: the table itself shows that the counter leaves 0 only on a promotion
    # step that keeps the destination set, so the lowest destination is still that promotion square)
    from .. import conc
    from ..conc import Stuck
    RANKC = ("call", "cozy_chess_types::square::Square::rank", (S,))
    NVAR = {PIECE: 6}
    produced = {}
    covered = set()
    n_none = n_plain = n_promo = 0
    for p in paths:
        conds = list(p.conds)
        st = p.store.get(("P", "self"))
        ch = {}
        v = st
        ok_read = True
        while v != SELF:
            if v[0] != "with" or v[2][0] != "f":
                ok_read = False
                break
            ch.setdefault(v[2][1], v[3])
            v = v[1]
        if not ok_read:
            ctx.fail("next:state-unreadable", "cannot read how next() changes the iterator", where)
            continue
        newT = T
        if BATCH in ch:
            mv = ch[BATCH]
            newT = sym.Ops(f).field(mv, "to")
            okm = mv[0] == "with" and mv[1] == fld(BATCH) and mv[2] == ("f", "to")
            ctx.check(okm, "next:only-to-changes", "next() changes batch fields other than the destination set", where)
        newC = ch.get(CNT, C)
        some = None
        promosq = None
        cconds = []
        for c in conds:
            e, val = c[0], c[1]
            if e[0] == "bin" and e[1] == "Eq" and e[2] == ("discr", first) and e[3] == ("int", 0, "isize") and isinstance(val, int):
                some = not bool(val)
            elif e == ("discr", first):
                some = (val == 1) if isinstance(val, int) else (False if 1 in val[1] else None)
            elif e[0] == "bin" and e[1] in ("Eq", "Ne") and set((e[2], e[3])) == {PAWN, P}:
                pass
            elif e == ("discr", P):
                pass
            elif e == ("discr", RANKC) or (e[0] == "bin" and e[1] in ("Eq", "Ne") and RANKC in (e[2], e[3])):
                pass
            elif e[0] == "has" and e[2] == S and e[1] == ("bbconst", M) and isinstance(val, int):
                promosq = bool(val)         # the same test through the mask of the two back ranks
            elif sym.contains(e, lambda y: y == C):
                cconds.append(c)
            else:
                ctx.fail("next:unknown-decision", "next() branches on an unexpected condition: %s" % sym.show(e)[:160], where)
        lc_ = [(c_[0], c_[1]) for c_ in conds]
        pv_ = enum_values(f, lc_, P, PIECE)
        pawn = in_set3(pv_, {0}) if len(pv_) < 6 else None
        if promosq is None:
            rv_ = enum_values(f, lc_, RANKC, "cozy_chess_types::rank::Rank")
            promosq = in_set3(rv_, {0, 7}) if len(rv_) < 8 else None

        def applies(k_):
            try:
                return all(conc.Conc({C: k_}, NVAR).cond_holds(c_) for c_ in cconds)
            except Stuck:
                return None
        ks = [k_ for k_ in range(4) if applies(k_)]
        if any(applies(k_) is None for k_ in range(4)):
            ctx.fail("next:counter-decision", "next() decides something about the counter that cannot be evaluated: %s" % [sym.show(c_[0])[:80] for c_ in cconds], where)
            continue
        if p.end in ("diverge", "panic"):
            ctx.check(not ks, "next:panic-only-outside-invariant", "next() can panic with the promotion counter inside 0..=3", where)
            continue
        if p.end != "return":
            ctx.fail("next:path-end", "next() has a path ending in %s" % p.end, where)
            continue
        r = p.ret
        if some is False:
            n_none += 1
            ctx.check(r[0] == "agg" and r[2] == "None" and not ch, "next:none-iff-empty",
                      "with no destination left next() does not return None leaving the state untouched", where,
                      sample={"to": "empty", "next": "None"} if n_none == 1 else None)
            continue
        if some is None:
            ctx.fail("next:emptiness-undecided", "next() yields without testing whether a destination is left", where)
            continue
        okmv = r[0] == "agg" and r[2] == "Some"
        mvv = dict(r[4])["0"] if okmv else None
        okmv = okmv and mvv[0] == "agg" and dict(mvv[4]).get("from") == Fr and dict(mvv[4]).get("to") == S
        ctx.check(okmv, "next:move-shape", "next() does not yield Move{from: batch origin, to: lowest destination, ..}: %s" % sym.show(r)[:160], where)
        if not okmv:
            continue
        promo = dict(mvv[4]).get("promotion")
        promoting = and3(pawn, promosq)
        if promoting is None:
            ctx.fail("next:promotion-undecided", "next() yields a move without deciding whether it is a promotion (pawn and 1st/8th rank)", where)
            continue
        kept = newT == T
        gone = any(setalg.equivalent(newT, x) for x in removed)
        for k in ks:
            try:
                nc = conc.Conc({C: k}, NVAR).ev(newC)
            except Stuck as e_:
                ctx.fail("next:counter-value", "the new counter value cannot be evaluated: %s" % str(e_)[:80], where)
                continue
            if not promoting:
                if k != 0:
                    continue            # does not occur (see above)
                n_plain += 1
                covered.add(("plain", 0))
                ok = promo[0] == "agg" and promo[2] == "None" and gone and nc == 0
                ctx.check(ok, "next:plain-move", "a non-promotion is not yielded as (from, S, None) with S removed and the counter left at 0: promotion=%s to'=%s counter'=%s"
                          % (sym.show(promo)[:40], sym.show(newT)[:80], nc), where,
                          sample={"case": "plain", "yield": "(from, S, None)", "to'": "to ^ bb(S)"} if n_plain == 1 else None)
            else:
                n_promo += 1
                covered.add(("promo", k))
                pc = None
                if promo[0] == "agg" and promo[2] == "Some":
                    try:
                        pc = conc.Conc({C: k}, NVAR).ev(dict(promo[4])["0"])
                    except Stuck:
                        pc = None
                if not ctx.check(isinstance(pc, int) and 0 <= pc < 6, "next:promotion-piece", "a promotion does not carry a piece that is a function of the counter", where):
                    continue
                produced.setdefault(k, set()).add(PIECES[pc])
                if k < 3:
                    ok = kept and nc == k + 1
                    ctx.check(ok, "next:promotion-step", "counter %d: expected counter+1 and the destination kept; got counter'=%s to'=%s" % (k, nc, sym.show(newT)[:60]), where)
                else:
                    ok = nc == 0 and gone
                    ctx.check(ok, "next:promotion-wrap", "counter 3: expected counter reset to 0 and S removed; got counter'=%s to'=%s" % (nc, sym.show(newT)[:60]), where,
                              sample={"case": "promotion", "k": 3, "yield": "Queen", "then": "counter=0, to ^= bb(S)"})
    ctx.floor("next: None paths", n_none, 1)
    ctx.check(covered == {("plain", 0)} | {("promo", k_) for k_ in range(4)}, "next:cases",
              "next() does not cover the plain case and the four promotion steps: %s" % sorted(covered), where)
    ok = set(produced) == {0, 1, 2, 3} and [sorted(produced[k_]) for k_ in range(4)] == [["Knight"], ["Bishop"], ["Rook"], ["Queen"]]
    ctx.check(ok, "next:produced-set", "promotion counter values 0..=3 do not yield Knight, Bishop, Rook, Queen in this order: %s" % produced, where,
              sample={"counter->piece": {k: sorted(v) for k, v in produced.items()}})
    n_pieces = len({x for v in produced.values() for x in v})

    # ------------------------------------------------------------------ counter invariant / encapsulation
    ctx.rule("counter-invariant")
    it_ty = PM + "PieceMovesIter"
    adt = f.adts.get(it_ty)
    if adt is None:
        from ..facts import MissingAnchor
        raise MissingAnchor(it_ty)
    for fl in adt["variants"][0]["fields"]:
        ctx.check(not fl["pub"], "iter-field-private:%s" % fl["name"], "field %s of the iterator is public: the counter invariant can be broken from outside" % fl["name"])
    writers = set()
    for k_, b in f.bodies.items():
        for kind, pl, bi, si, sp in iter_places(b):
            if kind in ("write", "refmut") and any(a == it_ty for a, _ in place_fields(pl)):
                writers.add(k_)
        for blk in b.blocks:
            for s in blk["stmts"]:
                if s["k"] == "assign" and s["rv"]["k"] == "agg" and s["rv"].get("adt") == it_ty:
                    writers.add(k_)
    into = "<" + PM + "PieceMoves as core::iter::traits::collect::IntoIterator>::into_iter"
    ctx.check(writers <= {NEXT, into}, "closed-writer-set", "the iterator's state is written outside next()/into_iter(): %s" % sorted(writers - {NEXT, into}),
              sample={"writers": sorted(w.rsplit("::", 1)[-1] for w in writers)})
    ib = f.need(into)
    ips = sym.SymExec(f, ib).run()
    ok = len(ips) == 1 and ips[0].ret[0] == "agg" and dict(ips[0].ret[4]).get(CNT) == ("int", 0, CNT_TY) and \
        dict(ips[0].ret[4]).get(BATCH) == ("param", "self")
    ctx.check(ok, "into_iter:establishes", "into_iter does not start with (the batch, counter 0): %s" % sym.show(ips[0].ret)[:120], loc(ib))

    # ------------------------------------------------------------------ len / is_empty / remaining
    ctx.rule("len+is_empty+remaining")
    lb = f.need(PM + "PieceMoves::len")
    lps = sym.SymExec(f, lb).run()
    To = fld("to")
    Pc = fld("piece")
    seen = {}
    Mexpr = ("bbconst", M)
    regions = {"promo": ("and", To, Mexpr), "plain": ("and", To, ("not", Mexpr))}

    def linear(e):
        """e as {region: coefficient} over |to ∩ M| and |to \\ M| (None when it is not such a combination)"""
        while e[0] == "cast":
            e = e[2]
        if e[0] == "int":
            return {"promo": 0, "plain": 0} if e[1] == 0 else None
        if e[0] == "len":
            out = {}
            for nm, reg in regions.items():
                if setalg.subset(reg, e[1]):
                    out[nm] = 1
                elif setalg.equivalent(("and", reg, e[1]), ("bbconst", 0)):
                    out[nm] = 0
                else:
                    return None
            # nothing outside `to` may be counted
            if not setalg.subset(e[1], To):
                return None
            return out
        if e[0] == "bin" and e[1] == "Add":
            a_, b_ = linear(e[2]), linear(e[3])
            if a_ is None or b_ is None:
                return None
            return {k_: a_[k_] + b_[k_] for k_ in a_}
        if e[0] == "bin" and e[1] == "Mul":
            for x_, y_ in ((e[2], e[3]), (e[3], e[2])):
                if x_[0] == "int":
                    l_ = linear(y_)
                    return None if l_ is None else {k_: x_[1] * v_ for k_, v_ in l_.items()}
        return None
    for p in lps:
        pv = enum_values(f, [(c[0], c[1]) for c in p.conds], Pc, PIECE)
        pawn = in_set3(pv, {0}) if len(pv) < 6 else None
        lin = linear(p.ret) if p.ret is not None else None
        if pawn is None:
            # no decision on the piece: only right if the count is the plain one and there is no pawn (never the case)
            ctx.fail("len:pawn-undecided", "len() answers without deciding whether the piece is a pawn", loc(lb))
        elif not pawn:
            seen["other"] = True
            ctx.check(lin == {"promo": 1, "plain": 1}, "len:non-pawn", "len() of a non-pawn batch is not |to|: %s" % sym.show(p.ret)[:100], loc(lb))
        else:
            seen["pawn"] = True
            ok = lin is not None and lin["plain"] == 1
            ctx.check(ok, "len:pawn-formula", "len() of a pawn batch is not k*|to ∩ M| + |to \\\\ M| with M = 1st ∪ 8th rank: %s" % sym.show(p.ret)[:200], loc(lb),
                      sample={"len(pawn)": sym.show(p.ret)[:120]})
            if ok:
                ctx.check(lin["promo"] == n_pieces == 4, "len:multiplier", "promotion destinations count %s times in len() but next() produces %d promotion pieces" % (lin["promo"], n_pieces), loc(lb))
    ctx.check(seen.get("pawn") and seen.get("other"), "len:cases", "len() lacks a pawn or a non-pawn case", loc(lb))
    eb = f.need(PM + "PieceMoves::is_empty")
    eps = sym.SymExec(f, eb).run()
    ctx.check(len(eps) == 1 and eps[0].ret == ("isempty", To), "is_empty", "is_empty() is not `to is empty`: %s" % sym.show(eps[0].ret)[:80], loc(eb))
    # remaining length: batch.len() - promotion counter, reported by size_hint as (n, Some(n)); ExactSizeIterator::len is
    # either written out as that number (and size_hint defers to it) or left to its provided default, which returns
    # size_hint's exact bound
    def is_remaining(r_):
        # (the counter itself when it is kept as a usize, widened otherwise)
        return r_[0] == "bin" and r_[1] == "Sub" and r_[2][0] == "call" and r_[2][1] == PM + "PieceMoves::len" and r_[3] in (("cast", "usize", C), C)
    XLEN = "<" + PM + "PieceMovesIter as core::iter::traits::exact_size::ExactSizeIterator>::len"
    xb = f.bodies.get(XLEN)
    own_len = False
    if xb is not None:
        xps = sym.SymExec(f, xb, inline=lambda n: False if n == PM + "PieceMoves::len" else None).run()
        own_len = len(xps) == 1 and is_remaining(xps[0].ret)
        ctx.check(own_len, "remaining-len", "remaining length is not batch.len() - promotion counter: %s" % (sym.show(xps[0].ret)[:120] if xps else None), loc(xb),
                  sample={"remaining": "moves.len() - promotion"})
    sb = f.need("<" + PM + "PieceMovesIter as core::iter::traits::iterator::Iterator>::size_hint")
    sps = sym.SymExec(f, sb, inline=lambda n: False if (n.endswith("ExactSizeIterator>::len") or n == PM + "PieceMoves::len") else None).run()
    oks = len(sps) == 1
    if oks:
        r = sps[0].ret
        oks = r[0] == "tuple" and len(r[1]) == 2 and r[1][1][0] == "agg" and r[1][1][2] == "Some" and dict(r[1][1][4])["0"] == r[1][0]
        if oks:
            lo_ = r[1][0]
            via_len = lo_[0] == "call" and lo_[1].endswith("ExactSizeIterator>::len") and own_len
            oks = via_len or is_remaining(lo_)
            if is_remaining(lo_) and xb is None:
                ctx.ok("remaining-len", {"remaining": "moves.len() - promotion (in size_hint; len() is the provided default)"})
    ctx.check(oks, "size_hint-exact", "size_hint is not (n, Some(n)) with n the remaining length batch.len() - promotion counter", loc(sb))

    # other ways the iterator reports how much is left: an override of the provided `count` must be the remaining length
    # too (the provided default walks `next`, which the rules above decide); overrides of further provided methods are
    # not read (noted)
    ITER = "<" + PM + "PieceMovesIter as core::iter::traits::iterator::Iterator>::"
    for k_ in sorted(f.bodies):
        if not k_.startswith(ITER) or "{closure" in k_:
            continue
        m_ = k_[len(ITER):]
        if m_ in ("next", "size_hint"):
            continue
        if m_ == "count":
            cb_ = f.bodies[k_]

            def is_remaining_by_value(r_):
                # count(self) takes the iterator by value: the same number over the fields of the value itself
                if not (r_[0] == "bin" and r_[1] == "Sub" and r_[2][0] == "call" and r_[2][1] == PM + "PieceMoves::len"):
                    return False
                c_ = r_[3][2] if r_[3][0] == "cast" and r_[3][1] == "usize" else r_[3]
                a_ = r_[2][2][0]
                while a_[0] in ("ref", "deref"):
                    a_ = a_[1]
                own_ = lambda x_, fl_: x_[0] == "field" and x_[2] == fl_ and x_[1] in (("param", "self"), ("obj", "self"))
                return own_(c_, CNT) and own_(a_, BATCH)
            cps_ = sym.SymExec(f, cb_, inline=lambda n: False if n == PM + "PieceMoves::len" else None).run()
            okc_ = bool(cps_)
            for p_ in cps_:
                r_ = p_.ret
                okc_ = okc_ and r_ is not None and (is_remaining(r_) or is_remaining_by_value(r_) or
                                                    (r_[0] == "call" and r_[1].endswith("ExactSizeIterator>::len") and (own_len or xb is None)))
            ctx.check(okc_, "count-is-remaining", "the iterator's own count() is not the remaining length batch.len() - promotion counter: %s"
                      % (sym.show(cps_[0].ret)[:120] if cps_ and cps_[0].ret is not None else None), loc(cb_))
        else:
            ctx.note("the iterator overrides the provided method %s: not read by this rule" % m_)
    # ------------------------------------------------------------------ has
    ctx.rule("has")
    hb = f.need(PM + "PieceMoves::has")
    hps = sym.SymExec(f, hb).run()
    ctx.saw("%s: %d paths" % (hb.key, len(hps)))
    MV = ("param", "mv")
    mto = ("field", MV, "to")
    mfrom = ("field", MV, "from")
    promo = ("field", MV, "promotion")
    n_true = n_false = 0

    class _P:       # a path whose returned test has been turned into a last decision
        def __init__(self, conds, ret):
            self.conds, self.ret = conds, ret

    def as_decision(r_):
        """a returned boolean test about the piece kind, the destination rank or the promotion -> (test, polarity)"""
        pol = 1
        while r_[0] == "un" and r_[1] == "Not":
            r_, pol = r_[2], 1 - pol
        if r_ == ("has", ("bbconst", M), mto):
            return r_, pol
        if r_[0] == "bin" and r_[1] in ("Eq", "Ne") and (set((r_[2], r_[3])) == {PAWN, Pc} or promo in (r_[2], r_[3]) or ("discr", promo) in (r_[2], r_[3])
                                                     or ("call", "cozy_chess_types::square::Square::rank", (mto,)) in (r_[2], r_[3])):
            return r_, pol
        return None
    expanded = []
    for p in hps:
        d_ = as_decision(p.ret) if p.ret not in (sym.TRUE, sym.FALSE) and p.ret is not None else None
        if d_ is not None:
            # `..; piece == Pawn` as the tail expression reads like `if piece == Pawn { true } else { false }`
            expanded.append(_P(list(p.conds) + [(d_[0], d_[1])], sym.TRUE))
            expanded.append(_P(list(p.conds) + [(d_[0], 1 - d_[1])], sym.FALSE))
        else:
            expanded.append(p)
    for p in expanded:
        pawn = rank = st = pk = feq = hto = None
        excl = set()
        for c in p.conds:
            e, v = c[0], c[1]
            if e[0] == "bin" and e[1] in ("Eq", "Ne") and set((e[2], e[3])) == {PAWN, Pc} and isinstance(v, int):
                pawn = (e[1] == "Eq") == bool(v)
            elif e[0] == "discr" and e[1] == ("call", "cozy_chess_types::square::Square::rank", (mto,)):
                rank = (v in (0, 7)) if isinstance(v, int) else (False if set(v[1]) >= {0, 7} else None)
            elif e == ("discr", promo):
                st = ("Some" if v == 1 else "None") if isinstance(v, int) else ("None" if 1 in v[1] else ("Some" if 0 in v[1] else None))
            elif e == ("bin", "Eq", ("discr", promo), ("int", 1, "isize")):
                st = "Some" if v else "None"
            elif e == ("discr", zob.payload(promo)):
                if isinstance(v, int):
                    pk = PIECES[v]
                else:
                    excl |= {PIECES[x] for x in v[1] if x < 6}
            elif e[0] == "bin" and e[1] in ("Eq", "Ne") and set((e[2], e[3])) == {Fr_(), mfrom} and isinstance(v, int):
                feq = (e[1] == "Eq") == bool(v)
            elif e == ("has", To, mto):
                hto = bool(v)
            elif e == ("has", ("bbconst", M), mto) and isinstance(v, int):
                rank = bool(v)          # the back-rank test through the mask of the two ranks
            elif e[0] == "bin" and e[1] in ("Eq", "Ne") and ("call", "cozy_chess_types::square::Square::rank", (mto,)) in (e[2], e[3]):
                pass        # read through the possible-value set below
            elif e[0] == "bin" and e[1] in ("Eq", "Ne") and (promo in (e[2], e[3]) or ("discr", promo) in (e[2], e[3]) or zob.payload(promo) in (e[2], e[3])
                                                            or ("discr", zob.payload(promo)) in (e[2], e[3])):
                pass        # read through enum_values / opt_test below
            else:
                ctx.fail("has:unknown-decision", "has() branches on an unexpected condition: %s" % sym.show(e)[:160], loc(hb))
        lc = [(c[0], c[1]) for c in p.conds]
        RANKT = "cozy_chess_types::rank::Rank"
        if pawn is None:
            pv = enum_values(f, lc, Pc, PIECE)
            pawn = in_set3(pv, {0}) if len(pv) < 6 else None
        if rank is None:
            rv = enum_values(f, lc, ("call", "cozy_chess_types::square::Square::rank", (mto,)), RANKT)
            rank = in_set3(rv, {0, 7}) if len(rv) < 8 else None
        if st is None:
            sv = enum_values(f, lc, promo, "core::option::Option")      # discr tests of the Option
            for c_ in p.conds:
                o_ = opt_test(c_[0], c_[1], promo)
                if o_:
                    st = o_
        if st == "Some" and pk is None:
            kv = enum_values(f, lc, zob.payload(promo), PIECE)
            if kv <= {1, 2, 3, 4}:
                pk = "Knight"
            elif kv <= {0, 5}:
                pk = "Pawn"
        promoting = and3(pawn, rank)
        if st is None or promoting is None:
            pm_ok = None
            if st == "None" and promoting is None:
                pm_ok = None
        if st == "None":
            pm_ok = None if promoting is None else (not promoting)
        elif st == "Some":
            if promoting is False:
                pm_ok = False          # a promotion piece on a move that does not promote never matches, whatever the piece
            elif pk in ("Knight", "Bishop", "Rook", "Queen"):
                pm_ok = promoting
            elif pk in ("Pawn", "King") or {"Knight", "Bishop", "Rook", "Queen"} <= excl:
                pm_ok = False
            else:
                pm_ok = None
        else:
            pm_ok = None
        vals = [feq, hto, pm_ok]
        if any(v is False for v in vals):
            verdict = False
        elif any(v is None for v in vals):
            verdict = None
        else:
            verdict = True
        r = p.ret
        if r == sym.TRUE:
            n_true += 1
            ctx.check(verdict is True, "has:true-justified",
                      "has() answers true without establishing origin equality, destination membership and the promotion agreement (payload in {N,B,R,Q} iff promoting): origin=%s dest=%s promotion=%s"
                      % (feq, hto, pm_ok), loc(hb), sample={"answer": True, "needs": "from==, to∈, promotion agrees"} if n_true == 1 else None)
        elif r == sym.FALSE:
            n_false += 1
            ctx.check(verdict is False, "has:false-justified", "has() answers false although no conjunct of the reference is refuted (origin=%s dest=%s promotion=%s)" % (feq, hto, pm_ok), loc(hb))
        else:
            # residual: allowed only if it is exactly the missing conjunct(s)
            res_ok = False
            if verdict is None and feq is not False and pm_ok is not False:
                missing = [n for n, v in (("from", feq), ("to", hto), ("promo", pm_ok)) if v is None]
                if missing == ["to"] and r == ("has", To, mto):
                    res_ok = True
                if missing == ["from"] and r[0] == "bin" and r[1] == "Eq" and set((r[2], r[3])) == {Fr_(), mfrom}:
                    res_ok = True
            if res_ok:
                n_true += 1
            ctx.check(res_ok, "has:residual", "has() returns %s on a path where (origin=%s dest=%s promotion=%s)" % (sym.show(r)[:100], feq, hto, pm_ok), loc(hb))
    ctx.floor("has: true paths", n_true, 1)
    ctx.floor("has: false paths", n_false, 3)
    ctx.assumptions += ["lowest-member and removal facts of BitBoard (C18)", "induction over next() to the full enumeration is argued, not mechanised"]


def and3(a, b):
    if a is False or b is False:
        return False
    if a is None or b is None:
        return None
    return True


def Fr_():
    return fld("from")


def flat_add(e):
    if e[0] == "bin" and e[1] == "Add":
        return flat_add(e[2]) + flat_add(e[3])
    return [e]
