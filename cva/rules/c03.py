"""C03 incrementally tracked checkers and pins equal their definition.

Decided: the slider scan exists in three copies (the definition used by both constructors,
the tail of play_unchecked, null_move); each is recognised from its MIR and compared with one
specification by set-algebra equivalence -- attackers = enemies of the king's owner among
(bishops|queens on the king's diagonals, rooks|queens on its lines), blocker set =
between(attacker, king) & occupied, no blocker -> checker, one blocker -> pinned -- together with
the binding: the king examined belongs to the side that moves next and the placement read is
the one after the last placement writer.  The definition adds knight and pawn checkers
(pawn-attack colour = king owner); play_unchecked's direct checks are the same terms restricted
to the moved piece's destination, per moved kind (knight, pawn without promotion, knight
promotion) and nothing else.  Reset/ordering discipline: both sets are empty before
accumulation in every copy, constructors assign (checkers, pinned) from the definition called
with the board's own side to move after the last placement/side writer, no writer follows.
Board's derived equality covers both fields.
Not decided: equality for every history (needs C05 tables plus an induction over moves that is
argued, not mechanised)."""
from .. import sym, lift, setalg
from . import scan, zob
from .movegen import SELF, STM, NSTM, AND, OR, colors, pieces, PIECE
from .common import B, loc


def piece_case(L, p, moved_expr):
    """which piece kind did the path decide for `moved`? -> name or None"""
    names = ["Pawn", "Knight", "Bishop", "Rook", "Queen", "King"]
    kind = None
    excluded = set()
    for c in p.conds:
        e, v = c[0], c[1]
        if e == ("discr", moved_expr):
            if isinstance(v, int):
                kind = names[v]
            else:
                excluded |= {names[x] for x in v[1] if x < 6}
        elif e[0] == "bin" and e[1] in ("Eq", "Ne") and moved_expr in (e[2], e[3]) and isinstance(v, int):
            other = e[3] if e[2] == moved_expr else e[2]
            if other[0] == "enum" and other[1] == PIECE:
                if (e[1] == "Eq") == bool(v):
                    kind = other[2]
                else:
                    excluded.add(other[2])
    return kind, excluded


def run(ctx):
    if ctx.pid != "C03":
        # included by another property's check: once per run is enough
        key = ("c03", getattr(ctx, "rule_suffix", ""))
        done = ctx.__dict__.setdefault("_groups_done", set())
        if key in done:
            return
        done.add(key)
    ctx.explanation = __doc__
    f = ctx.facts("A")
    L = lift.Lifter(f)
    roles = zob.Roles(ctx, f)
    W = {k for k in roles.writers if f.bodies[k].j.get("impl_self") == roles.inner_ty}
    pin_f = [t for (g, t, pp, pt) in L.templates if g == "pinned"][0][2]
    chk_f = [t for (g, t, pp, pt) in L.templates if g == "checkers"][0][2]

    # ------------------------------------------------------------ the definition
    ctx.rule("definition")
    # role: the function both constructors call to fill the two fields
    defn = None
    from .common import checkers_pins_definition
    for k in checkers_pins_definition(f):
        defn = f.bodies[k]
    if defn is None:
        from ..facts import MissingAnchor
        raise MissingAnchor("definition of checkers and pins (&Board, Color) -> (BitBoard, BitBoard)")
    dps = sym.SymExec(f, defn).run()
    ctx.saw("%s: %d paths" % (defn.key, len(dps)))
    where = loc(defn)
    dscans = scan.find_scans(f, L, defn, dps)
    def_roles = None
    if ctx.check(len(dscans) == 1, "definition:one-scan", "the definition does not contain exactly one slider scan", where):
        sc = dscans[0]
        ca, pa = scan.check_scan(ctx, "definition", defn, sc, where)
        owner = ("param", defn.local_name(2))
        ctx.check(sc.owner == owner and sc.board == SELF, "definition:binding", "the definition does not examine king(colour parameter) on its own board", where)
        ctx.check(sc.pre.get(pa) == ("bbconst", 0), "definition:pinned-starts-empty",
                  "pinned does not start empty in the definition: %s" % {k: sym.show(v)[:40] for k, v in sc.pre.items()}, where)
        K = sc.K
        enemy = colors(("cnot", owner))
        for p in dps:
            if p.end != "return":
                continue
            r = L.lift(p.ret)
            ok = r[0] == "tuple" and len(r[1]) == 2
            if not ctx.check(ok, "definition:ret-shape", "the definition does not return a pair", where):
                continue
            c_expr, p_expr = r[1]
            # checkers = scan result ∪ (whatever was there before the scan) ∪ (whatever is added after): the non-scan
            # part, in any order, must be exactly the knight and pawn terms
            parts = scan.flatten(c_expr)
            hv = [x for x in parts if x[0] == "hv"]
            rest = [x for x in parts if x[0] != "hv"]
            pre_c = sc.pre.get(ca)
            if pre_c is not None and pre_c != ("bbconst", 0):
                rest.append(pre_c)
            want = [AND(("knight", K), enemy, pieces("Knight")), AND(("pawnatt", K, owner), enemy, pieces("Pawn"))]
            okc = len(hv) == 1 and hv[0][2] == ca and len(rest) >= 1
            if okc:
                got = rest[0]
                for x in rest[1:]:
                    got = ("or", got, x)
                okc = setalg.equivalent(got, OR(*want))
            ctx.check(okc, "definition:non-slider-checkers",
                      "besides the scan, checkers are not exactly enemy knights on knight_moves(king) and enemy pawns on pawn_attacks(king, owner): %s (before the scan: %s)"
                      % (sym.show(c_expr)[:300], sym.show(pre_c)[:200] if pre_c else None), where, sample={"definition": "checkers = scan ∪ knights ∪ pawns", "pawn-attack colour": sym.show(owner)})
            ctx.check(p_expr[0] == "hv" and p_expr[2] == pa, "definition:pinned-is-scan", "pinned is not exactly the scan's pin set: %s" % sym.show(p_expr)[:100], where)
        def_roles = (ca, pa)

    # ------------------------------------------------------------ play_unchecked
    ctx.rule("play_unchecked")
    body = f.need(B + "::play_unchecked")
    # private helpers that carry a loop (a scan moved into a function of its own) are read as part of play_unchecked
    from .common import reachable_bodies
    from .. import cfg as cfgmod

    from .common import read_as_part_of
    play_helpers = read_as_part_of(f, body.key, stop=lambda n: n in W)
    se = sym.SymExec(f, body, inline=lambda n: False if n in W else (True if n in play_helpers else None), max_paths=100000)
    paths = se.run()
    ctx.saw("%s: %d paths" % (body.key, len(paths)))
    where = loc(body)
    placement_fields = set()
    for (g, t_, pp, pt) in L.templates:
        if g in ("colors", "pieces"):
            placement_fields.add(t_[1][2])
    placement_writers = {w for w in W if (se.modset(w) or {}).get(1) is None or (se.modset(w)[1] & placement_fields)}
    scans = scan.find_scans(f, L, body, paths)
    if ctx.check(len(scans) == 1, "play:one-scan", "play_unchecked does not contain exactly one slider scan (%d)" % len(scans), where):
        sc = scans[0]
        ca, pa = scan.check_scan(ctx, "play", body, sc, where)
        ctx.check(sc.owner == NSTM and sc.K == ("king", SELF, NSTM), "play:owner",
                  "the scan does not examine the king of the side that moves next (the mover's opponent): %s" % (sym.show(sc.K)[:80] if sc.K else None), where,
                  sample={"scan": "play_unchecked", "king": "king(!mover)", "attackers": "colors(mover) & ..."})
    rets = [p for p in paths if p.end == "return"]
    mvto = ("field", ("param", "mv"), "to")
    Kn = ("king", SELF, NSTM)
    knight_term = AND(("knight", Kn), ("bbof", mvto))
    pawn_term = AND(("pawnatt", Kn, NSTM), ("bbof", mvto))
    n = 0
    seen_cases = set()
    sc0 = scans[0] if len(scans) == 1 else None
    ca0, pa0 = (ca, pa) if sc0 is not None else (None, None)

    def acc_at_head(p_, acc):
        """value of accumulator `acc` when path p_ reached the scan loop"""
        for k_, snap_ in p_.pre_loop.items():
            if sc0 is None or scan.loop_fn(snap_, body) != sc0.frame_fn:
                continue
            for (nm_, path_), v_ in snap_.items():
                full = nm_ + "".join("." + h_[1] for h_ in path_)
                if v_ is not None and v_[0] == "tuple":
                    for i_, x_ in enumerate(v_[1]):
                        if "%s.%d" % (full, i_) == acc:
                            return x_
                if full == acc:
                    return v_
        return None

    def final_split(p_, field, acc):
        """the board field at return, split into (the scan's contribution present?, everything else OR-ed together with the
        accumulator's value before the scan)"""
        fin = sym.Ops(f).field(p_.store[("P", "self")], field)
        parts = scan.flatten(L.lift(fin))
        hvs = [x for x in parts if x[0] == "hv"]
        rest = [x for x in parts if x[0] != "hv"]
        if len(hvs) != 1 or hvs[0][2] != acc or hvs[0][3] not in sc0.loop_heads:
            return False, None
        init = acc_at_head(p_, acc)
        if init is None:
            return False, None
        rest.append(L.lift(init))
        got = rest[0]
        for x in rest[1:]:
            got = ("or", got, x)
        return True, got
    for p in rets:
        if sc0 is None or ca0 is None or pa0 is None:
            break
        snaps = [s for k, s in p.pre_loop.items() if scan.loop_fn(s, body) == sc0.frame_fn]
        if len(snaps) != 1:
            ctx.fail("play:scan-on-every-path", "a path of play_unchecked returns without running the slider scan", where)
            continue
        okc_, pre_c = final_split(p, chk_f, ca0)
        okp_, pre_p = final_split(p, pin_f, pa0)
        if not (okc_ and okp_):
            ctx.fail("play:pre-scan-values", "the board's checkers/pinned at return are not `what was there before the scan | the scan's result`", where)
            continue
        # ordering: writers before the scan are placement/rights/ep; after the scan only the side toggle
        # (writer calls made directly or inside a private helper read as part of play_unchecked)
        writer_events = [(e.idx, e.name.rsplit("::", 1)[-1], e) for e in p.events if e.kind == "call" and e.name in W]
        scan_idx = min([e.idx for e in p.events if e.kind == "call" and e.name.endswith("Iterator>::next")] or [10 ** 9])
        after = [nm for i, nm, e in writer_events if i > scan_idx]
        before_toggle = [nm for i, nm, e in writer_events if i < scan_idx and not e.args[1:]]
        ctx.check(len(after) == 1 and not before_toggle, "play:scan-after-writers-before-toggle",
                  "the scan is not placed after all placement/rights/en-passant writers and before the single side toggle (after: %s, toggles before: %s)"
                  % (after, before_toggle), where)
        # the version of the placement the scan reads is the last one before it
        if scans and scans[0].board is not None:
            last_before = [e for i, nm, e in writer_events if i < scan_idx and e.name in placement_writers]
            if last_before:
                want_ver = ("zb", ("post", last_before[-1].name.rsplit("::", 1)[-1], last_before[-1].idx))
                # the loop set on this path
                S = None
                for c in p.conds:
                    if c[0][0] == "discr" and c[0][1][0] == "next":
                        S = L.lift(c[0][1][1])
                gets = {g[2] for g in sym.subterms(S, lambda x: x[0] == "get" and x[1] in ("colors", "pieces"))} if S else set()
                ctx.check(gets == {want_ver}, "play:scan-reads-final-placement",
                          "the scan reads a placement that is not the one after the last writer before it: %s vs %s" % ([sym.show(g)[:60] for g in gets], sym.show(want_ver)), where)
        ctx.check(pre_p == ("bbconst", 0), "play:pinned-reset", "pinned is not empty when the scan starts: %s" % sym.show(pre_p)[:100], where)
        # direct checks by moved kind
        moved = None
        for e in p.events:
            if e.kind == "call" and e.depth == 0 and e.name.endswith("::expect") and e.args[0][0] == "call" and e.args[0][1] == B + "::piece_on":
                moved = e.ret
        if moved is None:
            ctx.fail("play:moved-piece", "cannot identify the moved piece (piece_on(mv.from))", where)
            continue
        kind, excl = piece_case(L, p, moved)
        promo = zob.opt_state(p, ("field", ("param", "mv"), "promotion"))
        promo_piece = None
        if promo == "Some":
            pk, pex = piece_case(L, p, zob.payload(("field", ("param", "mv"), "promotion")))
            promo_piece = (pk, pex)
        is_castle = None
        for c in p.conds:
            e = L.lift(c[0])
            if e[0] == "has" and e[1] == colors(STM) and e[2] == mvto:
                is_castle = bool(c[1])
        want = ("bbconst", 0)
        case = kind
        if is_castle:
            case = "castle"
        elif kind == "Knight":
            want = knight_term
        elif kind == "Pawn":
            if promo == "Some":
                if promo_piece[0] == "Knight":
                    want = knight_term
                    case = "Pawn=N"
                elif promo_piece[0] is None and "Knight" not in promo_piece[1]:
                    ctx.fail("play:knight-promotion-undistinguished",
                             "a promotion path does not distinguish promotion to a knight (which can give a direct check) from other promotions", where)
                    continue
                else:
                    case = "Pawn=other"
            elif promo == "None":
                want = pawn_term
            else:
                ctx.fail("play:promotion-undecided", "a pawn move path does not decide whether it promotes", where)
                continue
        ok = setalg.equivalent(pre_c, want)
        if not ok and want != ("bbconst", 0):
            # `if attacks.has(to) { checkers |= bb(to) }`: on a path that decided the membership, attacks & bb(to) is
            # bb(to) or nothing
            T_ = knight_term[1] if want == knight_term else pawn_term[1]
            for c in p.conds:
                e_ = L.lift(c[0])
                if e_[0] == "has" and e_[2] == mvto and isinstance(c[1], int) and setalg.equivalent(e_[1], T_):
                    ok = setalg.equivalent(pre_c, ("bbof", mvto) if c[1] else ("bbconst", 0))
        seen_cases.add(case)
        n += 1
        ctx.check(ok, "play:direct-checks:%s" % case,
                  "before the scan, checkers for a %s move are %s; required %s (only the moved piece can give a direct knight/pawn check, with the pawn-attack colour of the king's owner)"
                  % (case, sym.show(pre_c)[:200], sym.show(want)[:200]), where,
                  sample={"moved": case, "direct checkers": sym.show(want)[:120]} if case not in getattr(ctx, "_c03seen", set()) else None)
    ctx.floor("returning paths of play_unchecked analysed", n, 100)
    ctx.check({"Knight", "Pawn", "Pawn=N", "castle"} <= seen_cases, "play:cases-seen", "not all move kinds were recognised: %s" % sorted(map(str, seen_cases)), where)

    # ------------------------------------------------------------ null_move
    ctx.rule("null_move")
    nb = f.need(B + "::null_move")
    null_helpers = read_as_part_of(f, nb.key, stop=lambda n: n in W)
    nps = sym.SymExec(f, nb, inline=lambda n: True if n in null_helpers else None).run()
    nsc = scan.find_scans(f, L, nb, nps)
    if ctx.check(len(nsc) == 1, "null:one-scan", "null_move does not contain exactly one slider scan", loc(nb)):
        sc = nsc[0]
        ca, pa = scan.check_scan(ctx, "null_move", nb, sc, loc(nb), require_zero_arm=False)
        ctx.check(sc.owner == NSTM and sc.board == SELF, "null:owner", "null_move's scan does not examine the king of the side that moves next", loc(nb))
        ctx.check(scan.acc_initial(sc, pa) == ("bbconst", 0), "null:pinned-reset", "pinned is not reset before null_move's scan", loc(nb))
        for p in nps:
            if p.end == "return" and p.ret[0] == "agg" and p.ret[2] == "Some":
                bd = dict(p.ret[4])["0"]
                pv = dict(bd[4]).get(pin_f) if bd[0] == "agg" else None
                ctx.check(scan.is_acc_result(sc, pa, pv), "null:result-pinned-from-scan",
                          "null_move returns a board whose pinned set is not the result of the reset-and-scan (stale pins survive)", loc(nb))
        ctx.note("null_move omits the no-blocker arm: it is only reachable with no checkers and passing cannot put the passer's opponent in check")

    # ------------------------------------------------------------ constructors
    ctx.rule("constructors")
    # the functions that fill the two fields from the definition (by role: they call it and are not validators)
    from . import gate as gatemod
    from ..facts import callee_name as _cn
    g = gatemod.Gate(ctx, f)
    cons = sorted(k for k, b_ in f.bodies.items() if b_.crate == "cozy_chess" and b_.kind in ("Fn", "AssocFn") and b_.promoted is None
                  and g.validator_role(k) is None and any(_cn(t_) == defn.key for _, t_ in b_.calls()))
    ctx.check(len(cons) >= 2, "constructors:found", "fewer than two constructor paths compute checkers and pins from the definition: %s" % cons)
    for cname in cons:
        cb = f.need(cname)
        cps = sym.SymExec(f, cb, inline=lambda n: False if (n in W or n == defn.key or g.is_stage(n) or g.validator_role(n) is not None) else None,
                          max_paths=100000).run()
        ctx.saw("%s: %d paths" % (cb.key, len(cps)))
        nok = 0
        for p in cps:
            if p.end != "return" or p.ret is None:
                continue
            if g.is_stage(cname):
                if not g.path_succeeds(cname, p)[0]:
                    continue        # (a stage may also hand back the verdict of its last validator)
            elif not ((p.ret[0] == "agg" and p.ret[2] in ("Ok", "Some")) or p.ret in (sym.TRUE, ("tuple", ()))):
                continue
            calls = [e for e in p.events if e.kind == "call" and e.depth == 0 and e.name == defn.key]
            own = []
            for e in calls:
                colour = L.lift(e.args[1])
                if colour[0] == "get" and colour[1] == "side_to_move":
                    own.append(e)
            if not ctx.check(len(own) == 1, "%s:calls-definition-once" % cname.rsplit("::", 1)[-1],
                             "a successful path does not call the definition exactly once with the board's own side to move (%d)" % len(own), loc(cb)):
                continue
            e = own[0]
            later_place = [x.name.rsplit("::", 1)[-1] for x in p.events if x.kind == "call" and x.idx > e.idx and
                           (x.name in W and len(x.args) == 4 or (x.name in W and len(x.args) == 1))]
            later_place += [x.name.rsplit("::", 1)[-1] for x in p.events if x.kind == "call" and x.idx > e.idx and g.is_stage(x.name)
                            and g.stage_kind(x.name) & {"placement", "side"}]
            ctx.check(not later_place, "%s:no-placement-after" % cname.rsplit("::", 1)[-1],
                      "placement or side writers run after checkers/pins were computed: %s" % later_place, loc(cb))
            # the two fields are assigned from the pair, in the definition's order
            bname = None
            for root, val in p.store.items():
                pass
            res = e.ret
            okf = False
            for root, val in p.store.items():
                if root[0] in ("P", "L"):
                    cf = sym.Ops(f).field(val, chk_f)
                    pf = sym.Ops(f).field(val, pin_f)
                    if cf == ("field", res, "0") and pf == ("field", res, "1"):
                        okf = True
            ctx.check(okf, "%s:fields-from-definition" % cname.rsplit("::", 1)[-1],
                      "checkers/pinned of the constructed board are not (definition.0, definition.1)", loc(cb),
                      sample={"constructor": cname.rsplit("::", 1)[-1], "checkers": "definition(board, side_to_move).0", "pinned": ".1"} if nok == 0 else None)
            nok += 1
        ctx.floor("successful paths of %s" % cname.rsplit("::", 1)[-1], nok, 1)

    # ------------------------------------------------------------ equality covers the derived fields
    ctx.rule("equality-covers-fields")
    eqb = f.need("<%s as core::cmp::PartialEq>::eq" % B)
    eps = sym.SymExec(f, eqb).run()
    compared = set()
    for p in eps:
        if p.ret == sym.FALSE:
            continue
        for c in list(p.conds) + [(p.ret, 1)]:
            for t in sym.subterms(c[0], lambda x: x[0] == "field" and x[1] == ("obj", "self")):
                compared.add(t[2])
            for t in sym.subterms(c[0], lambda x: x[0] == "ptr" and x[1] == ("P", "self") and x[2]):
                compared.add(t[2][0][1])
    ctx.check({pin_f, chk_f} <= compared, "eq-covers-pinned-checkers",
              "Board equality does not compare both derived fields (compared: %s)" % sorted(compared), loc(eqb),
              sample={"compared fields": sorted(compared)})
    # the scans read placement through the position-state writers (C10) and mean what the specification says only if
    # the ray / between / leaper look-ups equal geometry (C05)
    from . import c05, c10
    expl_ = ctx.explanation
    c05.run_lookups(ctx)
    c10.run(ctx)
    ctx.explanation = expl_
