"""C11 the hash separates positions that differ in one to four elementary features.

Decided completely, in two parts.  (S3) The feature key tables are discovered from the hash
writers (C10's symbolic analysis gives, per feature kind, the constant item and projection
the writer XORs); every key in those tables -- as evaluated by rustc -- is read and the set
is shown XOR-independent up to order four: no key is zero, all are distinct, no key is the
XOR of two others, no two different pairs have equal XOR (all pair XORs are hashed).  (S1)
Injective keying: each dimension of a key table is indexed by a direct enum cast of a
distinct parameter (or of the payload of the optional value) whose enum has exactly as many
variants as the array is long, so distinct features use distinct keys and every feature
kind has its own table."""
from .. import sym
from . import zob, c10
from .common import loc


def enum_len(f, body, expr):
    """number of variants of the enum behind (discr(x) as usize)"""
    if expr[0] != "cast" or expr[2][0] != "discr":
        return None, None
    x = expr[2][1]
    ty = None
    if x[0] == "param":
        for i in range(1, body.argc + 1):
            if body.local_name(i) == x[1]:
                ty = body.locals[i]["ty"]
    elif x[0] == "field" and x[1][0] == "downcast":
        # payload of Option<E>: find E from any local typed Option<E>
        inner = x[1][1]
        if inner[0] == "param":
            for i in range(1, body.argc + 1):
                if body.local_name(i) == inner[1]:
                    t = body.locals[i]["ty"]
                    if t.startswith("core::option::Option<"):
                        ty = t[len("core::option::Option<"):-1]
        if ty is None:
            # field of self: look the field type up in the ADT table
            ty = field_option_payload(f, inner)
    if ty is None and x[0] == "elem":
        # a member of a set of squares (the writer toggles a whole set and keys each member)
        S_ = x[1]
        if S_[0] == "param":
            for i in range(1, body.argc + 1):
                if body.local_name(i) == S_[1] and body.locals[i]["ty"] == "cozy_chess_types::bitboard::BitBoard":
                    ty = "cozy_chess_types::square::Square"
    if ty is None:
        return None, None
    adt = f.adts.get(ty)
    if adt is None or adt["kind"] != "Enum":
        return ty, None
    return ty, len(adt["variants"])


def field_option_payload(f, e):
    # e = field(..., name): search all ADTs for a field of that name with an Option<enum> type
    if e[0] != "field":
        return None
    name = e[2]
    for a in f.adts.values():
        for v in a["variants"]:
            for fl in v["fields"]:
                if fl["name"] == name and fl["ty"].startswith("core::option::Option<"):
                    return fl["ty"][len("core::option::Option<"):-1]
    return None


def collect(data, shape):
    """all u64 leaves under the table shape (item, ('color','[]','pieces','[]','[]'))"""
    out = []

    def rec(d, path, idx):
        if not path:
            if isinstance(d, int):
                out.append((tuple(idx), d))
            else:
                raise ValueError("key leaf is not an integer")
            return
        h = path[0]
        if h == "[]":
            for i, x in enumerate(d):
                rec(x, path[1:], idx + [i])
        else:
            for n, v in d["fields"]:
                if n == h:
                    rec(v, path[1:], idx)
                    return
            raise ValueError("no field %s" % h)
    rec(data, list(shape), [])
    return out


def lens_of(data, shape):
    lens = []
    d = data
    for h in shape:
        if h == "[]":
            lens.append(len(d))
            d = d[0]
        else:
            d = dict((n, v) for n, v in d["fields"])[h]
    return lens


def run(ctx):
    ctx.level = "proof"
    ctx.explanation = __doc__
    f = ctx.facts("A")
    roles = zob.Roles(ctx, f)
    c10._HASH[0] = roles.hash_field
    # reuse C10's writer analysis for the feature -> table map (its findings are C10's to report)
    sub = type(ctx)(ctx.pid, ctx.tier)
    features = c10.analyse_writers(sub, f, roles)
    ctx.rule("injective-keying")
    if sub.violations:
        ctx.fail("writers-not-in-lock-step", "the hash writers are not in lock-step with the state (see C10): %s"
                 % [v.key for v in sub.violations][:4])
    keys = []
    items = set()
    for name, ft in sorted(features.items()):
        tab = ft.get("table")
        if not ctx.check(tab is not None, "%s:table" % name, "feature kind %s is never keyed" % name):
            continue
        item, shape = tab
        items.add(item)
        c = f.consts.get(item)
        if not ctx.check(c is not None and "dec" in c, "%s:const" % name, "key constant %s was not evaluated" % item):
            continue
        lens = lens_of(c["dec"], shape)
        got = collect(c["dec"], shape)
        keys += [((name,) + idx, v) for idx, v in got]
        # dimension / parameter agreement
        body = ft.get("body")
        if name == "piece":
            dims = ft["dims"]
            tys = []
            ok = len(dims) == len(lens)
            for d, n in zip(dims, lens):
                ty, cnt = enum_len(f, body, d)
                tys.append(ty)
                ok = ok and cnt == n
            ok = ok and len(set(tys)) == len(tys) and None not in tys
            ctx.check(ok, "piece:dims", "piece key table %s (lengths %s) is not indexed by three distinct enum parameters of matching size: %s"
                      % (shape, lens, [(sym.show(d), t) for d, t in zip(dims, tys)]), loc(body),
                      sample={"feature": "piece", "table": str(shape), "lens": lens, "index_types": tys})
        elif name == "side":
            ctx.check(lens == [], "side:scalar", "side key is not a scalar", sample={"feature": "side", "table": str(shape)})
        else:
            ex = ft.get("example")
            idxs = [x[1] for x in ex[1] if isinstance(x, tuple)]
            tys = []
            ok = len(idxs) == len(lens)
            for d, n in zip(idxs, lens):
                ty, cnt = enum_len(f, body, d)
                tys.append(ty)
                ok = ok and cnt == n
            ctx.check(ok and None not in tys, "%s:dims" % name,
                      "key table %s for %s (lengths %s) is not indexed by enum casts of matching size: %s"
                      % (shape, name, lens, [(sym.show(d), t) for d, t in zip(idxs, tys)]), loc(body),
                      sample={"feature": name, "table": str(shape), "lens": lens, "index_types": tys})
    ctx.check(len(items) >= 1, "key-const", "no key constant found")
    ctx.rule("xor-independence")
    n = len(keys)
    ctx.floor("feature keys", n, 793)
    vals = [v for _, v in keys]
    zero = [k for k, v in keys if v == 0]
    ctx.check(not zero, "order1:nonzero", "zero key(s): a feature that does not change the hash: %s" % zero[:4],
              sample={"keys": n, "first": [hex(v) for v in vals[:3]]})
    vs = {}
    dup = []
    for k, v in keys:
        if v in vs:
            dup.append((vs[v], k))
        vs[v] = k
    ctx.check(not dup, "order2:distinct", "equal keys for different features: %s" % dup[:4])
    pair = {}
    coll3 = []
    coll4 = []
    for i in range(n):
        vi = vals[i]
        for j in range(i + 1, n):
            x = vi ^ vals[j]
            if x in vs and len(coll3) < 4:
                coll3.append((keys[i][0], keys[j][0], vs[x]))
            if x in pair:
                if len(coll4) < 4:
                    coll4.append((keys[i][0], keys[j][0], pair[x]))
            else:
                pair[x] = (i, j)
    ctx.check(not coll3, "order3:no-key-is-xor-of-two", "a key equals the XOR of two others: %s" % coll3)
    ctx.check(not coll4, "order4:pair-xors-distinct", "two different key pairs have the same XOR: %s" % coll4,
              sample={"pair_xors_hashed": len(pair)})
    ctx.extra["keys"] = n
    ctx.extra["pair_xors"] = len(pair)
    ctx.extra["exhaustive"] = True
    ctx.assumptions.append("features of an accepted board map to keys as the writers apply them (C10 lock-step); castle keys are per colour and file, shared between wings (a right is identified by colour and file; the wing is determined by the king's file)")
