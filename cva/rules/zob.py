"""Role discovery for the Zobrist machinery (shared by C10, C11)."""
from .. import sym
from .common import B, ZB, paths_of, iter_places, place_fields, loc


def xor_leaves(e):
    """flatten a BitXor tree into a list of leaves"""
    if e[0] == "bin" and e[1] == "BitXor":
        return xor_leaves(e[2]) + xor_leaves(e[3])
    return [e]


def cancel(leaves):
    out = []
    for l in leaves:
        if l in out:
            out.remove(l)
        else:
            out.append(l)
    return out


def key_path(e):
    """item(K).a[b].c[d] -> (K, ('a', IDX(b), 'c', IDX(d)))  or None"""
    path = []
    while True:
        if e[0] == "field":
            path.append(e[2])
            e = e[1]
        elif e[0] == "index":
            path.append(("idx", e[2]))
            e = e[1]
        elif e[0] in ("deref", "ref"):
            e = e[1]
        elif e[0] == "item":
            path.reverse()
            return e[1], tuple(path)
        else:
            return None


def opt_state(path, expr):
    """is `expr` (an Option value) decided Some / None on this path?"""
    d = ("discr", expr)
    for (c, v, bb, depth) in path.conds:
        if c == d:
            if v == 1:
                return "Some"
            if v == 0 or (isinstance(v, tuple) and 1 in v[1]):
                return "None"
        if c[0] == "bin" and c[1] in ("Eq", "Ne") and c[2] == d and c[3][0] == "int" and isinstance(v, int):
            eq = (c[1] == "Eq") == bool(v)
            if c[3][1] == 1:
                return "Some" if eq else "None"
            if c[3][1] == 0:
                return "None" if eq else "Some"
    return None


def payload(expr):
    return ("field", ("downcast", expr, "Some"), "0")


def enum_idx(x):
    return ("cast", "usize", ("discr", x))


class Roles:
    """hash field, inner-state type, writers, key constant"""

    def __init__(self, ctx, f):
        self.f = f
        b, ps = paths_of(f, B + "::hash")
        r = ps[0].ret if len(ps) == 1 else None
        ok = r is not None and r[0] == "field" and r[1][0] == "field" and r[1][1] == ("obj", "self")
        if not ok:
            raise_missing(ctx, "Board::hash is not a read of one field of the inner state: %s" % (sym.show(r) if r else None))
        self.inner_field = r[1][2]
        self.hash_field = r[2]
        # the inner state type: the type of Board.<inner_field>
        adt = f.adts[B]
        self.inner_ty = None
        for fl in adt["variants"][0]["fields"]:
            if fl["name"] == self.inner_field:
                self.inner_ty = fl["ty"]
        self.state_fields = [fl["name"] for fl in f.adts[self.inner_ty]["variants"][0]["fields"]]
        # writers: bodies assigning any field of the inner-state type
        self.writers = {}
        self.all_writes = []
        for k, body in f.bodies.items():
            for kind, pl, bi, si, sp in iter_places(body):
                if kind not in ("write", "refmut"):
                    continue
                for (adt_ty, fld) in place_fields(pl):
                    if adt_ty == self.inner_ty:
                        self.writers.setdefault(k, set()).add(fld)
                        self.all_writes.append((k, fld, sp["line"], kind))
        # a writer split into parts that are private to the state's module (`toggle_piece_sets` + `toggle_key` behind
        # `xor_square`): the writers the rest of the program sees are the methods that call the parts; the parts
        # themselves are read inlined there
        self.direct_writers = dict(self.writers)
        import re as _re
        from ..facts import callee_name
        own_module = self.inner_ty.rsplit("::", 1)[0].split("::", 1)[-1]

        def private(k):
            m_ = _re.match(r"Restricted\(DefId\([^~]*~ [^:]*::(.*)\)\)$", (f.fns.get(k) or {}).get("vis", ""))
            return bool(m_ and m_.group(1) == own_module)
        callers_of = {}
        for k2, b2 in f.bodies.items():
            for _, t in b2.calls():
                cn = callee_name(t)
                if cn:
                    callers_of.setdefault(cn, set()).add(k2.split("::{closure")[0])
        self.private_parts = set()
        for w in sorted(self.direct_writers):
            if not private(w) or f.bodies[w].j.get("impl_self") != self.inner_ty:
                continue
            seen, work, fronts, ok = {w}, [w], set(), True
            while work and ok:
                k = work.pop()
                for c in callers_of.get(k, ()):
                    cb = f.bodies.get(c)
                    if cb is None or cb.j.get("impl_self") != self.inner_ty:
                        ok = False
                        break
                    if private(c):
                        if c not in seen:
                            seen.add(c)
                            work.append(c)
                    else:
                        fronts.add(c)
            if ok and fronts:
                self.private_parts.add(w)
                for c in fronts:
                    self.writers.setdefault(c, set()).update(self.direct_writers[w])
        for w in self.private_parts:
            self.writers.pop(w, None)


def raise_missing(ctx, msg):
    from ..facts import MissingAnchor
    raise MissingAnchor(msg)
