"""Role discovery for the Zobrist machinery (shared by C10, C11)."""
from .. import sym
from .common import B, ZB, paths_of, iter_places, place_fields, loc


def xor_leaves(e):
    """flatten a BitXor tree into a list of leaves"""
    if e[0] == "bin" and e[1] == "BitXor":
        return xor_leaves(e[2]) + xor_leaves(e[3])
    return [e]


def cancel(leaves):
    out = []
    for l in leaves:
        if l in out:
            out.remove(l)
        else:
            out.append(l)
    return out


def key_path(e):
    """item(K).a[b].c[d] -> (K, ('a', IDX(b), 'c', IDX(d)))  or None"""
    path = []
    while True:
        if e[0] == "field":
            path.append(e[2])
            e = e[1]
        elif e[0] == "index":
            path.append(("idx", e[2]))
            e = e[1]
        elif e[0] in ("deref", "ref"):
            e = e[1]
        elif e[0] == "item":
            path.reverse()
            return e[1], tuple(path)
        else:
            return None


def opt_state(path, expr):
    """is `expr` (an Option value) decided Some / None on this path?"""
    d = ("discr", expr)
    for (c, v, bb, depth) in path.conds:
        if c == d:
            if v == 1:
                return "Some"
            if v == 0 or (isinstance(v, tuple) and 1 in v[1]):
                return "None"
        if c[0] == "bin" and c[1] in ("Eq", "Ne") and c[2] == d and c[3][0] == "int" and isinstance(v, int):
            eq = (c[1] == "Eq") == bool(v)
            if c[3][1] == 1:
                return "Some" if eq else "None"
            if c[3][1] == 0:
                return "None" if eq else "Some"
    return None


def payload(expr):
    return ("field", ("downcast", expr, "Some"), "0")


def enum_idx(x):
    return ("cast", "usize", ("discr", x))


class Roles:
    """hash field, inner-state type, writers, key constant"""

    def __init__(self, ctx, f):
        self.f = f
        b, ps = paths_of(f, B + "::hash")
        r = ps[0].ret if len(ps) == 1 else None
        ok = r is not None and r[0] == "field" and r[1][0] == "field" and r[1][1] == ("obj", "self")
        if not ok:
            raise_missing(ctx, "Board::hash is not a read of one field of the inner state: %s" % (sym.show(r) if r else None))
        self.inner_field = r[1][2]
        self.hash_field = r[2]
        # the inner state type: the type of Board.<inner_field>
        adt = f.adts[B]
        self.inner_ty = None
        for fl in adt["variants"][0]["fields"]:
            if fl["name"] == self.inner_field:
                self.inner_ty = fl["ty"]
        self.state_fields = [fl["name"] for fl in f.adts[self.inner_ty]["variants"][0]["fields"]]
        # writers: bodies assigning any field of the inner-state type
        self.writers = {}
        self.all_writes = []
        for k, body in f.bodies.items():
            for kind, pl, bi, si, sp in iter_places(body):
                if kind not in ("write", "refmut"):
                    continue
                for (adt_ty, fld) in place_fields(pl):
                    if adt_ty == self.inner_ty:
                        self.writers.setdefault(k, set()).add(fld)
                        self.all_writes.append((k, fld, sp["line"], kind))


def raise_missing(ctx, msg):
    from ..facts import MissingAnchor
    raise MissingAnchor(msg)
