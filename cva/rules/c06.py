"""C06 only structurally sound positions become boards; reachable ones always do.

Decided:
 * encapsulation -- Board and the inner position state have no public field; Board values are
   constructed only in the two constructors (and the derived Clone); Board fields are written, or
   lent mutably, only by a closed set discovered by role: the constructors and their stage
   helpers, play_unchecked, null_move (on its clone) and the two asserting clock setters, whose
   assertions are checked (n <= 100, n > 0); a new public mutator is a violation;
 * the gate (T1) -- on every Ok path of from_fen and of build, for every role (placement+side,
   derived checkers/pins, castling, en passant, half-move, full-move) the last write of that role is
   followed by a passed validator of that role (stage helpers are analysed and summarised);
 * validator content -- each validator's acceptance condition (straight-line part and one generic
   iteration of each loop, as DNF over normalised atoms) is Boolean-equivalent to the property's
   list: per colour <=16 pieces, exactly one king, <=8 pawns, none on ranks 1/8; colours disjoint;
   kings not adjacent; the side not to move not in check; castling: king on its back rank, own rook
   on (right file, back rank), rook < king for long and king < rook for short; en passant: origin and
   passed square empty, enemy pawn on the 4th rank (relative), every checker is that pawn or a
   slider through the origin square; clocks <= 100 and >= 1; at most two checkers and stored
   checkers/pins equal to the definition.  Equivalence (not just implication) is required because
   an over-strict validator rejects positions reached by legal play.
 * clocks of reachable positions stay in the gate's range (C02/C14 decide the transfer functions).
Not decided: that every position reached by legal play passes the castling / en-passant / checker
validators (an induction over play needing the move semantics)."""
from .. import sym, lift, setalg
from . import gate as gatemod
from .movegen import AND, OR, NOT, SELF, STM, NSTM, colors, pieces, WHITE, BLACK, OCC, CHECKERS, PINNED, K, PIECE, COLOR, FILE
from .common import B, loc, iter_places, place_fields
from ..facts import callee_name

RANK = "cozy_chess_types::rank::Rank"
BUILDER = "cozy_chess::board::builder::BoardBuilder"


def norm_each(e, f_adts):
    """deref(elem(ref(array(all variants)))) -> ('each', enum type)"""
    if not isinstance(e, tuple) or not e:
        return e
    if e[0] == "deref" and e[1][0] == "elem":
        a = e[1][1]
        while a[0] in ("ref", "deref", "iter"):
            a = a[1]
        if a[0] == "array" and a[1] and all(x[0] == "enum" for x in a[1]):
            ty = a[1][0][1]
            names = [x[2] for x in a[1]]
            adt = f_adts.get(ty)
            if adt and [v["name"] for v in adt["variants"]] == names:
                return ("each", ty)
    return tuple(norm_each(x, f_adts) if isinstance(x, tuple) else x for x in e)


def natom(e, v):
    """normalised (atom, polarity) of a branch decision"""
    if e[0] == "discr" and (e[1][0] != "next" or len(e[1]) == 3):      # (a numbered next() is an Option value, not a loop test)
        if v == 1:
            return ("issome", e[1]), True
        if v == 0 or (isinstance(v, tuple) and set(v[1]) == {1}):
            return ("issome", e[1]), False
        if isinstance(v, tuple) and set(v[1]) == {0}:
            return ("issome", e[1]), True
    a, pol = setalg.cond_atom((e, v))
    if isinstance(a, tuple) and a and a[0] == "bin" and a[1] == "Eq" and a[2][0] == "discr" and a[3][0] == "int" and a[3][1] in (0, 1):
        return ("issome", a[2][1]), (pol if a[3][1] == 1 else not pol)
    # numeric comparisons with a constant -> ranges
    if isinstance(a, tuple) and a and a[0] == "bin" and a[1] in ("Lt", "Le", "Gt", "Ge", "Eq"):
        op, x, y = a[1], a[2], a[3]
        if x[0] == "int" and y[0] != "int":
            x, y = y, x
            op = {"Lt": "Gt", "Gt": "Lt", "Le": "Ge", "Ge": "Le", "Eq": "Eq"}[op]
        if y[0] == "int":
            k = y[1]
            if x[0] == "len":
                x = ("len", setalg.canon(x[1]))
            if op == "Le":
                return ("range", x, None, k), pol
            if op == "Lt":
                return ("range", x, None, k - 1), pol
            if op == "Gt":
                return ("range", x, None, k), not pol
            if op == "Ge":
                return ("range", x, None, k - 1), not pol
            if op == "Eq":
                return ("range", x, k, k), pol
        else:
            if op == "Gt":
                return ("bin", "Lt", y, x), pol
            if op == "Ge":
                return ("bin", "Lt", x, y), not pol
            if op == "Le":
                return ("bin", "Lt", y, x), not pol
    return a, pol


def prep(e):
    """membership tests become emptiness tests before set-level rewriting"""
    if not isinstance(e, tuple) or not e:
        return e
    if e[0] == "has":
        return ("un", "Not", ("isempty", king_as_set(("and", prep(e[1]), ("bbof", prep(e[2]))))))
    return tuple(prep(x) if isinstance(x, tuple) else x for x in e)


def king_as_set(e):
    """bb(king(S, c)) denotes the same set as colors(c) & pieces(King) once each side has exactly one king"""
    if not isinstance(e, tuple) or not e:
        return e
    if e[0] == "bbof" and e[1][0] == "king":
        return ("and", ("get", "colors", e[1][1], e[1][2]), ("get", "pieces", e[1][1], ("enum", PIECE, "King")))
    return tuple(king_as_set(x) if isinstance(x, tuple) else x for x in e)


def merge_empties(conj):
    """a conjunction of `X_i is empty` is `union X_i is empty`: merge them into one canonical atom"""
    pos = []
    rest = []
    for a, pol in conj:
        if isinstance(a, tuple) and a and a[0] == "isempty" and pol is True:
            pos.append(a[1])
        else:
            rest.append((a, pol))
    if pos:
        u = None
        for x in pos:
            x = x if not (isinstance(x, tuple) and x and x[0] == "bool") else movegen_bool(x)
            u = x if u is None else ("or", u, x)
        rest.append((("isempty", setalg.canon(u)), True))
    return sorted(rest, key=repr)


def movegen_bool(c):
    from .movegen import bool_to_expr
    return bool_to_expr(c)


def closure_acceptance(f, L, clos, S, store=None):
    """acceptance DNF of a `|x| cond` closure used with Iterator::all over S (param := elem(S));
    captured variables are replaced by the caller's values"""
    cb = f.bodies.get(clos[1]) if clos[0] == "closure" else None
    if cb is None:
        return None
    ps = sym.SymExec(f, cb).run()
    pname = cb.local_name(2)
    out = []
    ops = sym.Ops(f)
    upvals = []
    for u in clos[2]:
        v = u
        if u[0] == "ptr" and store is not None:
            base = store.get(u[1])
            v = ops.project(base, u[2]) if base is not None else u
        upvals.append(norm_each(L.lift(v), f.adts))

    def sub(e):
        if e == ("param", pname):
            return ("elem", S)
        # *_1.k  /  **_1.k : the k-th captured variable
        if isinstance(e, tuple) and e and e[0] == "deref" and e[1][0] == "field" and e[1][1] == ("obj", "_1") and e[1][2].isdigit() and int(e[1][2]) < len(upvals):
            return upvals[int(e[1][2])]
        if isinstance(e, tuple) and e and e[0] == "field" and e[1] == ("obj", "_1") and e[2].isdigit() and int(e[2]) < len(upvals):
            return upvals[int(e[2])]
        if isinstance(e, tuple):
            return tuple(sub(x) if isinstance(x, tuple) else x for x in e)
        return e
    # upvars: the closure's captured references resolve through field projections of _1; keep them lifted as they are
    for p in ps:
        if p.end != "return" or p.ret == sym.FALSE:
            continue
        lst = [natom(king_as_set(prep(sub(norm_each(L.lift(c[0]), f.adts)))), c[1]) for c in p.conds]
        if p.ret != sym.TRUE:
            lst.append(natom(king_as_set(prep(sub(norm_each(L.lift(p.ret), f.adts)))), 1))
        out.append(lst)
    return out


def is_set_expr(x):
    return isinstance(x, tuple) and bool(x) and (x[0] in setalg.SETOPS or x[0] in ("bbof", "bbconst", "rankbb", "filebb", "bool") or
                                                 (x[0] == "get" and x[1] in ("colors", "pieces", "pinned", "checkers")))


def set_eq_as_emptiness(e):
    """A == B on sets is `A xor B is empty` (so `p - m == p`, `(p & m).is_empty()` and `p.is_disjoint(m)` agree)"""
    if e[0] == "bin" and e[1] in ("Eq", "Ne") and is_set_expr(e[2]) and is_set_expr(e[3]) and \
            (e[2][0] in setalg.SETOPS or e[3][0] in setalg.SETOPS):
        x = ("isempty", ("xor", e[2], e[3]))
        return x if e[1] == "Eq" else ("un", "Not", x)
    return e


def expand_tuple_eq(items):
    """(a, b) == X decided true is a == X.0 and b == X.1"""
    out = []
    for e, v in items:
        if e[0] == "bin" and e[1] == "Eq" and v == 1 and (e[2][0] == "tuple") != (e[3][0] == "tuple"):
            tp, other = (e[2], e[3]) if e[2][0] == "tuple" else (e[3], e[2])
            for i, comp in enumerate(tp[1]):
                out.append((("bin", "Eq", comp, ("field", other, str(i))), 1))
        else:
            out.append((e, v))
    return out


def struct_eq_alternatives(items):
    """comparison of a value with a struct constant, field by field: `X == S{f: a, g: b}` true is X.f == a and X.g == b;
    false is X.f != a or X.g != b -- one alternative list of decisions per disjunct (a comparison with an Option
    constant None reads as the presence test).  -> list of decision lists"""
    alts = [[]]
    for e, v in items:
        comp = None
        if e[0] == "bin" and e[1] in ("Eq", "Ne") and isinstance(v, int):
            for a_, b_ in ((e[2], e[3]), (e[3], e[2])):
                if a_[0] == "agg" and a_[3] is None and len(a_[4]) >= 2 and b_[0] != "agg":
                    comp = [(("bin", "Eq", x_, ("field", b_, n_)) if not (x_[0] == "agg" and x_[2] == "None")
                             else ("un", "Not", ("bin", "Eq", ("discr", ("field", b_, n_)), ("int", 1, "isize")))) for n_, x_ in a_[4]]
                    break
        if comp is None:
            alts = [al + [(e, v)] for al in alts]
            continue
        holds = (e[1] == "Eq") == bool(v)
        if holds:
            alts = [al + [(c_, 1) for c_ in comp] for al in alts]
        else:
            alts = [al + [(c_, 0)] for al in alts for c_ in comp]
    return alts


def acceptance(f, L, name, noinline=None):
    """-> (straight DNF, {loop set canon: iteration DNF}, residual returns) of a validator"""
    b = f.need(name)
    # loop-free private predicates that only this validator uses (a requirement moved into a function of its own) are
    # read as part of it
    from .common import read_as_part_of
    own = read_as_part_of(f, name)

    def inl(n):
        r = noinline(n) if noinline is not None else None
        if r is None and n in own:
            return True
        return r
    paths = sym.SymExec(f, b, inline=inl).run()
    straight = []
    loops = {}
    residual = []
    for p in paths:
        conds = [(norm_each(L.lift(c[0]), f.adts), c[1]) for c in p.conds]
        if p.end == "return" and p.ret == sym.FALSE:
            continue
        if p.end == "return":
            lst = []
            items = list(conds)
            if p.ret != sym.TRUE:
                items.append((norm_each(L.lift(p.ret), f.adts), 1))
            items = expand_tuple_eq(items)
            alts_ = struct_eq_alternatives(items)
            for items in alts_[1:]:
                # further disjuncts of a negated struct comparison: the same path read with the other field differing
                lst2 = []
                for e, v in items:
                    if (e[0] == "discr" and e[1][0] == "next") or sym.contains(e, lambda x: x[0] == "hv"):
                        continue
                    lst2.append(natom(king_as_set(prep(set_eq_as_emptiness(e))), v))
                straight.append(lst2)
            items = alts_[0]
            for e, v in items:
                if e[0] == "discr" and e[1][0] == "next":
                    continue
                if sym.contains(e, lambda x: x[0] == "hv"):
                    continue
                e = set_eq_as_emptiness(e)
                # `iter.all(|x| cond)` taken on its true edge is a loop over the iterated set
                if e[0] == "call" and e[1].endswith("Iterator::all") and v == 1:
                    itv = None
                    a0 = e[2][0]
                    if a0[0] == "ptr":
                        itv = p.store.get(a0[1])
                    elif a0[0] in ("iter", "iter*"):
                        itv = a0
                    if itv is not None and itv[0] in ("iter", "iter*"):
                        S = norm_each(L.lift(itv[1]), f.adts)
                        dnf = closure_acceptance(f, L, e[2][1], S, p.store)
                        if dnf is not None:
                            key = repr(setalg.canon(S)) if S[0] in setalg.SETOPS or S[0] == "get" else repr(S)
                            loops.setdefault(key, (S, []))[1].extend(dnf)
                            continue
                lst.append(natom(king_as_set(prep(e)), v))
            straight.append(lst)
        elif p.end == "loopback":
            idx = None
            for i, (e, v) in enumerate(conds):
                if e[0] == "discr" and e[1][0] == "next" and v == 1:
                    idx = i
            if idx is None:
                continue
            S = conds[idx][0][1][1]
            key = repr(setalg.canon(S)) if S[0] in setalg.SETOPS or S[0] == "get" else repr(S)
            for items_ in struct_eq_alternatives(expand_tuple_eq(conds[idx + 1:])):
                lst = []
                for e, v in items_:
                    if sym.contains(e, lambda x: x[0] == "hv"):
                        continue
                    e = set_eq_as_emptiness(e)
                    lst.append(natom(king_as_set(prep(e)), v))
                loops.setdefault(key, (S, []))[1].append(lst)
    straight = [merge_empties(c) for c in straight]
    loops = {k: (S, [merge_empties(c) for c in dnf]) for k, (S, dnf) in loops.items()}
    return b, straight, loops


def value_range(x):
    """the values an integer-valued atom operand can take at all (all of them unsigned here)"""
    if x[0] == "len":
        return (0, 64)
    if x[0] == "get" and x[1] == "halfmove_clock":
        return (0, 255)
    if x[0] == "get" and x[1] == "fullmove_number":
        return (0, 65535)
    if x[0] == "cast" and x[1] in ("u8",):
        return (0, 255)
    return (0, (1 << 64) - 1)


def merge_ranges(dnf):
    """per conjunction, all range atoms on one operand become a single interval atom (so `!= 0`, `> 0` and `>= 1`,
    `<= 16` and `< 17`, `>= 17 -> reject` read the same); conjunctions with an empty interval are dropped"""
    out = []
    for conj in dnf:
        ivs = {}
        rest = []
        dead = False
        for a, pol in conj:
            if isinstance(a, tuple) and a and a[0] == "range":
                x, lo, hi = a[1], a[2], a[3]
                tmin, tmax = value_range(x)
                cur = ivs.setdefault(x, [tmin, tmax, []])
                lo = tmin if lo is None else max(lo, tmin)
                hi = tmax if hi is None else min(hi, tmax)
                if pol:
                    cur[0] = max(cur[0], lo)
                    cur[1] = min(cur[1], hi)
                else:
                    cur[2].append((lo, hi))
            else:
                rest.append((a, pol))
        for x, (lo, hi, holes) in ivs.items():
            changed = True
            left = list(holes)
            while changed:
                changed = False
                for h in list(left):
                    hl, hh = h
                    if hl <= lo and hh >= lo:
                        lo = hh + 1
                        left.remove(h)
                        changed = True
                    elif hh >= hi and hl <= hi:
                        hi = hl - 1
                        left.remove(h)
                        changed = True
                    elif hh < lo or hl > hi:
                        left.remove(h)
                        changed = True
            if lo > hi:
                dead = True
                break
            tmin, tmax = value_range(x)
            if (lo, hi) != (tmin, tmax):
                rest.append((("interval", x, lo, hi), True))
            for hl, hh in left:
                rest.append((("interval", x, hl, hh), False))
        if not dead:
            out.append(sorted(rest, key=repr))
    return out


def dedupe(dnf):
    out = []
    for c in dnf:
        if c not in out:
            out.append(c)
    return out


def compare(ctx, key, what, code_dnf, spec_dnf, where):
    code_dnf = dedupe(code_dnf)
    spec_dnf = [merge_empties([(("isempty", setalg.canon(king_as_set(movegen_bool(a[1]) if (isinstance(a[1], tuple) and a[1] and a[1][0] == "bool") else a[1]))), pol)
                               if (isinstance(a, tuple) and a and a[0] == "isempty") else (a, pol) for a, pol in c]) for c in spec_dnf]
    code_dnf = dedupe(merge_ranges(code_dnf))
    spec_dnf = merge_ranges(spec_dnf)
    try:
        ok, wit = setalg.guards_equivalent(code_dnf, spec_dnf)
    except ValueError as e:
        ok, wit = False, {"error": str(e)}
    msg = None
    if not ok:
        msg = {k: ([sym.show(x)[:150] for x in v] if isinstance(v, list) else v) for k, v in (wit or {}).items()}
    ctx.check(ok, key, "%s is not equivalent to the property's condition; they differ when %s" % (what, msg), where,
              sample={"validator": key, "atoms": len({a for c in spec_dnf for a, _ in c})})


def R(x, lo, hi):
    return ("range", x, lo, hi)


def LEN(s):
    return ("len", setalg.canon(s))


def EMPTY(s):
    return ("isempty", setalg.canon(s))


def HAS(s, sq):
    return ("isempty", setalg.canon(AND(s, ("bbof", sq))))       # polarity False == has


def check_validators(ctx, f, L, g=None):
    ctx.rule("validator-content")
    if g is None:
        g = gatemod.Gate(ctx, f)
    EC = ("each", COLOR)
    # ---------------- board
    bname = g.validator("board")
    from .common import checkers_pins_definition
    calc = checkers_pins_definition(f)
    noin = lambda n: False if n in calc else None
    b, straight, loops = acceptance(f, L, bname, noin)
    where = loc(b)
    opp_check = ("isempty", ("field", ("call", calc[0], (("ptr", ("P", "self"), (), False), NSTM)), "0")) if calc else None
    rank18 = OR(("rankbb", ("enum", RANK, "First")), ("rankbb", ("enum", RANK, "Eighth")))
    kings_apart = [EMPTY(AND(("kingmoves", ("king", SELF, WHITE)), colors(BLACK), pieces("King"))),
                   EMPTY(AND(("kingmoves", ("king", SELF, BLACK)), colors(WHITE), pieces("King")))]
    ka = None
    for c in straight:
        for a, pol in c:
            if a in kings_apart:
                ka = a
    # after merging, the adjacency requirement is part of the single emptiness atom: test it by implication
    adj = AND(("kingmoves", ("king", SELF, WHITE)), colors(BLACK), pieces("King"))
    adj2 = AND(("kingmoves", ("king", SELF, BLACK)), colors(WHITE), pieces("King"))
    related = False
    for c in straight:
        for a, pol in c:
            if isinstance(a, tuple) and a and a[0] == "isempty" and pol is True:
                x = movegen_bool(a[1]) if (isinstance(a[1], tuple) and a[1] and a[1][0] == "bool") else a[1]
                if setalg.subset(adj, x) or setalg.subset(adj2, x):
                    related = True
    ka = ka or (kings_apart[0] if related else None)
    ctx.check(ka is not None, "board:kings-not-adjacent",
              "board validation never relates the two kings' squares (adjacent kings would be accepted)", where,
              sample={"atom": "king_moves(king(W)) ∩ black king = ∅"})
    spec_straight = [[(EMPTY(AND(colors(WHITE), colors(BLACK))), True), (ka or kings_apart[0], True), (opp_check, True)]]

    def per_colour_for(c_):
        return [(R(LEN(colors(c_)), None, 16), True), (R(LEN(AND(colors(c_), pieces("King"))), 1, 1), True),
                (R(LEN(AND(colors(c_), pieces("Pawn"))), None, 8), True), (EMPTY(AND(colors(c_), pieces("Pawn"), rank18)), True)]
    per_colour = [per_colour_for(EC)]
    colour_loops = [(key, S, dnf) for key, (S, dnf) in loops.items()
                    if S == ("ref", ("array", tuple(("enum", COLOR, n) for n in ("White", "Black")))) or "Color" in key]
    if colour_loops:
        compare(ctx, "board:straight", "board_is_valid's unconditional part (colours disjoint, kings apart, side not to move not in check)", straight, spec_straight, where)
        for key, S, dnf in colour_loops:
            compare(ctx, "board:per-colour", "board_is_valid's per-colour part (<=16 pieces, one king, <=8 pawns, no pawn on ranks 1/8)", dnf, per_colour, where)
    else:
        # the per-colour requirements written out once for White and once for Black
        spec_all = [spec_straight[0] + per_colour_for(WHITE) + per_colour_for(BLACK)]
        compare(ctx, "board:straight", "board_is_valid (colours disjoint, kings apart, side not to move not in check; per colour <=16 pieces, one king, <=8 pawns, "
                "no pawn on ranks 1/8)", straight, spec_all, where)
    # ---------------- castling
    b, straight, loops = acceptance(f, L, g.validator("castling"))
    where = loc(b)
    rights = ("get", "castle_rights", SELF, EC)
    kc = ("king", SELF, EC)
    back = ("relrank", 0, EC)
    rooks = AND(colors(EC), pieces("Rook"))

    def some(w):
        return (("discr", ("field", rights, w)), )
    sS = ("issome", ("field", rights, "short"))
    sL = ("issome", ("field", rights, "long"))
    pS = ("field", ("downcast", ("field", rights, "short"), "Some"), "0")
    pL = ("field", ("downcast", ("field", rights, "long"), "Some"), "0")
    king_back = ("bin", "Eq", back, ("rank", kc))
    rookS = HAS(rooks, ("sq", pS, back))
    rookL = HAS(rooks, ("sq", pL, back))
    ltS = ("bin", "Lt", ("file", kc), pS)
    ltL = ("bin", "Lt", pL, ("file", kc))
    spec = []
    for hs in (False, True):
        for hl in (False, True):
            conj = [(sS, hs), (sL, hl)]
            if hs or hl:
                conj.append((king_back, True))
            if hs:
                conj += [(rookS, False), (ltS, True)]
            if hl:
                conj += [(rookL, False), (ltL, True)]
            spec.append(conj)
    got = None
    for key, (S, dnf) in loops.items():
        got = dnf
    if ctx.check(got is not None, "castling:per-colour-loop", "castle_rights_are_valid has no loop over both colours", where):
        norm = got
        compare(ctx, "castling:per-colour", "castle_rights_are_valid's per-colour condition (king on back rank, own rook on the right's square, rook on the correct side of the king)", norm, spec, where)
    # ---------------- en passant
    b, straight, loops = acceptance(f, L, g.validator("ep"))
    where = loc(b)
    ep = ("get", "en_passant", SELF)
    epf = ("field", ("downcast", ep, "Some"), "0")
    src = ("sq", epf, ("relrank", 6, STM))
    passed = ("sq", epf, ("relrank", 5, STM))
    pawn = ("sq", epf, ("relrank", 4, STM))
    epsome = ("issome", ep)
    spec_s = [[(epsome, False)],
              [(epsome, True), (HAS(OCC, src), True), (HAS(OCC, passed), True), (HAS(AND(colors(NSTM), pieces("Pawn")), pawn), False)]]
    st2 = straight
    compare(ctx, "ep:straight", "en_passant_is_valid's unconditional part (origin and passed square empty, enemy pawn on the 4th relative rank)", st2, spec_s, where)
    ch = ("elem", CHECKERS)
    spec_l = [[(("bin", "Eq", ch, pawn), True)], [(("bin", "Eq", ch, pawn), False), (HAS(("between", ch, K), src), False)]]
    got = None
    for key, (S, dnf) in loops.items():
        got = dnf
        # a loop over `checkers - {pawn}` asserting Q is the loop over all checkers asserting `it is the pawn, or Q`
        S_ = S
        while isinstance(S_, tuple) and S_ and S_[0] in ("ref", "deref", "iter"):
            S_ = S_[1]
        try:
            minus_pawn = S_ != CHECKERS and setalg.equivalent(S_, AND(CHECKERS, NOT(("bbof", pawn))))
        except Exception:
            minus_pawn = False
        if minus_pawn:
            old_e, new_e = ("elem", S_), ("elem", CHECKERS)

            def same_set(x):
                try:
                    return setalg.equivalent(setalg.expand_bool(x), S_)
                except Exception:
                    return False

            def re_(x):
                if x == old_e or (isinstance(x, tuple) and len(x) == 2 and x[0] == "elem" and same_set(x[1])):
                    return new_e
                if isinstance(x, tuple):
                    return tuple(re_(y) for y in x)
                return x
            is_pawn = ("bin", "Eq", new_e, pawn)
            got = [[(is_pawn, True)]] + [[(is_pawn, False)] + [(re_(a), pol) for a, pol in conj] for conj in dnf]
    if ctx.check(got is not None, "ep:checker-loop", "en_passant_is_valid does not constrain the checkers", where):
        g2 = []
        for conj in got:
            c2 = []
            for a, pol in conj:
                if isinstance(a, tuple) and a and a[0] == "bin" and a[1] == "Eq" and set(a[2:]) == {ch, pawn}:
                    c2.append((("bin", "Eq", ch, pawn), pol))
                else:
                    c2.append((a, pol))
            g2.append(c2)
        compare(ctx, "ep:checkers", "en_passant_is_valid's checker constraint (the pawn itself, or a slider through the pawn's origin square)", g2, spec_l, where)
    # ---------------- derived / clocks
    b, straight, loops = acceptance(f, L, g.validator("derived"), noin)
    if calc:
        cp = ("call", calc[0], (("ptr", ("P", "self"), (), False), STM))
        spec = [[(norm_eq(("field", cp, "0"), CHECKERS), True), (norm_eq(("field", cp, "1"), PINNED), True), (R(LEN(CHECKERS), None, 2), True)]]
        st2 = [[(norm_eq(a[2], a[3]), pol) if (isinstance(a, tuple) and a and a[0] == "bin" and a[1] == "Eq" and len(a) == 4) else (a, pol) for a, pol in conj] for conj in straight]
        compare(ctx, "derived", "checkers_and_pins_are_valid (stored sets equal the definition for the side to move, at most two checkers)", st2, spec, loc(b))
    b, straight, loops = acceptance(f, L, g.validator("half"))
    compare(ctx, "half", "halfmove_clock_is_valid (<= 100)", straight, [[(R(("get", "halfmove_clock", SELF), None, 100), True)]], loc(b))
    b, straight, loops = acceptance(f, L, g.validator("full"))
    compare(ctx, "full", "fullmove_number_is_valid (>= 1)", straight, [[(R(("get", "fullmove_number", SELF), None, 0), False)]], loc(b))


def norm_eq(a, b):
    x, y = sorted([a, b], key=repr)
    return ("bin", "Eq", x, y)


def check_encapsulation(ctx, f, g):
    ctx.rule("encapsulation")
    for ty in (B, g.roles.inner_ty):
        for fl in f.adts[ty]["variants"][0]["fields"]:
            ctx.check(not fl["pub"], "private:%s.%s" % (ty.rsplit("::", 1)[-1], fl["name"]), "field %s of %s is public" % (fl["name"], ty))
    makers = set()
    writers = {}
    for k, b in f.bodies.items():
        for blk in b.blocks:
            for s in blk["stmts"]:
                if s["k"] == "assign" and s["rv"]["k"] == "agg" and s["rv"].get("adt") == B:
                    makers.add(k)
        for kind, pl, bi, si, sp in iter_places(b):
            if kind in ("write", "refmut"):
                for adt, fl in place_fields(pl):
                    if adt == B:
                        writers.setdefault(k, set()).add(fl)
    cons = {B + "::from_fen", BUILDER + "::build"}
    derived_clone = {k for k in makers if f.bodies[k].j["sp"]["exp"]}
    ctx.check(makers - derived_clone <= cons, "constructed-only-by-constructors",
              "Board values are constructed outside from_fen/build: %s" % sorted(makers - derived_clone - cons), sample={"constructors": sorted(makers)})
    stages = {k for k in f.bodies if g.is_stage(k)}
    allowed_pub = {B + "::play_unchecked", B + "::set_halfmove_clock", B + "::set_fullmove_number", B + "::null_move"}
    allowed = cons | stages | allowed_pub
    # private helpers are fine when every caller is itself an allowed writer (transitively)
    callers = {}
    for k, b in f.bodies.items():
        for bb_, t_ in b.calls():
            cn = callee_name(t_)
            if cn in writers:
                owner = k.split("::{closure")[0]
                callers.setdefault(cn, set()).add(owner)
    changed = True
    while changed:
        changed = False
        for k in list(writers):
            if k in allowed:
                continue
            fn = f.fns.get(k)
            private = fn is not None and not fn["pub"] and not fn["exported"]
            cs = callers.get(k, set())
            if private and cs and cs <= allowed:
                allowed.add(k)
                changed = True
    # a closure belongs to the function it is written in
    for k in list(writers):
        if "::{closure" in k and k.split("::{closure")[0] in allowed:
            allowed.add(k)
    bad = sorted(set(writers) - allowed)
    ctx.check(not bad, "closed-writer-set", "Board fields are written or lent mutably outside the constructors, their stages, play_unchecked, null_move and the clock setters: %s" % bad,
              sample={"writers": sorted(x.rsplit("::", 1)[-1] for x in writers)})
    ctx.floor("functions writing Board fields", len(writers), 8)
    # public functions that take &mut Board (or &mut self) : must be in the allowed public set or only delegate to it
    for k, fn in f.fns.items():
        if not k.startswith(B + "::") or not fn["pub"]:
            continue
        if fn["inputs"] and fn["inputs"][0] == "&mut " + B and k not in allowed_pub:
            b = f.bodies.get(k)
            callees = {callee_name(t) for bb, t in b.calls()} if b else set()
            writes = k in writers
            delegates_only = not writes and all((c in allowed_pub or c == B + "::try_play" or c == B + "::is_legal" or not (c or "").startswith("cozy_chess::board::zobrist"))
                                                for c in callees)
            ctx.check(delegates_only, "public-mutator:%s" % k.rsplit("::", 1)[-1],
                      "public function %s mutates the board outside the audited set" % k, loc(b) if b else None)
        if "&mut" in fn["output"]:
            ctx.fail("hands-out-mut:%s" % k.rsplit("::", 1)[-1], "public function %s returns a mutable reference into the board" % k)
    # the setters assert their range before writing
    for name, want in ((B + "::set_halfmove_clock", ("Le", 100)), (B + "::set_fullmove_number", ("Gt", 0))):
        b = f.need(name)
        ps = sym.SymExec(f, b).run()
        ok = False
        for p in ps:
            if p.end == "return":
                st = p.store.get(("P", "self"))
                wrote = st != ("obj", "self")
                # what the path's comparisons leave of the argument's range
                from ..ranges import Ranger
                nty = b.locals[2]["ty"]
                bd = Ranger(f, {("param", "n"): nty}).bounds(("param", "n"), p.conds)
                g_ok = bd is not None and (bd[1] == want[1] if want[0] == "Le" else bd[0] == want[1] + 1)
                if wrote:
                    ok = g_ok
        ctx.check(ok, "setter-asserts:%s" % name.rsplit("::", 1)[-1], "%s writes the clock without asserting its range first" % name, loc(b),
                  sample={"setter": name.rsplit("::", 1)[-1], "guard": "%s %d" % want})


def run_witnesses(ctx):
    """S4: compile_fail doc-tests with compiling twins, built against /repo's working tree (never executed)"""
    import os
    import re
    import shutil
    import subprocess
    from ..facts import VERIF, REPO, nightly_sysroot
    ctx.rule("type-level-witnesses")
    wdir = os.path.join(VERIF, "witnesses")
    lock = os.path.join(REPO, "Cargo.lock")
    if os.path.exists(lock):
        try:
            shutil.copyfile(lock, os.path.join(wdir, "Cargo.lock"))
        except OSError:
            pass
    env = dict(os.environ, CARGO_NET_OFFLINE="true", CARGO_TARGET_DIR=os.path.join(VERIF, ".work", "wit-target"))
    env.pop("RUSTC_WORKSPACE_WRAPPER", None)
    env.pop("RUSTFLAGS", None)
    r = subprocess.run(["cargo", "+nightly", "test", "--doc", "--offline"], cwd=wdir, env=env, stdout=subprocess.PIPE, stderr=subprocess.STDOUT, text=True)
    res = {}
    for m in re.finditer(r"test src/lib.rs - (\w+) \(line \d+\) - (compile fail|compile) \.\.\. (\w+)", r.stdout):
        res.setdefault(m.group(1), {})[m.group(2)] = m.group(3)
    names = ["NoStructLiteral", "NoClockWrite", "NoCheckersWrite", "NoInnerAccess", "NoWriterAccess"]
    if not res:
        ctx.fail("witnesses:build", "the witness crate did not build against the current tree: %s" % r.stdout[-600:])
        return
    for n in names:
        got = res.get(n, {})
        ctx.check(got.get("compile fail") == "ok" and got.get("compile") == "ok", "witness:%s" % n,
                  "type-level witness %s no longer holds: the violating program %s, its twin %s (outside code can now forge or mutate a Board)"
                  % (n, "is rejected" if got.get("compile fail") == "ok" else "COMPILES", "compiles" if got.get("compile") == "ok" else "fails"),
                  sample={"witness": n, "violating program": "rejected with the expected error code", "twin": "compiles"})


def run_gate(ctx, f=None, g=None):
    """the gate of both constructors and the content of the validators; also re-run by the properties that quantify over
    "every accepted board" and lean on what the gate establishes (C01: the en-passant generator never consults the
    check mask because the gate ties the checkers to the pushed pawn)"""
    if ctx.pid != "C06":
        key = ("c06-gate", getattr(ctx, "rule_suffix", ""))
        done = ctx.__dict__.setdefault("_groups_done", set())
        if key in done:
            return
        done.add(key)
    f = f or ctx.facts("A")
    g = g or gatemod.Gate(ctx, f)
    ctx.rule("gate")
    g.check_gate(ctx, B + "::from_fen", "parser")
    g.check_gate(ctx, BUILDER + "::build", "builder")
    check_validators(ctx, f, g.L, g)


def run(ctx):
    ctx.explanation = __doc__
    f = ctx.facts("A")
    g = gatemod.Gate(ctx, f)
    run_witnesses(ctx)
    check_encapsulation(ctx, f, g)
    run_gate(ctx, f, g)
    # "every board the library hands out" includes the successors made by play and null_move: their clocks stay in the
    # gate's range only if the transfer functions are min(old+1, 100) / reset and saturating +1 (owned by C02 and C14;
    # re-run here)
    from . import c02, c14
    expl_ = ctx.explanation
    c02.run(ctx)
    c14.run(ctx)
    ctx.explanation = expl_
    ctx.assumptions += ["C05 for the meaning of king_moves/between tables; C03 for the definition of checkers and pins",
                        "acceptance of every reachable position by the castling / en-passant / checker validators is not decided (see Not decided)"]
