"""Role resolution for private items.

The rules are anchored in the library's *public* API (Board::generate_moves_for, is_legal, play_unchecked, from_fen,
BoardBuilder::build, ...).  Everything private -- helper functions, their parameter names, private fields -- is found
from there by role: who calls it, what it takes and returns, which public look-ups it consults.  A rename or a move
of a private helper therefore changes nothing; a role that can no longer be filled is reported as a missing anchor
(fail closed)."""
from ..facts import callee_name, MissingAnchor

B = "cozy_chess::board::Board"
BB = "cozy_chess_types::bitboard::BitBoard"
SQ = "cozy_chess_types::square::Square"
FILE = "cozy_chess_types::file::File"
MOVE = "cozy_chess_types::chess_move::Move"
MV = "cozy_chess::moves::"


def local_callees(f, key, transitive=False, stop=None):
    """local (library) functions called from `key`, closures of a function counted as part of it"""
    out = []
    seen = set()
    work = [key]
    while work:
        k = work.pop()
        for k2, b in f.bodies.items():
            if k2 == k or k2.startswith(k + "::{closure"):
                for bb_, t in b.calls():
                    cn = callee_name(t)
                    if cn and cn in f.bodies and cn not in seen and f.bodies[cn].crate.startswith("cozy_chess") and f.bodies[cn].kind in ("Fn", "AssocFn"):
                        seen.add(cn)
                        out.append(cn)
                        if transitive and not (stop and stop(cn)):
                            work.append(cn)
    return out


def calls_of(f, key):
    """resolved callee names (any crate) in `key` and its closures"""
    out = set()
    for k2, b in f.bodies.items():
        if k2 == key or k2.startswith(key + "::{closure"):
            for bb_, t in b.calls():
                cn = callee_name(t)
                if cn:
                    out.add(cn)
    return out


def sig(b):
    return [b.locals[i]["ty"] for i in range(1, b.argc + 1)], b.locals[0]["ty"]


class Names:
    def __init__(self, f):
        self.f = f
        self._cache = {}

    def _one(self, what, cands):
        cands = sorted(set(cands))
        if len(cands) != 1:
            raise MissingAnchor("%s (candidates: %s)" % (what, [c.rsplit("::", 1)[-1] for c in cands]))
        return cands[0]

    def _memo(self, key, fn):
        if key not in self._cache:
            self._cache[key] = fn()
        return self._cache[key]

    # ------------------------------------------------------------------ move generation
    @property
    def dispatch(self):
        return B + "::generate_moves_for"

    def _has_listener(self, k):
        b = self.f.bodies[k]
        a, r = sig(b)
        return r == "bool" and any(t.startswith("&mut ") and "::" not in t for t in a) and any(t == BB for t in a)

    @property
    def roster(self):
        def go():
            f = self.f
            cands = []
            for k in local_callees(f, self.dispatch):
                if self._has_listener(k):
                    sub = [c for c in local_callees(f, k) if self._has_listener(c)]
                    if len(sub) >= 4:
                        cands.append(k)
            return self._one("the function calling one generator per piece kind", cands)
        return self._memo("roster", go)

    @property
    def generators(self):
        """{'Pawn': key, 'Knight': key, 'Slider': key, 'King': key}"""
        def go():
            f = self.f
            gens = [c for c in local_callees(f, self.roster) if self._has_listener(c)]
            out = {}
            def classify(cs):
                kinds = []
                if MV + "get_pawn_quiets" in cs:
                    kinds.append("Pawn")
                if MV + "get_knight_moves" in cs:
                    kinds.append("Knight")
                if MV + "get_king_moves" in cs:
                    kinds.append("King")
                if not kinds and any(c.endswith("::pseudo_legals") or "SlidingPiece" in c for c in cs):
                    kinds.append("Slider")
                return kinds
            callers = {}
            for k2, b2 in f.bodies.items():
                if b2.crate.startswith("cozy_chess"):
                    owner = k2.split("::{closure")[0]
                    for bb_, t_ in b2.calls():
                        cn = callee_name(t_)
                        if cn:
                            callers.setdefault(cn, set()).add(owner)
            for g in gens:
                cs = set(calls_of(f, g))
                if not classify(cs):
                    # the look-up sits in a helper used by this generator alone
                    for h in local_callees(f, g):
                        if not self._has_listener(h) and callers.get(h, set()) <= {g}:
                            cs |= calls_of(f, h)
                kinds = classify(cs)
                if len(kinds) != 1 or kinds[0] in out:
                    raise MissingAnchor("generator roles (cannot classify %s: %s)" % (g.rsplit("::", 1)[-1], kinds))
                out[kinds[0]] = g
            if set(out) != {"Pawn", "Knight", "Slider", "King"}:
                raise MissingAnchor("generator roles (found %s)" % sorted(out))
            return out
        return self._memo("generators", go)

    def exclusive_helpers(self, key, loops=False):
        """private loop-free helpers that only `key` (or helpers of `key`) calls: read as part of it whatever their size
        (with loops=True: helpers with loops of their own too)"""
        def go():
            from .. import cfg as cfgmod
            f = self.f
            callers = {}
            for k2, b2 in f.bodies.items():
                if b2.crate.startswith("cozy_chess"):
                    owner = k2.split("::{closure")[0]
                    for bb_, t_ in b2.calls():
                        cn = callee_name(t_)
                        if cn:
                            callers.setdefault(cn, set()).add(owner)
            keep = {self.king_safe_on, self.can_castle, self.target_squares, self.roster} | set(self.generators.values())
            out = set()
            work = [key]
            while work:
                k = work.pop()
                for h in local_callees(f, k):
                    hb = f.bodies[h]
                    if h in out or h in keep or self._has_listener(h) or f.fns.get(h, {}).get("pub"):
                        continue
                    if not callers.get(h, set()) <= ({key} | out):
                        continue
                    if cfgmod.natural_loops(hb) and not loops:
                        continue
                    out.add(h)
                    work.append(h)
            return out
        return self._memo(("exclusive", key, loops), go)

    def exclusive_subgenerators(self, key):
        """private helpers that take the listener and that only generator `key` calls (a part of the generator moved into
        a function of its own, loops and all): read as part of it"""
        def go():
            f = self.f
            callers = {}
            for k2, b2 in f.bodies.items():
                if b2.crate.startswith("cozy_chess"):
                    owner = k2.split("::{closure")[0]
                    for bb_, t_ in b2.calls():
                        cn = callee_name(t_)
                        if cn:
                            callers.setdefault(cn, set()).add(owner)
            keep = {self.king_safe_on, self.can_castle, self.target_squares, self.roster, self.dispatch} | set(self.generators.values())
            out = set()
            work = [key]
            while work:
                k = work.pop()
                for h in local_callees(f, k):
                    if h in out or h in keep or not self._has_listener(h) or f.fns.get(h, {}).get("pub"):
                        continue
                    if not callers.get(h, set()) <= ({key} | out):
                        continue
                    out.add(h)
                    work.append(h)
            return out
        return self._memo(("subgen", key), go)

    @property
    def slider_type_param(self):
        b = self.f.bodies[self.generators["Slider"]]
        ps = [n for n in b.j["generics"] if not n.startswith("<") and n != "IN_CHECK" and not self._is_fn_param(b, n)]
        if len(ps) != 1:
            raise MissingAnchor("type parameter of the slider generator (%s)" % ps)
        return ps[0]

    def _is_fn_param(self, b, n):
        # the listener's type parameter: the one some `&mut N` argument has
        return any(b.locals[i]["ty"] == "&mut " + n for i in range(1, b.argc + 1))

    def listener_param(self, key):
        b = self.f.bodies[key]
        for i in range(1, b.argc + 1):
            t = b.locals[i]["ty"]
            if t.startswith("&mut ") and "::" not in t:
                return b.local_name(i)
        raise MissingAnchor("listener parameter of %s" % key)

    def mask_param(self, key):
        b = self.f.bodies[key]
        ps = [b.local_name(i) for i in range(1, b.argc + 1) if b.locals[i]["ty"] == BB]
        if len(ps) != 1:
            if key != self.roster and key in self.generators.values():
                # several sets are handed in: the mask is the one that receives the roster's own mask
                cls = self.gen_call_classes(key)
                ms = [b.local_name(i + 1) for i, c in enumerate(cls) if c == "mask"]
                if len(ms) == 1:
                    return ms[0]
            raise MissingAnchor("mask parameter of %s" % key)
        return ps[0]

    def _roster_calls(self, in_check):
        """generator call events of the roster (its own helpers inlined, the generators not), parameters canonically named"""
        def go():
            from .. import sym
            f = self.f
            rb = f.bodies[self.roster]
            gens = set(self.generators.values())
            rn = {rb.local_name(1): "self", self.mask_param(self.roster): "mask", self.listener_param(self.roster): "listener"}
            cg = {"IN_CHECK": sym.TRUE if in_check else sym.FALSE} if "IN_CHECK" in rb.j["generics"] else {}
            paths = sym.SymExec(f, rb, cgen=cg, inline=lambda n: False if n in gens else None, rename=rn).run()
            out = {}
            for p in paths:
                for e in p.events:
                    if e.kind == "call" and e.depth == 0 and e.name in gens:
                        out.setdefault(e.name, [])
                        if tuple(e.args) not in out[e.name]:
                            out[e.name].append(tuple(e.args))
            return out
        return self._memo(("roster_calls", in_check), go)

    @staticmethod
    def _classify(a):
        if a[0] == "ptr" and a[1] == ("P", "self"):
            return "self"
        if a == ("param", "mask"):
            return "mask"
        if a[0] == "ptr" and a[1] == ("P", "listener"):
            return "listener"
        return "bound"

    def gen_call_classes(self, key):
        """per parameter of a generator: 'self' | 'mask' | 'listener' | 'bound' (a value the roster computes and hands in)"""
        def go():
            cls = None
            for ic in (False, True):
                for args in self._roster_calls(ic).get(key, []):
                    c = [self._classify(a) for a in args]
                    if cls is not None and c != cls:
                        raise MissingAnchor("how the roster calls %s (call sites disagree)" % key.rsplit("::", 1)[-1])
                    cls = c
            if cls is None:
                raise MissingAnchor("a call of %s in the roster" % key.rsplit("::", 1)[-1])
            return cls
        return self._memo(("classes", key), go)

    def gen_bound_params(self, key, in_check):
        """{parameter name: value} for the parameters of a generator that the roster computes and hands in (the same
        value at every call site of that generator)"""
        def go():
            b = self.f.bodies[key]
            cls = self.gen_call_classes(key)
            sites = self._roster_calls(in_check).get(key, [])
            out = {}
            for i, c in enumerate(cls):
                if c != "bound":
                    continue
                vals = {args[i] for args in sites}
                if len(vals) != 1:
                    raise MissingAnchor("the value the roster hands to parameter %d of %s" % (i + 1, key.rsplit("::", 1)[-1]))
                out[b.local_name(i + 1)] = next(iter(vals))
            return out
        return self._memo(("bound", key, in_check), go)

    @property
    def target_squares(self):
        def go():
            f = self.f
            cands = set()
            for g in list(self.generators.values()) + [self.roster]:
                for c in local_callees(f, g):
                    b = f.bodies[c]
                    a, r = sig(b)
                    if r == BB and len(a) == 1 and "IN_CHECK" in b.j["generics"]:
                        cands.add(c)
                    elif r == BB and len(a) == 2 and sorted(x.lstrip("&") for x in a) == sorted([B, "bool"]) and "IN_CHECK" not in b.j["generics"]:
                        cands.add(c)        # the check mode handed in as a runtime flag
            return self._one("the target-square function of the generators", cands)
        return self._memo("target_squares", go)

    @property
    def king_safe_on(self):
        def go():
            f = self.f
            cands = set()
            for c in local_callees(f, self.generators["King"], transitive=True, stop=lambda n: self._has_listener(n)):
                a, r = sig(f.bodies[c])
                if r == "bool" and len(a) == 2 and a[1] == SQ and a[0].lstrip("&") == B:
                    cands.add(c)
            return self._one("the king-safety predicate (&Board, Square) -> bool", cands)
        return self._memo("king_safe_on", go)

    @property
    def can_castle(self):
        def go():
            f = self.f
            cands = set()
            for c in local_callees(f, self.generators["King"], transitive=True, stop=lambda n: self._has_listener(n)):
                a, r = sig(f.bodies[c])
                if r == "bool" and len(a) == 4 and a[0].lstrip("&") == B and a[2] == FILE and a[3] == FILE:
                    cands.add(c)
            return self._one("the castling test (&Board, rook, king destination file, rook destination file) -> bool", cands)
        return self._memo("can_castle", go)

    @property
    def king_is_legal(self):
        """the king branch of is_legal, when it is a function of its own (None when inlined)"""
        def go():
            f = self.f
            cands = set()
            for c in local_callees(f, B + "::is_legal"):
                a, r = sig(f.bodies[c])
                if r == "bool" and MOVE in a and any(t.lstrip("&") == B for t in a) and c != B + "::is_legal":
                    cs = calls_of(f, c)
                    if self.can_castle in cs or self.king_safe_on in cs:
                        cands.add(c)
            if not cands:
                return None
            return self._one("the king branch of is_legal", cands)
        return self._memo("king_is_legal", go)

    # ------------------------------------------------------------------ position comparison
    @property
    def effective_ep(self):
        def go():
            f = self.f
            cands = set()
            for c in local_callees(f, B + "::same_position"):
                a, r = sig(f.bodies[c])
                if r.startswith("core::option::Option<") and r.endswith("file::File>") and len(a) == 1 and a[0].lstrip("&") == B:
                    cands.add(c)
            if len(cands) > 1:
                # the raw getter has the same signature; the helper is the one that asks the legality predicate
                from .common import reachable_bodies
                asks = {c for c in cands if (B + "::is_legal") in reachable_bodies(f, [c])}
                cands = asks or cands
            return self._one("the effective en-passant helper of same_position", cands)
        return self._memo("effective_ep", go)


_names = {}


def names(f):
    k = id(f)
    if k not in _names:
        _names[k] = Names(f)
    return _names[k]
