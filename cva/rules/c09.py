"""C09 the board builder agrees with the FEN parser and round-trips boards.

Decided:
 * same gate -- both constructors pass, on every Ok path and after the last write of each role, a
   validator of that role (placement+side, derived checkers/pins, castling, en passant, half-move,
   full-move); the *sets* of validated roles are equal, and the validators are the same functions;
 * same stage -> error mapping -- the variant each build stage maps its failure to is read from the
   map_err closures and equals the role's variant (placement/derived -> InvalidBoard, castling ->
   InvalidCastlingRights, en passant -> InvalidEnPassant, clocks -> their variants);
 * unexpressible states rejected -- the en-passant square's rank guard in the builder is the
   parser's guard (same relative rank, on the side to move of the board under construction);
   wrong-side castling is rejected by the shared validator (C06);
 * from_board is total over the state -- every public field of the builder is assigned from the
   corresponding accessor of the board (squares from colours x pieces, rights per colour, side,
   en passant via the canonical rank, both clocks) and build reads every builder field.
Not decided: `builds <=> parses` as behaviour over all builder states."""
from ..facts import callee_name as facts_callee
from .. import sym, lift, setalg
from .. import cfg as cfgmod
from . import gate as gatemod
from .movegen import SELF, PIECE, COLOR
from .common import B, loc, transitive_field_access
from .c06 import norm_each

BUILDER = "cozy_chess::board::builder::BoardBuilder"
ERR_OF_ROLE = {"board": "InvalidBoard", "derived": "InvalidBoard", "castling": "InvalidCastlingRights", "ep": "InvalidEnPassant",
               "half": "InvalidHalfMoveClock", "full": "InvalidFullmoveNumber"}


def closure_const(f, clos):
    """the enum constant a `|_| Variant` closure returns"""
    if clos[0] != "closure":
        return None
    cb = f.bodies.get(clos[1])
    if cb is None:
        return None
    ps = sym.SymExec(f, cb).run()
    if len(ps) == 1 and ps[0].ret is not None and ps[0].ret[0] == "enum":
        return ps[0].ret[2]
    return None


def stage_error_map(ctx, f, g, name, tag, depth=0):
    """failing stage -> error variant, read from the Err paths of a constructor"""
    b, paths = g.ok_paths(name)
    out = {}
    for p in paths:
        if p.end != "return" or not (p.ret[0] == "agg" and p.ret[2] == "Err"):
            continue
        ev = dict(p.ret[4])["0"]
        if not p.conds:
            continue
        last = p.conds[-1]
        # which stage / validator failed?
        culprit = None
        variant = None
        for e in p.events:
            if e.kind == "call" and (e.depth == 0 or e.fn.startswith(b.key + "::{closure")) and e.ret is not None and sym.contains(last[0], lambda x: x == e.ret):
                if g.is_stage(e.name) or g.validator_role(e.name) is not None:
                    culprit = e
        inline_role = None
        if culprit is None and depth == 0:
            # a clock field parsed in the constructor's own body
            inl = g.inline_stages(name)
            for e in p.events:
                if e.kind == "call" and e.depth == 0 and (e.fn, e.bb) in inl and e.ret is not None and sym.contains(last[0], lambda x: x == e.ret):
                    inline_role = inl[(e.fn, e.bb)]
            if inline_role is None:
                # ... or stored and then range-tested in place
                for e in p.events:
                    if e.kind == "assign" and e.depth == 0 and e.args[0][0] not in ("int", "bbconst") and sym.contains(last[0], lambda x: x == e.args[0]):
                        if e.name == g.fld["halfmove_clock"]:
                            inline_role = "half"
                        elif e.name == g.fld["fullmove_number"]:
                            inline_role = "full"
        if ev[0] == "enum":
            variant = ev[2]
        elif ev[0] == "errconv" and ev[1][0] == "enum" and b.locals[0]["ty"].endswith(", %s>" % ev[1][1]):
            variant = ev[1][2]         # `?` on a Result that already carries the constructor's own error type
        elif ev[0] == "errconv":
            inner = ev[1]
            me = sym.subterms(inner, lambda x: x[0] == "call" and x[1].endswith("::map_err"))
            if me:
                variant = closure_const(f, me[0][2][1])
        if culprit is not None and variant is None and g.is_stage(culprit.name) and depth < 2:
            # the stage reports the constructor's error type itself: read the mapping inside it
            sb, sub = stage_error_map(ctx, f, g, culprit.name, tag, depth + 1)
            for k_, v_ in sub.items():
                out.setdefault(k_, set()).update(v_)
            continue
        if culprit is None and inline_role is not None:
            out.setdefault(("<the %s-move field read in place>" % inline_role, inline_role), set()).add(variant)
        if culprit is not None:
            role = None
            if g.is_stage(culprit.name):
                roles = g.stage_roles(culprit.name)
                role = "board" if "board" in roles else (sorted(roles)[0] if roles else None)
            else:
                role = g.validator_role(culprit.name)
            out.setdefault((culprit.name.rsplit("::", 1)[-1], role), set()).add(variant)
    return b, out


def run(ctx):
    ctx.explanation = __doc__
    f = ctx.facts("A")
    g = gatemod.Gate(ctx, f)
    L = g.L
    # build() answers every builder state with Ok or Err: a state the parser rejects with an error (an out-of-range
    # clock, say) must be rejected with an error here too, not with a panic (a setter that asserts its argument in
    # front of the validity test turns "the build error names that aspect" into an abort)
    ctx.rule("build-total.panic-audit")
    from .. import panics
    BUILD_PANIC_TABLE = {
        ("Board::king", "expect", "bitboard::BitBoard::next_square"): "called only after board validation established one king per colour (gate order, C06)",
        ("rank::Rank::index_const", "panic", "panic_fmt"): "documented panicking constructor; callers proved in range",
        ("square::Square::index_const", "panic", "panic_fmt"): "documented panicking constructor; callers proved in range",
        ("file::File::index_const", "panic", "panic_fmt"): "documented panicking constructor; callers proved in range",
        ("get_bishop_moves", "assert", "BoundsCheck"): "C05 in-bounds audit",
        ("get_rook_moves", "assert", "BoundsCheck"): "C05 in-bounds audit",
        ("pext::get_pext_index", "assert", "Overflow:Add(usize)"):
            "PEXT back end: C05 evaluates offset + pext(occupancy, mask) for every square and relevant subset and finds it inside the table",
    }
    a_ = panics.Audit(f).run([BUILDER + "::build"])
    n_ = panics.report(ctx, a_, BUILD_PANIC_TABLE, "panic")
    ctx.floor("panic sites audited", n_, 20)
    ctx.rule("same-gate")
    vp = g.check_gate(ctx, B + "::from_fen", "parser")
    vb = g.check_gate(ctx, BUILDER + "::build", "builder")
    ctx.check(vp == vb == set(gatemod.ROLES), "validated-role-sets-equal",
              "parser validates %s, builder validates %s: the two constructors do not apply the same gate (difference: %s)"
              % (sorted(vp), sorted(vb), sorted(vp ^ vb)), sample={"parser": sorted(vp), "builder": sorted(vb)})
    # same validator functions
    def validators_called(name):
        out = set()
        from .common import reachable_bodies
        from ..facts import callee_name
        for k in reachable_bodies(f, [name], stop=lambda n: g.validator_role(n) is not None):
            from .common import local_callees
            for cn in sorted(local_callees(f, f.bodies[k])):
                if g.validator_role(cn) is not None:
                    out.add(cn)
        return out
    a, b_ = validators_called(B + "::from_fen"), validators_called(BUILDER + "::build")
    # a clock may also be validated by a range test on the stored value (the gate rule above established it for both
    # constructors): the functions need to coincide only where a function is what validates
    for r_, (lo_, hi_, ty_) in gatemod.CLOCK_RANGE.items():
        if r_ in vp and r_ in vb:
            a = {x for x in a if g.validator_role(x) != r_}
            b_ = {x for x in b_ if g.validator_role(x) != r_}
    ctx.check(a == b_, "same-validator-functions", "the constructors call different validator functions: only parser %s, only builder %s"
              % (sorted(x.rsplit("::", 1)[-1] for x in a - b_), sorted(x.rsplit("::", 1)[-1] for x in b_ - a)),
              sample={"validators": sorted(x.rsplit("::", 1)[-1] for x in a)})
    ctx.rule("error-mapping")
    bb, emap = stage_error_map(ctx, f, g, BUILDER + "::build", "builder")
    n = 0
    for (stage, role), variants in sorted(emap.items()):
        want = ERR_OF_ROLE.get(role)
        n += 1
        ctx.check(variants == {want}, "builder-error:%s" % stage, "a failure of %s (role %s) is reported as %s, expected %s" % (stage, role, sorted(map(str, variants)), want),
                  loc(bb), sample={"stage": stage, "role": role, "error": want})
    covered = {("board" if role in ("board", "derived") else role) for (stage, role) in emap}
    ctx.floor("aspects of a builder state with an attributed failure", len(covered & {"board", "castling", "ep", "half", "full"}), 5)
    # ---- the builder installs each colour's rights slot by slot
    ctx.rule("builder-rights-slotwise")
    from .common import reachable_bodies
    from .c06 import norm_each
    EC0 = ("each", COLOR)
    rights_writers = [w for w, r in g.wrole.items() if r == "castling"]
    users = [k for k in reachable_bodies(f, [BUILDER + "::build"]) if k.startswith(BUILDER + "::")
             and any(facts_callee(t_) in rights_writers for _, t_ in f.bodies[k].calls())]
    # a helper that only does the writing for a stage is read as part of that stage (its values are its caller's)
    reach_ = [k for k in reachable_bodies(f, [BUILDER + "::build"]) if k.startswith(BUILDER + "::")]
    from .common import local_callees
    callers_ = {}
    for k in reach_:
        for cn in local_callees(f, f.bodies[k]):
            callers_.setdefault(cn, set()).add(k)
    for _ in range(3):
        lifted_ = []
        for k in users:
            cs = callers_.get(k, set()) - {k}
            if cs and BUILDER + "::build" not in cs and not cfgmod.natural_loops(f.bodies[k]):
                lifted_ += sorted(cs)
            else:
                lifted_.append(k)
        users = sorted(set(lifted_))
    nslot = 0
    for k in users:
        ub = f.bodies[k]
        bname = ub.local_name(1)
        ps_ = sym.SymExec(f, ub, inline=lambda n: False if n in g.W or g.validator_role(n) is not None else None).run()
        per_colour = set()
        for p in ps_:
            calls_ = []
            for e in p.events:
                if e.kind == "call" and e.name in rights_writers:
                    c_, w_, v_ = (norm_each(L.lift(a), f.adts) for a in e.args[1:4])
                    calls_.append((c_, w_, v_))
            if not calls_:
                continue
            # the value stored under wing w of colour c is the builder's own (c, w) entry: rights[c].short / .long
            okp = True
            for c_, w_, v_ in calls_:
                wing = "short" if w_ == sym.TRUE else ("long" if w_ == sym.FALSE else None)
                src = v_
                okv = wing is not None and src[0] == "field" and src[2] == wing
                if okv:
                    ent = src[1]
                    # builder.castle_rights[c as usize]   (the lifter shows the colour-indexed table as a getter application)
                    okv = (ent[0] == "get" and ent[1] == "castle_rights" and ent[-1] == c_ and sym.contains(ent[2], lambda y: y == ("obj", bname))) or \
                        (ent[0] == "index" and ent[2] == ("cast", "usize", ("discr", c_)) and sym.contains(ent[1], lambda y: y == ("obj", bname)))
                okp = okp and okv
                if okv:
                    per_colour.add((repr(c_), wing))
            nslot += len(calls_)
            ctx.check(okp, "rights:slot-from-same-slot:%s" % k.rsplit("::", 1)[-1],
                      "the builder does not install colour c's short/long right from its own (c, short)/(c, long) entry: %s"
                      % [(sym.show(c_)[:30], sym.show(w_), sym.show(v_)[:80]) for c_, w_, v_ in calls_], loc(ub),
                      sample={"builder": "set_castle_right(c, true, rights[c].short); set_castle_right(c, false, rights[c].long)"} if nslot <= 2 else None)
        both = {w for c_, w in per_colour if c_ == repr(EC0)} == {"short", "long"} or \
            {(c_, w) for c_, w in per_colour} >= {(repr(("enum", COLOR, n_)), w) for n_ in ("White", "Black") for w in ("short", "long")}
        ctx.check(both, "rights:both-wings-all-colours:%s" % k.rsplit("::", 1)[-1],
                  "the builder does not install both wings for every colour (%s)" % sorted(per_colour), loc(ub))
    ctx.floor("castle-right installations in the builder", nslot, 2)
    ctx.rule("ep-rank-guard")
    # decided as a function: for which (side to move, rank of the given square) does the stage store the square's file?
    # Both constructors must store it exactly for (White, 6th) and (Black, 3rd) -- the rank is not kept, so any other
    # accepted pair is read back as a different square.  Conditions about anything else (the text parses, the validator
    # agrees) are left open.
    from ..evalx import enum_index

    class _Open(Exception):
        pass

    def ev_sr(e, stm, r):
        k = e[0]
        if k == "get" and e[1] == "side_to_move":
            return stm
        if k == "rank" and len(e) == 2 and isinstance(e[1], tuple):
            return r
        if k == "relrank":
            return e[1] if ev_sr(e[2], stm, r) == 0 else 7 - e[1]
        if k in ("discr", "deref", "ref"):
            return ev_sr(e[1], stm, r)
        if k == "enum":
            return enum_index(e)
        if k == "int":
            return e[1]
        if k == "bin" and e[1] in ("Eq", "Ne", "Lt", "Le", "Gt", "Ge"):
            a, b = ev_sr(e[2], stm, r), ev_sr(e[3], stm, r)
            return int({"Eq": a == b, "Ne": a != b, "Lt": a < b, "Le": a <= b, "Gt": a > b, "Ge": a >= b}[e[1]])
        if k == "not":
            return 1 - ev_sr(e[1], stm, r)
        raise _Open()

    def holds(c, stm, r):
        try:
            v = ev_sr(L.lift(c[0]), stm, r)
        except _Open:
            return True
        return v == c[1] if isinstance(c[1], int) else v not in c[1][1]
    guards = {}
    for name, tag in ((g.stage_for(BUILDER + "::build", "ep"), "builder"), (g.stage_for(B + "::from_fen", "ep"), "parser")):
        b0 = f.need(name)
        ps = sym.SymExec(f, b0, inline=lambda n: False if (g.validator_role(n) is not None or n in g.W) else None).run()
        storing = [p for p in ps if any(e.kind == "call" and g.wrole.get(e.name) == "ep" and e.args[1][0] == "agg" and e.args[1][2] == "Some" for e in p.events)]
        guards[tag] = {(("White", "Black")[stm], r + 1) for stm in (0, 1) for r in range(8) if any(all(holds(c, stm, r) for c in p.conds) for p in storing)}
    CANON = {("White", 6), ("Black", 3)}
    ctx.check(guards["builder"] == guards["parser"] == CANON, "ep-rank-guard-agrees",
              "the en-passant square is stored for (side to move, rank) in %s by the builder and %s by the parser; expected %s in both"
              % (sorted(guards["builder"]), sorted(guards["parser"]), sorted(CANON)), sample={"stored for": sorted(CANON)})
    # a stage may refuse its field for what the field says (text that does not parse, a value out of range), for what
    # its validator says, and -- like the en-passant rank above -- for how the field sits with another part of the
    # position.  Refusals of the last kind must exist on both sides alike: a parser stage that also looks at another
    # field (say: "no en-passant square with a running half-move clock") rejects records whose builder states build.
    ctx.rule("cross-field-refusals-agree")
    OWN = {"castling": {"castle_rights"}, "ep": {"en_passant"}, "half": {"halfmove_clock"}, "full": {"fullmove_number"},
           "placement": {"colors", "pieces", "side_to_move", "occupied", "piece_on", "color_on", "king", "colored_pieces"},
           "side": {"side_to_move", "colors", "pieces"}}
    ncmp = 0
    for kind in ("ep", "half", "full"):          # (the castling stage of the parser consults the king to pick the wing: not a refusal)
        sides = {}
        for ctor, tag in ((BUILDER + "::build", "builder"), (B + "::from_fen", "parser")):
            try:
                name = g.stage_for(ctor, kind)
            except Exception:
                sides = None
                break          # the field is filled in the constructor's own body: not read by this rule
            b0 = f.need(name)
            ps0 = sym.SymExec(f, b0, inline=lambda n: False if g.validator_role(n) is not None else None).run()
            found = set()
            for p0 in ps0:
                if not (g.path_fails(name, p0) and p0.conds):
                    continue
                # the decisions the refusal rests on: those taken after the last call or assignment of the path (one
                # compound condition, `a && b`, is a run of decisions with nothing in between)
                # (only events with an effect on the board count: a writer or a validator; getters, `?` plumbing and the
                # markers of inlined helpers do not separate decisions)
                k0 = max([e_.ncond for e_ in p0.events if e_.kind in ("call", "inlined") and
                          (e_.name in g.W or g.wrole.get(e_.name) is not None or g.validator_role(e_.name) is not None)] + [0])
                trail = p0.conds[k0:] or p0.conds[-1:]
                reads = set()
                skip = False
                for c0 in trail:
                    e0 = L.lift(c0[0])
                    if sym.contains(e0, lambda y: y[0] == "call" and g.validator_role(y[1]) is not None):
                        skip = True
                    for t0 in sym.subterms(e0, lambda y: y[0] in ("get", "king", "piece_on", "color_on") and isinstance(y[1] if y[0] == "get" else y[0], str)):
                        reads.add(t0[1] if t0[0] == "get" else t0[0])
                if skip:
                    continue
                reads -= OWN.get(kind, set())
                if reads:
                    found.add(tuple(sorted(reads)))
            sides[tag] = found
        if sides is None:
            continue
        ncmp += 1
        ctx.check(sides["builder"] == sides["parser"], "cross-field-refusals-agree:%s" % kind,
                  "the %s stage refuses its field for how it sits with other parts of the position in one constructor only: parser looks at %s, builder at %s"
                  % (kind, sorted(sides["parser"]), sorted(sides["builder"])), sample={"field": kind, "looks at": sorted(sides["parser"])})
    ctx.floor("fields compared for cross-field refusals", ncmp, 1)
    ctx.rule("from_board-total")
    fb = f.need(BUILDER + "::from_board")
    ps = sym.SymExec(f, fb).run()
    adt = f.adts[BUILDER]
    fields = [fl["name"] for fl in adt["variants"][0]["fields"]]
    board = ("obj", "board")
    assigned = {}
    for p in ps:
        st = p.ret if p.end == "return" else None
        if st is None:
            for root, v in p.store.items():
                if root[0] == "L" and root[1] == 0 and fb.local_name(root[2]) == "this":
                    st = v
        v = st
        while isinstance(v, tuple) and v and v[0] == "with":
            if v[2][0] == "f":
                assigned.setdefault(v[2][1], []).append(norm_each(L.lift(v[3]), f.adts))
            v = v[1]
        if isinstance(v, tuple) and v and v[0] == "agg":
            # the builder value as a whole (fields havocked one by one inside the loops)
            for n_, x_ in v[4]:
                if not (isinstance(x_, tuple) and x_ and x_[0] == "hv"):
                    assigned.setdefault(n_, []).append(norm_each(L.lift(x_), f.adts))
    ok_all = set(fields) <= set(assigned)
    ctx.check(ok_all, "from_board:assigns-every-field", "from_board leaves builder fields unassigned: %s" % sorted(set(fields) - set(assigned)), loc(fb),
              sample={"fields": fields})

    def has_value(field, pred):
        return any(pred(x) for x in assigned.get(field, []))
    ctx.check(has_value("side_to_move", lambda x: x == ("get", "side_to_move", board)), "from_board:side", "side to move is not copied from the board", loc(fb))
    ctx.check(has_value("halfmove_clock", lambda x: x == ("get", "halfmove_clock", board)), "from_board:halfmove", "half-move clock is not copied from the board", loc(fb))
    ctx.check(has_value("fullmove_number", lambda x: x == ("get", "fullmove_number", board)), "from_board:fullmove", "full-move number is not copied from the board", loc(fb))

    # en passant: per path, None stays None and Some(file) becomes the square (file, 3rd rank relative to the side
    # that just moved) == (file, relrank(5, side to move)); `opt.map(..)` and a hand-written match read the same
    EPB = ("get", "en_passant", board)
    want_some = ("sq", ("field", ("downcast", EPB, "Some"), "0"), ("relrank", 5, ("get", "side_to_move", board)))
    ep_paths = 0
    ep_good = True
    for p in ps:
        st = p.ret if p.end == "return" else None
        if st is None:
            continue
        dv = None
        for c in p.conds:
            if L.lift(c[0]) == ("discr", EPB) and isinstance(c[1], int):
                dv = c[1]
        v = st
        val = None
        while isinstance(v, tuple) and v and v[0] == "with":
            if v[2] == ("f", "en_passant") and val is None:
                val = L.lift(v[3])
            v = v[1]
        if val is None and isinstance(v, tuple) and v and v[0] == "agg":
            val = L.lift(dict(v[4]).get("en_passant")) if dict(v[4]).get("en_passant") is not None else None
        ep_paths += 1
        if dv == 1:
            okp = val is not None and val[0] == "agg" and val[2] == "Some" and dict(val[4]).get("0") == want_some
        elif dv == 0:
            okp = val is not None and val[0] == "agg" and val[2] == "None"
        else:
            okp = val == EPB and False
        ep_good = ep_good and okp
    ctx.check(ep_good and ep_paths >= 2, "from_board:en-passant-canonical-rank",
              "the en-passant square is not (file, 3rd rank relative to the side that just moved) of the board", loc(fb), sample={"ep": "file -> Square::new(file, Third.relative_to(!stm))"})
    EC, EP_ = ("each", COLOR), ("each", PIECE)

    def rights_ok(x):
        if x[0] == "array":
            # written out colour by colour: element k is the rights of the colour with index k
            cols = [v_["name"] for v_ in f.adts[COLOR]["variants"]]
            return len(x[1]) == len(cols) and all(el == ("get", "castle_rights", board, ("enum", COLOR, c_)) for el, c_ in zip(x[1], cols))
        return x[0] == "with" and x[2][0] == "i" and x[3] == ("get", "castle_rights", board, EC) and x[2][1] == ("cast", "usize", ("discr", EC))
    ctx.check(has_value("castle_rights", rights_ok), "from_board:rights-per-colour", "castle rights are not copied per colour from the board", loc(fb))

    def squares_ok(x):
        if not (x[0] == "with" and x[2][0] == "i"):
            return False
        idx, val = x[2][1], x[3]
        want_set = ("and", ("get", "colors", board, EC), ("get", "pieces", board, EP_))
        el = sym.subterms(idx, lambda y: y[0] == "elem")
        if not el or not setalg.equivalent(el[0][1], want_set):
            return False
        return val[0] == "agg" and val[2] == "Some" and dict(val[4])["0"] == ("tuple", (EP_, EC))
    ctx.check(has_value("board", squares_ok), "from_board:squares", "squares are not filled with (piece, colour) for every square of colours(c) & pieces(p), all colours x all kinds", loc(fb),
              sample={"squares": "for c, p: for sq in colors(c)&pieces(p): board[sq] = Some((p, c))"})
    ctx.rule("build-reads-every-field")
    acc = transitive_field_access(f, [BUILDER + "::build"], kinds=("read", "ref"))
    read = {fl for (adt_, fl) in acc if adt_ == BUILDER}
    ctx.check(set(fields) <= read, "build:reads-all", "build ignores builder fields %s" % sorted(set(fields) - read), sample={"read": sorted(read)})
    # "states no record can express (a castling right on the wrong side of the king) are rejected", and "building succeeds
    # exactly when the record parses", rest on what the shared validators test: C06 owns that equivalence rule; re-run here
    from . import c06
    expl_ = ctx.explanation
    c06.check_validators(ctx, f, L, g)
    ctx.explanation = expl_
    ctx.assumptions += ["equality of the built and the parsed board additionally needs C03/C10"]
