"""C12 game status reflects checkmate, stalemate and the fifty-move rule.

Decided: the decision table of `status()` is extracted by enumerating all its paths over three
atoms -- has-move (the result of generate_moves with a listener whose body is the constant
true), clock < 100 (a comparison of the half-move clock with 100, normalised) and in-check
(emptiness of the checker set) -- and compared as a Boolean function with the table in the
property text (checkmate has priority over the fifty-move draw).  The meaning of has-move
rests on the abort contract (a listener returning true makes generation return true iff it
was called at all, and it is called only with non-empty batches), which is re-checked here on
all generator paths because breaking it breaks this property.  Relative to C01 for the legal
move set itself."""
from .. import sym, lift
from . import movegen
from .common import B, loc

GS = "cozy_chess::board::GameStatus"


def run(ctx):
    ctx.explanation = __doc__
    f = ctx.facts("A")
    L = lift.Lifter(f)
    ctx.rule("status.decision-table")
    body = f.need(B + "::status")
    paths = sym.SymExec(f, body, inline=lambda n: False if n in (B + "::generate_moves", B + "::generate_moves_for") else None).run()
    ctx.saw("%s: %d paths" % (body.key, len(paths)))
    rows = {}
    clock = ("get", "halfmove_clock", movegen.SELF)
    for p in paths:
        if p.end != "return" or p.ret is None or p.ret[0] != "enum" or p.ret[1] != GS:
            ctx.fail("status:path", "status() has a path that does not return a GameStatus constant (%s)" % p.end, loc(body))
            continue
        has_move = None
        lt100 = None
        in_check = None
        clock_conds = []
        for c in p.conds:
            e = L.lift(c[0])
            v = c[1]
            if e[0] == "call" and e[1] in (B + "::generate_moves", B + "::generate_moves_for"):
                # listener: a closure whose body returns true unconditionally
                clos = e[2][-1]
                okc = False
                if clos[0] == "closure":
                    cb = f.bodies.get(clos[1])
                    if cb is not None:
                        cps = sym.SymExec(f, cb).run()
                        okc = len(cps) == 1 and cps[0].ret == sym.TRUE
                okm = e[1].endswith("generate_moves") or e[2][1] == ("bbconst", (1 << 64) - 1)
                ctx.check(okc and okm, "status:listener-constant-true",
                          "has-move is not computed as generate_moves(|_| true) over all pieces", loc(body))
                has_move = bool(v)
                continue
            if e[0] == "bin" and (e[2] == clock or e[3] == clock) and (e[2][0] == "int" or e[3][0] == "int"):
                clock_conds.append((e, v))
                continue
            kind, val = classify_check(e, v)
            if kind == "in_check":
                in_check = val
                continue
            ctx.fail("status:unknown-atom", "status() branches on something that is not has-move, the half-move clock vs 100, or the checker set: %s"
                     % sym.show(e)[:160], loc(body))
        if clock_conds:
            # what the comparisons leave of 0..=255: below 100, from 100 up, or undecided
            from ..ranges import Ranger
            rg = Ranger(f, {clock: "u8"})
            bd = rg.bounds(clock, clock_conds)
            if bd is not None and bd[0] > bd[1]:
                continue            # no u8 value satisfies the comparisons: not a path
            if bd is not None and bd[1] <= 99:
                lt100 = True
            elif bd is not None and bd[0] >= 100:
                lt100 = False
            else:
                ctx.fail("status:clock-threshold", "status() compares the half-move clock with something other than the 100 threshold (values left: %s)" % (bd,), loc(body))
        rows[(has_move, lt100, in_check)] = p.ret[2]
    # expand don't-cares and compare with the specification
    bad = []
    for hm in (False, True):
        for lt in (False, True):
            for ic in (False, True):
                want = ("Ongoing" if lt else "Drawn") if hm else ("Won" if ic else "Drawn")
                got = None
                for (a, b, c), r in rows.items():
                    if (a is None or a == hm) and (b is None or b == lt) and (c is None or c == ic):
                        got = r if got is None or got == r else "ambiguous"
                ok = got == want
                ctx.check(ok, "status:row:has_move=%s,clock<100=%s,in_check=%s" % (hm, lt, ic),
                          "status with has_move=%s, clock<100=%s, in_check=%s is %s, the rules say %s" % (hm, lt, ic, got, want),
                          loc(body), sample={"has_move": hm, "clock_lt_100": lt, "in_check": ic, "status": got})
    ctx.rule("has-move.abort-contract")
    n = movegen.check_abort_contract(ctx, f, L)
    ctx.floor("listener call path-sites", n, 40)
    movegen.check_roster(ctx, f, L)
    movegen.check_dispatch(ctx, f, L)
    ctx.rule("has-move.nonempty-batches")
    movegen.check_generators(ctx, f, L)
    movegen.check_king_generator(ctx, f, L)
    # halfmove_clock getter is the field (through lifting) -- and the in-check atom reads the checkers getter
    # has-move is exact only if the generators deliver exactly the legal moves: C01's generator specification (with the
    # play/track rules it stands on) is re-run here
    from . import c01
    expl_ = ctx.explanation
    c01.run(ctx)
    ctx.explanation = expl_
    ctx.assumptions.append("has-move is exact relative to C01 (re-run above) and C03 (checkers field, inside C01)")


def classify_clock(e, v, clock):
    """normalise comparisons of the clock with a constant into clock < 100"""
    if e[0] != "bin" or not isinstance(v, int):
        return None, None
    op, a, b = e[1], e[2], e[3]
    if a == clock and b[0] == "int":
        k = b[1]
    elif b == clock and a[0] == "int":
        k = a[1]
        op = {"Lt": "Gt", "Gt": "Lt", "Le": "Ge", "Ge": "Le"}.get(op, op)
    else:
        return None, None
    truth = bool(v)
    # op(clock, k)
    if op == "Lt" and k == 100:
        return "lt100", truth
    if op == "Le" and k == 99:
        return "lt100", truth
    if op == "Ge" and k == 100:
        return "lt100", not truth
    if op == "Gt" and k == 99:
        return "lt100", not truth
    return "other", None


def classify_check(e, v):
    ch = movegen.CHECKERS
    if e == ("isempty", ch) and isinstance(v, int):
        return "in_check", not bool(v)
    if e[0] == "bin" and e[2] == ("len", ch) and e[3][0] == "int" and isinstance(v, int):
        op, k = e[1], e[3][1]
        t = bool(v)
        if (op, k) in (("Eq", 0), ("Lt", 1), ("Le", 0)):
            return "in_check", not t
        if (op, k) in (("Ne", 0), ("Gt", 0), ("Ge", 1)):
            return "in_check", t
    return None, None
