"""C08 the FEN parser is total, strict about structure, and names the bad field.

Decided:
 * totality -- panic audit of everything reachable from from_fen / Board::from_str (asserts and
   panicking calls discharged by intervals or named invariants) and a total-callee rule: parser
   code calls only core functions from a list of total functions (no indexing, slicing, unwrap);
 * exactly six fields -- the field source is split(' ') of the whole input; each of the six stages
   consumes the result of one pull whose None maps to MissingField; after the sixth stage a further
   Some maps to TooManyFields; Ok only after that test;
 * non-empty fields -- every Ok path of every stage parser has a witness that the field is
   non-empty: a consumed character, equality with a non-empty literal, an explicit emptiness test,
   or delegation to a total parser that rejects the empty string (loops are peeled once so that the
   zero-iteration exit is analysed with exact values);
 * count exactness -- the placement parser's Ok paths compare a per-row counter with 8 and a
   per-board row counter with 8 (an upper guard alone would accept short boards);
 * error attribution -- the variant returned when a stage or validator fails equals the role's
   variant (placement/side-validation/derived -> InvalidBoard, side parse -> InvalidSideToMove, ...);
 * dual notation -- FromStr tries plain FEN, retries as Shredder-FEN exactly on
   InvalidCastlingRights and passes every other result through.
Not decided: that the board returned is the position the text denotes beyond the table agreement
of C07."""
from .. import sym, lift, panics
from . import gate as gatemod
from .common import B, loc
from .c09 import stage_error_map, closure_const
from .c19 import parser_callees

ERR_OF = {"board": "InvalidBoard", "derived": "InvalidBoard", "castling": "InvalidCastlingRights", "ep": "InvalidEnPassant",
          "half": "InvalidHalfMoveClock", "full": "InvalidFullmoveNumber"}

PANIC_TABLE = {
    ("Board::king", "expect", "bitboard::BitBoard::next_square"): "called only after board validation established one king per colour (gate order, C06)",
    ("rank::Rank::index_const", "panic", "panic_fmt"): "documented panicking constructor; callers proved in range",
    ("square::Square::index_const", "panic", "panic_fmt"): "documented panicking constructor; callers proved in range",
    ("file::File::index_const", "panic", "panic_fmt"): "documented panicking constructor; callers proved in range",
    ("get_bishop_moves", "assert", "BoundsCheck"): "C05 in-bounds audit",
    ("get_rook_moves", "assert", "BoundsCheck"): "C05 in-bounds audit",
    ("pext::get_pext_index", "assert", "Overflow:Add(usize)"):
        "PEXT back end: C05 evaluates offset + pext(occupancy, mask) for every square and relevant subset and finds it inside the table",
    ("<placement-stage>", "assert", "Overflow:Add(usize)"): "file += digit / += 1: each addend is at most 9 and the sum is bounded by the input length, far below usize::MAX (recorded assumption)",
}


def discr_poss(conds, X):
    """what the decisions of a path leave of the discriminant of the two-variant value X"""
    poss = {0, 1}
    d = ("discr", X)
    for c in conds:
        x, v = c[0], c[1]
        if x == d:
            poss &= {v} if isinstance(v, int) else ({0, 1} - set(v[1]))
        elif x[0] == "bin" and x[1] in ("Eq", "Ne") and d in (x[2], x[3]) and isinstance(v, int):
            o = x[3] if x[2] == d else x[2]
            if o[0] == "int":
                poss = poss & {o[1]} if (x[1] == "Eq") == bool(v) else poss - {o[1]}
    return poss


def run(ctx):
    ctx.explanation = __doc__
    f = ctx.facts("A")
    g = gatemod.Gate(ctx, f)
    L = g.L
    FROM_FEN = B + "::from_fen"
    FROM_STR = "<%s as core::str::traits::FromStr>::from_str" % B
    # ------------------------------------------------------------------ totality
    stages = list(g.stages(FROM_FEN))
    # stages a stage delegates part of its field to (e.g. one row of the placement) count as stages too
    work_ = list(stages)
    while work_:
        for s_ in g.stages(work_.pop()):
            if s_ not in stages:
                stages.append(s_)
                work_.append(s_)
    stages = sorted(stages)
    placement_stage = g.stage_for(FROM_FEN, "placement")
    side_stage = g.stage_for(FROM_FEN, "side")
    # the table key of the placement stage's column counter follows the stage's current name
    table = dict(PANIC_TABLE)
    why_ = table.pop(("<placement-stage>", "assert", "Overflow:Add(usize)"))
    for s_ in stages:
        if "placement" in g.stage_kind(s_):
            # (the counter lives in the placement stage or in the helper it hands each row to)
            table[("Board::%s*" % s_.rsplit("::", 1)[-1], "assert", "Overflow:Add(usize)")] = why_
    ctx.rule("totality.panic-audit")
    a = panics.Audit(f).run([FROM_FEN, FROM_STR], skip=lambda k: "movegen" in k and False)
    n = panics.report(ctx, a, table, "panic")
    ctx.floor("panic sites audited", n, 20)
    ctx.rule("totality.total-callees")
    n = parser_callees(ctx, f, [FROM_FEN, FROM_STR] + stages, "fen", only_files=("board/parse.rs",))
    ctx.floor("core callees of the FEN parser", n, 15)
    # ------------------------------------------------------------------ six fields
    ctx.rule("six-fields")
    b, paths = g.ok_paths(FROM_FEN)
    where = loc(b)
    oks = [p for p in paths if p.end == "return" and p.ret[0] == "agg" and p.ret[2] == "Ok"]
    # a pull is a next() on the iterator over the space-separated parts, made directly or inside an inlined helper
    def is_pull(e):
        return e.kind == "call" and e.name.endswith("Iterator>::next") and "::Split<" in e.name
    MISSING = ("enum", "cozy_chess::board::parse::FenParseError", "MissingField")
    # a missing k-th field (k-th pull yields nothing) is reported as MissingField before any further stage runs
    missing_at = set()
    for p in paths:
        if not (p.end == "return" and p.ret[0] == "agg" and p.ret[2] == "Err" and sym.contains(p.ret, lambda x: x == MISSING)):
            continue
        pl = [e for e in p.events if is_pull(e)]
        if not pl:
            continue
        later = [e for e in p.events if e.kind == "call" and e.idx > pl[-1].idx and (g.is_stage(e.name) or g.validator_role(e.name) is not None)]
        if not later:
            missing_at.add(len(pl) - 1)
    ctx.check(missing_at >= set(range(6)), "pull:missing-field",
              "not every one of the six field pulls reports MissingField when the input has run out (reported for pulls %s)" % sorted(missing_at), where,
              sample={"pull": "parts.next().ok_or(MissingField)"})
    inline = g.inline_stages(FROM_FEN)

    def takes_text(n_):
        # a stage that reads a field of the record (a stage without a text parameter only completes the board)
        sb_ = f.bodies[n_]
        return any(sb_.locals[i_]["ty"] == "&str" for i_ in range(1, sb_.argc + 1))
    for p in oks:
        evs = [e for e in p.events if e.kind == "call" and e.depth == 0]
        split = [e for e in evs if e.name == "str::split"]
        oksp = len(split) == 1 and split[0].args[0] == ("ptr", ("P", "fen"), (), False) and split[0].args[1] == ("int", 32, "char")
        ctx.check(oksp, "fields:split-on-space", "fields are not obtained by splitting the whole input on single spaces", where, sample={"split": "fen.split(' ')"})
        seq = []
        for e in p.events:
            if is_pull(e):
                seq.append(("pull", e))
            elif e.kind == "call" and e.depth == 0 and ((g.is_stage(e.name) and takes_text(e.name)) or (e.fn, e.bb) in inline):
                seq.append(("stage", e))
        # each stage's text argument is the payload of the pull immediately before it
        nst = 0
        okorder = True
        last_pull = None
        npull = 0
        for kind, e in seq:
            if kind == "pull":
                last_pull = e
                npull += 1
            else:
                nst += 1
                if last_pull is None or not any(sym.contains(arg, lambda x: x == last_pull.ret) for arg in e.args):
                    okorder = False
                if (e.fn, e.bb) in inline:
                    # a field read in place: the whole field goes to a core parser that rejects the empty string, and Ok needs its Ok
                    whole = e.args[0]
                    while whole[0] in ("ref", "deref"):
                        whole = whole[1]
                    okin = last_pull is not None and whole == ("field", ("downcast", last_pull.ret, "Some"), "0")
                    poss = {0, 1}
                    for c in p.conds:
                        if c[0] == ("discr", e.ret):
                            poss &= {c[1]} if isinstance(c[1], int) else ({0, 1} - set(c[1][1]))
                    ctx.check(okin and poss == {0}, "fields:read-in-place",
                              "a field read in from_fen's own body is not handed whole to str::parse with Ok required", where,
                              sample={"field": inline[(e.fn, e.bb)]})
                last_pull = None
        # the pull after the sixth stage is the end-of-input test below
        ctx.check(nst == 6 and okorder and npull in (6, 7), "fields:six-pulls-feed-six-stages",
                  "an Ok path does not pull exactly six fields, each feeding the next stage (%d stages, %d pulls)" % (nst, npull), where, sample={"stages": [e.name.rsplit("::", 1)[-1] for k_, e in seq if k_ == "stage"]})
        seq = [x for x in seq if x[0] == "stage"] or seq
        evs = [e for e in p.events if e.kind == "call"]
        # after the last stage: a further next() must be None
        nexts = [e for e in evs if e.name.endswith("Iterator>::next") and e.idx > seq[-1][1].idx] if seq else []
        tested = False
        for e in nexts:
            for c in p.conds:
                if sym.contains(c[0], lambda x: x == e.ret):
                    tested = True
        ctx.check(bool(nexts) and tested, "fields:too-many-tested", "Ok is returned without testing that no seventh field follows", where)
    tm = [p for p in paths if p.end == "return" and p.ret[0] == "agg" and p.ret[2] == "Err" and dict(p.ret[4])["0"] == ("enum", "cozy_chess::board::parse::FenParseError", "TooManyFields")]
    ctx.check(len(tm) >= 1, "fields:too-many-variant", "no path reports TooManyFields", where)
    ctx.floor("from_fen Ok paths", len(oks), 1)
    # ------------------------------------------------------------------ non-empty fields + count exactness
    # the clocks are stored as read: the value a clock stage leaves in the board is the number its text parses to, not a
    # function of it (a clock "capped" on the way in answers for a different record than the one given)
    ctx.rule("clock-fields-stored-as-read")
    nclk = 0
    for kind_, fkey in (("half", "halfmove_clock"), ("full", "fullmove_number")):
        try:
            st_ = g.stage_for(FROM_FEN, kind_)
        except Exception:
            continue                       # filled in from_fen's own body: covered by the gate's range validation of the stored value
        sb_ = f.need(st_)
        tps = [sb_.local_name(i) for i in range(1, sb_.argc + 1) if sb_.locals[i]["ty"] == "&str"]
        bps = [sb_.local_name(i) for i in range(1, sb_.argc + 1) if sb_.locals[i]["ty"] == "&mut " + B]
        if len(tps) != 1 or len(bps) != 1:
            continue
        sp_ = ("ptr", ("P", tps[0]), (), False)
        parsed = ("call", "str::parse", (sp_,))
        want_vals = {("field", ("downcast", parsed, "Ok"), "0"),
                     ("field", ("downcast", ("call", "core::result::Result<T, E>::ok", (parsed,)), "Some"), "0")}
        own_ = g.exclusive_inline(st_) if hasattr(g, "exclusive_inline") else None
        for p_ in sym.SymExec(f, sb_, max_paths=200000).run():
            if not g.path_succeeds(st_, p_)[0]:
                continue
            v_ = p_.store.get(("P", bps[0]))
            val = None
            while isinstance(v_, tuple) and v_ and v_[0] == "with":
                if v_[2] == ("f", g.fld[fkey]) and val is None:
                    val = v_[3]
                v_ = v_[1]
            nclk += 1
            ctx.check(val in want_vals, "clock-stored-as-read:%s" % kind_,
                      "the %s stage leaves %s in the board, which is not the number its text parses to" % (kind_, sym.show(val)[:140] if val else "nothing"), loc(sb_),
                      sample={"stage": st_.rsplit("::", 1)[-1], "stored": "str::parse(text)"} if nclk == 1 else None)
    # the en-passant field is a square, of which the reader keeps the file only: the square's rank has to be the one the
    # side to move implies, or the record is answered with a board for a different text (rule shared with C07)
    ctx.rule("ep-square-stored-as-read")
    from . import c07 as c07_
    try:
        g.stage_for(FROM_FEN, "ep")
        has_ep_stage = True
    except Exception:
        has_ep_stage = False
    if has_ep_stage:
        c07_.check_reader_ep_guard(ctx, f, g, L)
    ctx.rule("non-empty-fields")
    for st in stages:
        sb = f.need(st)
        ps = sym.SymExec(f, sb, peel=True, count_next=True, max_paths=200000).run()
        sname = st.rsplit("::", 1)[-1]
        ctx.saw("%s: %d paths (peeled)" % (sname, len(ps)))
        tparams = [sb.local_name(i) for i in range(1, sb.argc + 1) if sb.locals[i]["ty"] == "&str"]
        if not tparams:
            continue        # completes the board from what was read already: no field of its own
        if len(tparams) != 1:
            ctx.fail("%s:text-parameter" % sname, "stage %s does not take exactly one &str" % sname, loc(sb))
            continue
        sparam = ("ptr", ("P", tparams[0]), (), False)
        nok = 0
        for p in ps:
            if not g.path_succeeds(st, p)[0]:
                continue
            nok += 1
            witness = None
            for c in p.conds:
                e, v = c[0], c[1]
                # explicit emptiness test
                if e[0] == "call" and e[1] in ("str::is_empty", "core::str::<impl str>::is_empty") and e[2][0] == sparam and v == 0:
                    witness = "is_empty == false"
                # equality with a non-empty literal
                if e[0] == "bin" and e[1] in ("Eq", "Ne"):
                    lits = [x for x in sym.subterms(e, lambda y: y[0] == "str")]
                    uses_s = sym.contains(e, lambda y: y == sparam)
                    if lits and uses_s and len(lits[0][1]) > 0 and ((e[1] == "Eq") == bool(v)):
                        witness = "== %r" % lits[0][1]
                # a consumed character of the field (directly, or of a non-empty piece of it)
                if e[0] == "discr" and e[1][0] == "next" and v == 1:
                    src = e[1][1]
                    if sym.contains(src, lambda y: y[0] == "chars"):
                        witness = "character consumed"
                # delegation to a total parser on the whole field
                if sym.contains(e, lambda y: y[0] == "call" and y[1] == "str::parse" and y[2] == (sparam,)):
                    through_ok = sym.contains(e, lambda y: y[0] == "call" and y[1].endswith("Result<T, E>::ok") and y[2][0][0] == "call" and y[2][0][1] == "str::parse")
                    if isinstance(v, int) and ((v == 0 and not through_ok) or (v == 1 and through_ok and e[0] == "discr")):
                        witness = "delegated to str::parse (rejects empty input)"
                # delegation of a piece of the field to a sub-stage that succeeded (the sub-stage is held to this rule itself)
                subs = sym.subterms(e, lambda y: y[0] == "call" and y[1] in stages and y[1] != st)

                def of_field(a_):
                    """the argument is (a piece of) the stage's own text: named directly, or pulled by hand from a split
                    iterator over it that is kept in a local"""
                    if sym.contains(a_, lambda z: z == sparam):
                        return True
                    for pull in sym.subterms(a_, lambda z: z[0] == "call" and z[1].endswith("Iterator>::next") and "Split<" in z[1] and z[2] and z[2][0][0] == "ptr"):
                        # what the local held when it was pulled (through earlier pulls of the same iterator)
                        held = None
                        for ev_ in p.events:
                            if ev_.kind == "call" and ev_.ret == pull:
                                held = (ev_.extra.get("pointees") or {}).get(0)
                        for _ in range(64):
                            if held is None or held[0] != "post" or not (0 <= held[2] < len(p.events)):
                                break
                            held = (p.events[held[2]].extra.get("pointees") or {}).get(held[3])
                        if held is not None and held[0] == "call" and held[1] in ("str::split", "str::rsplit") and held[2][0] == sparam:
                            return True
                    return False
                if subs and isinstance(v, int) and v == 0 and any(of_field(a_) for a_ in subs[0][2]):
                    witness = "delegated a piece of the field to %s" % subs[0][1].rsplit("::", 1)[-1]
            if witness is None:
                # the same delegation, however the result's variant was tested (`match`, `== 0`, `.ok()?`, ...)
                pt = ("call", "str::parse", (sparam,))
                for X, good in ((pt, 0), (("call", "core::result::Result<T, E>::ok", (pt,)), 1)):
                    if discr_poss(p.conds, X) == {good}:
                        witness = "delegated to str::parse (rejects empty input)"
            ctx.check(witness is not None, "%s:non-empty" % sname,
                      "%s can return Ok on a path with no evidence that its field is non-empty (an empty field would be accepted)" % sname, loc(sb),
                      sample={"stage": sname, "witness": witness} if nok == 1 else None)
        ctx.floor("%s Ok paths" % sname, nok, 1)
        if st == placement_stage:
            ctx.rule("count-exactness")
            okp = [p for p in ps if g.path_succeeds(st, p)[0]]

            def guards8(path):
                out = []
                for c in path.conds:
                    e, v = c[0], c[1]
                    if e[0] == "bin" and e[1] in ("Eq", "Ne") and ("int", 8, "usize") in (e[2], e[3]) and ((e[1] == "Eq") == bool(v)):
                        out.append(e[3] if e[2] == ("int", 8, "usize") else e[2])
                return out
            # sub-stages the placement stage delegates rows to: their own accepting paths contribute their guards
            sub_guards = 0
            for s2 in stages:
                if s2 == st or not any(e_.kind == "call" and e_.name == s2 for p_ in okp for e_ in p_.events):
                    continue
                sp2 = sym.SymExec(f, f.need(s2), peel=True, count_next=True, max_paths=200000).run()
                oks2 = [p_ for p_ in sp2 if g.path_succeeds(s2, p_)[0]]
                if oks2:
                    sub_guards += min(len(guards8(p_)) for p_ in oks2)
            # the rows counted against a constant list of eight: a loop over a constant array of exactly 8 elements that
            # pulls one row (required to be there) per iteration from a split iterator nothing else touches, and after
            # the loop requires that iterator to be exhausted -- exactly 8 rows
            lock = 0
            ps_plain = sym.SymExec(f, sb, max_paths=200000).run()
            for p_ in ps_plain:
                if not g.path_succeeds(st, p_)[0]:
                    continue
                for (fid_, hdr_), snap_ in p_.pre_loop.items():
                    if fid_ != 0:
                        continue
                    arrs = [v_ for (nm_, pth_), v_ in snap_.items() if nm_ != "_fn" and v_ is not None and v_[0] == "iter"]
                    n8 = False
                    for v_ in arrs:
                        a_ = v_[1]
                        while a_[0] in ("ref", "iter"):
                            a_ = a_[1]
                        n8 = n8 or (a_[0] == "array" and len(a_[1]) == 8)
                    rows = [nm_ for (nm_, pth_), v_ in snap_.items() if nm_ != "_fn" and not pth_ and v_ is not None and v_[0] == "call" and v_[1] in ("str::split", "str::rsplit") and v_[2][0] == sparam]
                    if not n8 or len(rows) != 1:
                        continue
                    li_ = [i_ for i_ in range(len(sb.locals)) if sb.local_name(i_) == rows[0]]

                    def pulls_of(path):
                        return [ev_ for ev_ in path.events if ev_.kind == "call" and ev_.name.endswith("Iterator>::next") and "Split<" in ev_.name and
                                ev_.args and ev_.args[0][0] == "ptr" and ev_.args[0][1] == ("L", 0, li_[0])]

                    def decided(path, ev_):
                        # what the path's decisions leave of `is the pulled row there?` (however it was tested)
                        return sorted(discr_poss(path.conds, ev_.ret))
                    okl = len(li_) == 1
                    for q in ps_plain:
                        if (0, hdr_) not in q.pre_loop:
                            continue
                        pl_ = pulls_of(q)
                        if q.end == "loopback" and q.end_loop == (0, hdr_):
                            okl = okl and len(pl_) == 1 and decided(q, pl_[0]) == [1]
                        elif g.path_succeeds(st, q)[0]:
                            okl = okl and len(pl_) == 1 and decided(q, pl_[0]) == [0]
                    if okl:
                        lock = 1
            for p in okp:
                eq8 = guards8(p) + [("delegated",)] * sub_guards + [("eight rows pulled in step with a constant list of eight, then none left",)] * lock
                if False:
                    pass
                # classify counters by the loop that carries them
                kinds = set()
                for o in eq8:
                    hv = sym.subterms(o, lambda y: y[0] == "hv")
                    for h in hv:
                        kinds.add(h[3])
                    if not hv:
                        kinds.add("exact")
                row_loop = None
                chars_loop = None
                for c in p.conds:
                    if c[0][0] == "discr" and c[0][1][0] == "next":
                        src = c[0][1][1]
                        if sym.contains(src, lambda y: y[0] == "call" and y[1] in ("str::rsplit", "str::split")):
                            row_loop = c[2]
                        elif sym.contains(src, lambda y: y[0] == "chars"):
                            chars_loop = c[2]
                n_guards = len(eq8)
                ctx.check(n_guards >= 2, "parse_board:two-equality-guards",
                          "an accepting path of the placement parser has %d equality guards against 8: both the files per row and the rows per board must be compared with 8 (an upper bound alone accepts short boards)" % n_guards,
                          loc(sb), sample={"guards": [sym.show(o)[:60] for o in eq8]})
            ctx.rule("non-empty-fields")
    # ------------------------------------------------------------------ castling letters never overwrite a right
    ctx.rule("strictness.castling-no-overwrite")
    from .c06 import natom
    cst = [s_ for s_ in stages if "castling" in g.stage_roles(s_)]
    nset = 0
    for st in cst:
        sb = f.need(st)
        ps = sym.SymExec(f, sb, peel=True, count_next=True, inline=lambda n_: False if n_ in g.W else None, max_paths=200000).run()
        for p in ps:
            for e in p.events:
                if e.kind != "call" or not (e.depth == 0 or e.fn.startswith(st + "::{closure")) or g.wrole.get(e.name) != "castling":
                    continue
                colour, wing, val = L.lift(e.args[1]), e.args[2], e.args[3]
                if not (val[0] == "agg" and val[2] == "Some"):
                    continue
                nset += 1
                # which wing on this path?
                w = None
                if wing == sym.TRUE:
                    w = "short"
                elif wing == sym.FALSE:
                    w = "long"
                else:
                    for c in p.conds[:e.ncond]:
                        if c[0] == wing and isinstance(c[1], int):
                            w = "short" if c[1] else "long"
                ok = False
                if w is not None:
                    for c in p.conds[:e.ncond]:
                        a, pol = natom(L.lift(c[0]), c[1])
                        if a[0] == "issome" and pol is False and a[1][0] == "field" and a[1][2] == w and a[1][1][0] == "get" and \
                                a[1][1][1] == "castle_rights" and a[1][1][3] == colour:
                            ok = True
                ctx.check(ok, "castling:set-only-if-unset",
                          "the castling stage sets a right (wing %s) on a path that did not first establish that this colour's right on that wing is unset "
                          "(a second, different letter for the same wing would silently overwrite the first)" % w, loc(sb, e.line),
                          sample={"stage": st.rsplit("::", 1)[-1], "rule": "set_castle_right(c, w, Some(f)) dominated by rights(c).w == None"} if nset == 1 else None)
    ctx.floor("castle-right settings in the castling stage", nset, 2)
    # ------------------------------------------------------------------ error attribution
    ctx.rule("error-attribution")
    bb, emap = stage_error_map(ctx, f, g, FROM_FEN, "parser")
    n = 0
    for (stage, role), variants in sorted(emap.items()):
        want = ERR_OF.get(role)
        if stage == side_stage.rsplit("::", 1)[-1]:
            want = "InvalidSideToMove"
        n += 1
        ctx.check(variants == {want}, "parser-error:%s" % stage, "a failure of %s (role %s) is reported as %s, expected %s" % (stage, role, sorted(map(str, variants)), want),
                  loc(bb), sample={"stage": stage, "error": want})
    # every part of the record has a failure that is attributed (however the stages and validators are cut into functions)
    covered = {("board" if role in ("board", "derived") else role) for (stage, role) in emap}
    ctx.floor("parts of the record with an attributed failure", len(covered & {"board", "castling", "ep", "half", "full"}), 5)
    # ------------------------------------------------------------------ dual notation
    ctx.rule("dual-notation")
    sb = f.need(FROM_STR)
    ps = sym.SymExec(f, sb, inline=lambda n_: False).run()
    first = ("call", FROM_FEN, (("ptr", ("P", "fen"), (), False), sym.FALSE))
    retry = ("call", FROM_FEN, (("ptr", ("P", "fen"), (), False), sym.TRUE))
    adt = f.adts["cozy_chess::board::parse::FenParseError"]
    icr = [v["discr"] for v in adt["variants"] if v["name"] == "InvalidCastlingRights"]
    seen = set()
    for p in ps:
        r = p.ret
        d = dict((c[0], c[1]) for c in p.conds)
        okf = d.get(("discr", first))
        if isinstance(okf, tuple) and okf and okf[0] == "not":
            okf = 0 if 1 in okf[1] else (1 if 0 in okf[1] else None)      # `anything else` arm of a match on the result
        errv = d.get(("discr", ("field", ("downcast", first, "Err"), "0")))
        if okf == 0 or (okf is None and d.get(("discr", first)) is None and r == first and False):
            seen.add("ok")
            ctx.check(r == first or (r[0] == "agg" and r[2] == "Ok" and dict(r[4])["0"] == ("field", ("downcast", first, "Ok"), "0")), "from_str:ok-passthrough",
                      "a plain-FEN success is not returned as is", loc(sb))
        elif okf == 1 and isinstance(errv, int) and icr and errv == icr[0]:
            seen.add("retry")
            ctx.check(r == retry, "from_str:retry-on-castling", "on InvalidCastlingRights the text is not re-parsed as Shredder-FEN: %s" % sym.show(r)[:100], loc(sb),
                      sample={"retry": "from_fen(fen, true) iff Err(InvalidCastlingRights)"})
        elif okf == 1:
            seen.add("err")
            # "any other error": the catch-all arm (the retried variant excluded) or an arm naming one other variant
            other_variant = (not isinstance(errv, int) and errv is not None and icr and icr[0] in errv[1]) or \
                (isinstance(errv, int) and icr and errv != icr[0])
            ctx.check((r == first or (r[0] == "agg" and r[2] == "Err" and dict(r[4])["0"] == ("field", ("downcast", first, "Err"), "0"))) and other_variant,
                      "from_str:other-errors-passthrough",
                      "an error other than InvalidCastlingRights is not passed through unchanged", loc(sb))
        else:
            ctx.fail("from_str:undecided", "Board::from_str has a path that does not start from from_fen(fen, false)", loc(sb))
    ctx.check(seen == {"ok", "retry", "err"}, "from_str:cases", "Board::from_str lacks one of the three cases: %s" % sorted(seen), loc(sb))
    # the fields are handed to the text parsers of Color, Square, File (through str::parse): the FEN parser is total and
    # strict only if those are (owned by C19; re-run here -- a Square parser that slices at a byte offset panics on a
    # two-byte character in the en-passant field)
    from . import c19
    expl_, lvl_ = ctx.explanation, getattr(ctx, "level", None)
    c19.run(ctx)
    ctx.explanation = expl_
    if lvl_ is not None:
        ctx.level = lvl_
    ctx.assumptions += ["the placement column counter cannot overflow usize within an addressable string",
                        "core's integer/str parsers reject the empty string"]
