"""C15 checked play: in `try_play` the unchecked play is dominated by the true edge of
`is_legal(self, mv)` on the same move, the Err path neither writes through `self` nor lends
it mutably, the Ok path calls the unchecked play exactly once on (self, mv) and nothing else
mutates; `play` panics exactly when `try_play` is not Ok and has no other effect.  Decided by
symbolic path enumeration over the MIR of both functions (all paths).  The meaning of
`is_legal` itself is C04's business."""
from .. import sym
from .common import B, paths_of, calls, mut_ptr_roots, is_ok_agg, is_err_agg, loc


def run(ctx):
    f = ctx.facts("A")
    ctx.explanation = __doc__
    check_wrappers(ctx, f)
    # "succeeds exactly when the move is legal": the guard's own meaning (C04 owns these rules)
    from . import c04
    from .. import lift
    L = lift.Lifter(f)
    ctx.rule("guard-meaning.is_legal")
    c04.check_is_legal(ctx, f, L)
    c04.check_king_is_legal(ctx, f, L)
    # ... and "legal" is the rules' notion: is_legal is held to move generation, move generation to the rules (owned by C01;
    # a slip in a generator that is_legal shares is invisible to the agreement rule above)
    from . import c01
    expl_ = ctx.explanation
    c01.run(ctx)
    ctx.explanation = expl_


def check_wrappers(ctx, f):
    """try_play and play hand exactly (self, mv) to the unchecked play, under is_legal(self, mv); also re-run by C02
    ("playing a legal move" goes through these wrappers: one that rewrites the move first plays a different move)"""
    if ctx.pid != "C15":
        key = ("c15-wrappers", getattr(ctx, "rule_suffix", ""))
        done = ctx.__dict__.setdefault("_groups_done", set())
        if key in done:
            return
        done.add(key)
    body, paths = paths_of(f, B + "::try_play")
    ctx.saw(body.key + " (%d paths)" % len(paths))
    self_root = ("P", "self")
    ctx.rule("try_play.guard")
    n_ok = n_err = 0
    for p in paths:
        if p.end != "return":
            ctx.fail("try_play:path-end:%s" % p.end, "try_play has a path that does not return (%s)" % p.end,
                     loc(body))
            continue
        plays = calls(p, name=B + "::play_unchecked")
        legal = calls(p, name=B + "::is_legal")
        # every other call that could mutate self
        other_mut = [e for e in p.events if e.kind == "call" and e.depth == 0 and e not in plays
                     and self_root in sum((mut_ptr_roots(a) for a in e.args), [])]
        mem_unchanged = p.store.get(self_root) == ("obj", "self")
        if is_ok_agg(p.ret):
            n_ok += 1
            ok = len(plays) == 1
            ctx.check(ok, "try_play:ok-calls-play-once",
                      "a path of try_play returns Ok after %d calls of play_unchecked (expected exactly 1)" % len(plays),
                      loc(body))
            if plays:
                e = plays[0]
                a_ok = e.args[0][0] == "ptr" and e.args[0][1] == self_root and e.args[0][2] == () \
                    and e.args[1] == ("param", "mv")
                ctx.check(a_ok, "try_play:play-args",
                          "play_unchecked is not applied to (self, mv): %s" % [sym.show(a) for a in e.args],
                          loc(body, e.line))
                # dominated by is_legal(self, mv) == true, same operands
                guard = None
                for (d, v, bb, depth) in p.conds[:e.ncond]:
                    if d[0] == "call" and d[1] == B + "::is_legal":
                        guard = (d, v)
                g_ok = guard is not None and guard[1] == 1 and guard[0][2][1] == ("param", "mv") \
                    and guard[0][2][0][0] == "ptr" and guard[0][2][0][1] == self_root
                ctx.check(g_ok, "try_play:guard",
                          "the call of play_unchecked is not guarded by is_legal(self, mv) == true on the same operands (guard: %s)"
                          % ((None if guard is None else (sym.show(guard[0]), guard[1])),), loc(body, e.line),
                          sample={"path": "Ok", "guard": None if guard is None else sym.show(guard[0]),
                                  "call": "play_unchecked(self, mv)"})
            ctx.check(not other_mut, "try_play:ok-no-other-mutation",
                      "the Ok path lends `self` mutably to something other than play_unchecked: %s" % other_mut,
                      loc(body))
        elif is_err_agg(p.ret):
            n_err += 1
            ctx.check(not plays and not other_mut and mem_unchanged, "try_play:err-write-free",
                      "a path returning Err mutates or mutably lends the board (plays=%s, other=%s, store changed=%s)"
                      % (plays, other_mut, not mem_unchanged), loc(body),
                      sample={"path": "Err", "writes_through_self": 0})
            # the Err path is the false edge of the same guard
            g = [(d, v) for (d, v, bb, depth) in p.conds if d[0] == "call" and d[1] == B + "::is_legal"]
            ctx.check(len(g) == 1 and g[0][1] == 0 and g[0][0][2][1] == ("param", "mv"), "try_play:err-iff-illegal",
                      "Err is returned on a path that is not exactly the false edge of is_legal(self, mv)", loc(body))
        else:
            ctx.fail("try_play:ret-shape", "try_play returns something that is neither Ok nor Err: %s" % sym.show(p.ret),
                     loc(body))
    ctx.floor("try_play Ok paths", n_ok, 1)
    ctx.floor("try_play Err paths", n_err, 1)

    # ---- play
    ctx.rule("play.panics-iff-err")
    body, paths = paths_of(f, B + "::play", noinline=[B + "::try_play"])
    ctx.saw(body.key + " (%d paths)" % len(paths))
    n_ret = n_panic = 0
    for p in paths:
        tp = calls(p, name=B + "::try_play")
        others = [e for e in p.events if e.kind == "call" and e.depth == 0 and e not in tp
                  and self_root in sum((mut_ptr_roots(a) for a in e.args), [])]
        ctx.check(len(tp) == 1 and not others, "play:delegates-once",
                  "play does not delegate exactly once to try_play (calls=%d, other mutable uses=%s)" % (len(tp), others),
                  loc(body))
        if not tp:
            continue
        e = tp[0]
        ctx.check(e.args[0][0] == "ptr" and e.args[0][1] == self_root and e.args[1] == ("param", "mv"),
                  "play:args", "try_play is not applied to (self, mv)", loc(body, e.line))
        # the decision: is_ok(result of try_play)
        dec = [(d, v) for (d, v, bb, depth) in p.conds
               if sym.contains(d, lambda x: x[0] == "call" and x[1] == B + "::try_play")]
        okv = None
        for d, v in dec:
            # normalised forms: Eq(discr(try_play(..)), 0) from is_ok / is_err / a match on the result
            if d[0] == "bin" and d[1] in ("Eq", "Ne") and d[2][0] == "discr" and d[3][0] == "int" \
                    and d[2][1][0] == "call" and d[2][1][1] == B + "::try_play" and isinstance(v, int):
                is_okv = (d[3][1] == 0) == (d[1] == "Eq")
                okv = v if is_okv else 1 - v
            elif d[0] == "discr" and d[1][0] == "call" and d[1][1] == B + "::try_play" and isinstance(v, int):
                okv = 1 if v == 0 else 0
        if p.end == "return":
            n_ret += 1
            ctx.check(okv == 1, "play:returns-only-when-ok",
                      "play returns normally on a path where try_play's result was not tested to be Ok", loc(body),
                      sample={"path": "return", "cond": "is_ok(try_play(self, mv))"})
        elif p.end == "diverge":
            n_panic += 1
            last = [x for x in p.events if x.kind == "call"][-1]
            ctx.check(okv == 0 and "panic" in last.name, "play:panics-only-when-err",
                      "play diverges on a path where try_play's result was not tested to be Err (last call %s)" % last.name,
                      loc(body), sample={"path": "panic", "via": last.name})
        else:
            ctx.fail("play:path-end:%s" % p.end, "unexpected end of a path in play: %s" % p.end, loc(body))
    ctx.floor("play return paths", n_ret, 1)
    ctx.floor("play panic paths", n_panic, 1)
    # try_play and play are the only public functions that hand `self` to play_unchecked besides itself
    ctx.rule("callers-of-unchecked-play")
    callers = []
    for k, b in f.bodies.items():
        for bb, t in b.calls():
            from ..facts import callee_name
            if callee_name(t) == B + "::play_unchecked":
                callers.append(k.split("::{closure")[0])
    ctx.note("callers of play_unchecked in the library: %s" % sorted(set(callers)))
    ctx.check(B + "::try_play" in callers, "unchecked-reached-from-try_play", "try_play no longer reaches play_unchecked")
