"""C01 move generation yields exactly the legal moves (structural/semantic necessary conditions).

Decided by symbolic execution of every generator for both values of IN_CHECK, compared with
a specification written in the library's public vocabulary; set-valued expressions are
compared as Boolean functions of their atoms, so algebraically equivalent rewrites pass:
 * dispatch on the number of checkers (0 -> all generators, 1 -> all generators in check
   mode, otherwise king only) and the roster (one generator per piece kind, abort chain);
 * every batch of the pawn, knight and slider generators: origin set (own pieces of the kind,
   masked, pinned / not pinned), destination set (pseudo-legal moves, check mask, pin line,
   not own pieces), the en-passant batch with its make-and-test guard (victim and capturer
   lifted, destination occupied, no enemy slider sees the king), no unprescribed batch;
 * king: steps = king_moves(king) & !own filtered by king_safe_on; castling per wing with
   destination files (G,F)/(C,D), only when not in check; king_safe_on consults all five
   attacker kinds with the own king lifted; can_castle's emptiness and safety sets equal the
   FIDE sets for every Chess960 (colour, king file, rook file) geometry, rook not pinned;
 * panic audit of everything reachable from generation and batch iteration.
Not decided: that the composition of these pieces is exactly the legal move set on every
accepted board (needs the validity invariants of C06 and the semantics of pins/checkers of
C03); the look-up tables' meaning is C05."""
from .. import lift, panics
from . import movegen
from .common import B

PM = "cozy_chess::board::movegen::piece_moves::"

PANIC_TABLE = {
    ("Board::king", "expect", "bitboard::BitBoard::next_square"):
        "every accepted board has exactly one king per colour (C06 board gate)",
    ("<target-squares>", "unwrap", "bitboard::BitBoard::next_square"):
        "only instantiated with IN_CHECK=true when exactly one checker exists (dispatch rule of this property)",
    ("get_bishop_moves", "assert", "BoundsCheck"):
        "C05: index function stays inside the slider table for every occupancy (audited)",
    ("get_rook_moves", "assert", "BoundsCheck"):
        "C05: index function stays inside the slider table for every occupancy (audited)",
    ("pext::get_pext_index", "assert", "Overflow:Add(usize)"):
        "PEXT back end: C05 evaluates offset + pext(occupancy, mask) for every square and relevant subset and finds it inside the table",
    ("<PieceMovesIter as core::iter::traits::iterator::Iterator>::next", "panic", "panic"):
        "unreachable!() arm of the promotion counter; C17 proves the counter stays in 0..=3",
    ("<PieceMovesIter as core::iter::traits::exact_size::ExactSizeIterator>::len", "assert", "Overflow:Sub(usize)"):
        "C17: the promotion counter is non-zero only while a promotion destination (worth 4) remains",
    ("<PieceMovesIter as core::iter::traits::iterator::Iterator>::size_hint", "assert", "Overflow:Sub(usize)"):
        "C17: the promotion counter is non-zero only while a promotion destination (worth 4) remains",
    ("rank::Rank::index_const", "panic", "panic_fmt"): "documented panicking constructor; every caller's argument range is proved at its call site",
    ("square::Square::index_const", "panic", "panic_fmt"): "documented panicking constructor; every caller's argument range is proved at its call site",
    ("file::File::index_const", "panic", "panic_fmt"): "documented panicking constructor; every caller's argument range is proved at its call site",
}


def roots(f=None):
    it = "<" + PM + "PieceMovesIter as core::iter::traits::"
    r = [B + "::generate_moves_for", B + "::generate_moves", PM + "PieceMoves::len", PM + "PieceMoves::has",
         PM + "PieceMoves::is_empty", it + "iterator::Iterator>::next", it + "iterator::Iterator>::size_hint",
         it + "exact_size::ExactSizeIterator>::len",
         "<" + PM + "PieceMoves as core::iter::traits::collect::IntoIterator>::into_iter"]
    if f is not None:
        # ExactSizeIterator::len may be left to its provided default (no body in this crate then)
        r = [k for k in r if k in f.bodies or "ExactSizeIterator" not in k]
    return r


def iter_invariants(f):
    """inside the methods of the move iterator its promotion counter lies in 0..=3 (C17 establishes this: into_iter
    starts it at 0, next keeps it there, nothing else writes the private field)"""
    adt = f.adts.get(PM + "PieceMovesIter")
    cnt = [fl["name"] for fl in adt["variants"][0]["fields"] if fl["ty"] in ("u8", "u16", "u32", "usize", "u64")] if adt else []

    def inv(body):
        if len(cnt) == 1 and body.key.startswith("<" + PM + "PieceMovesIter as "):
            return {("field", ("obj", "self"), cnt[0]): (0, 3)}
        return None
    return inv


def role_table(f):
    """the panic table with the private target-square helper named as it is called today"""
    from .names import names as _names
    from ..panics import short as _short
    tab = dict(PANIC_TABLE)
    tab[(_short(_names(f).target_squares), "unwrap", "bitboard::BitBoard::next_square")] = tab.pop(("<target-squares>", "unwrap", "bitboard::BitBoard::next_square"))
    return tab


def run(ctx):
    if ctx.pid != "C01":
        # included by another property's check: once per run is enough
        key = ("c01", getattr(ctx, "rule_suffix", ""))
        done = ctx.__dict__.setdefault("_groups_done", set())
        if key in done:
            return
        done.add(key)
    ctx.explanation = __doc__
    for cfg in (["A"] if ctx.tier == "quick" else ["A", "C"]):
        f = ctx.facts(cfg)
        L = lift.Lifter(f)
        sfx = "" if cfg == "A" else "[%s]" % cfg
        ctx.rule("dispatch+roster" + sfx)
        movegen.check_dispatch(ctx, f, L)
        movegen.check_roster(ctx, f, L)
        ctx.rule("generator-batches" + sfx)
        n = movegen.check_generators(ctx, f, L)
        ctx.floor("listener sites in pawn/knight/slider generators", n, 16)
        ctx.rule("king-safety" + sfx)
        movegen.check_king_safe_on(ctx, f, L)
        ctx.rule("castling" + sfx)
        movegen.check_can_castle(ctx, f, L)
        ctx.rule("king-generator" + sfx)
        movegen.check_king_generator(ctx, f, L)
        ctx.rule("panic-audit" + sfx)
        a = panics.Audit(f, tgens={movegen.tparam(f): list(movegen.slider_types(f).values())}, invariants_for=iter_invariants(f)).run(roots(f))
        ctx.analysed += a.analysed[:60]
        n = panics.report(ctx, a, role_table(f), "panic")
        ctx.floor("panic sites audited", n, 30)
    # the position state the generators read (castle rights, en-passant file, checkers, pins) is produced by
    # play_unchecked / null_move; a history-level break of move generation can sit there (C02, C03 own the rules)
    from . import c02, c03, c05
    expl = ctx.explanation
    c02.run(ctx)
    c03.run(ctx)
    # the generators' atoms (knight/king/pawn/slider attack sets, between, line) mean what the specification assumes
    # only if the look-up functions equal geometry (owned by C05)
    c05.run_lookups(ctx)
    # "every accepted board": the generators lean on what the constructors' gate establishes (one king per side; with an
    # en-passant file set every checker is the pushed pawn or a slider uncovered by the push -- the en-passant branch
    # never looks at the check mask).  The gate and the validators' content are owned by C06 and re-run here.
    from . import c06
    c06.run_gate(ctx)
    ctx.explanation = expl
    ctx.assumptions += [
        "atoms of the set algebra (getter applications, table look-ups) are treated as independent; equivalence proved this way is sound",
        "slider attack sets are contained in the empty-board rays (C05) -- used to identify the en-passant pre-test with its specification",
        "C06 (one king per side, validity of the en-passant file) and C03 (meaning of pinned/checkers) for the composition argument",
    ]
