"""C18 bitboards behave as sets of squares -- decided for all 2^64 (pairs of) bitboards.

Every function of types/src/bitboard.rs is executed symbolically with all wrappers inlined down
to u64 primitives (no model of BitBoard operators is assumed) and the resulting expression is
evaluated in the bit-function domain (cva/bitfn.py): each of the 64 result bits is a Boolean
function of named input bits.  Obligations, per bit position:
  & | ^ - ! and the five assigning forms == AND OR XOR AND-NOT NOT of the operand bits;
  has(sq) == bit sq (case split on the 64 squares, operands symbolic); is_disjoint / is_subset /
  is_superset / is_empty == forall-i formulas of the definitions; len == popcount of the
  identity vector; flip_ranks / flip_files: result bit i == input bit i^56 / i^7;
  iteration: next() == next_square() of the state (None leaves it unchanged), the new state is
  the old one with exactly that square's bit flipped (which removes it, being the lowest set bit
  by the meaning of trailing_zeros), len/size_hint == popcount; collect folds OR of one-hot bits
  from EMPTY; iter_subsets starts at (set, 0, not finished) and next() is the carry-rippler step
  subset' = (subset - set) & set with finished' <=> subset' == 0, yielding the old subset.
next_square's k -> k-th square table is C19's.  Ascending-exactly-once for iteration and
every-subset-once for the carry-rippler follow by induction / the cited lemma (argued)."""
from .. import sym, bitfn
from ..bitfn import BitEval, vec_var, vec_const, combine, const_bit, CannotBit
from .common import loc
from .c06 import natom

P = "cozy_chess_types::bitboard::"
BBT = P + "BitBoard"
SQ = "cozy_chess_types::square::Square"


def raw_opaque(n):
    return n.rsplit("::", 1)[-1] in ("try_index", "index_const", "index")


def paths(f, name):
    b = f.need(name)
    return b, sym.SymExec(f, b, raw=True, opaque=raw_opaque, max_depth=6).run()


def subst(e, old, new):
    if e == old:
        return new
    if isinstance(e, tuple):
        return tuple(subst(x, old, new) if isinstance(x, tuple) else x for x in e)
    return e


def raw_of(v):
    """u64 expression of a BitBoard-valued expression"""
    if v[0] == "bb":
        return v[1]
    if v[0] == "bbconst":
        return ("int", v[1], "u64")
    return ("field", v, "0")


A = vec_var("a")
Bv = vec_var("b")
SELF0 = ("field", ("param", "self"), "0")
SELFP0 = ("field", ("obj", "self"), "0")


def assume(term, atom, value):
    """restrict a bit term by atom := value"""
    atoms, tt = term
    if atom not in atoms:
        return term
    i = atoms.index(atom)
    n = len(atoms)
    out = 0
    k = 0
    for r in range(1 << n):
        if ((r >> i) & 1) == value:
            if (tt >> r) & 1:
                out |= 1 << k
            k += 1
    return bitfn._reduce(atoms[:i] + atoms[i + 1:], out)


def eqvec(x, y):
    return [i for i in range(64) if x[i] != y[i]]


INSIDE = set()        # pairs (x, y) with x known to be a subset of y: x | !y == x + !y (no carries)


def lin_form(e):
    """e as a linear form modulo 2^64 over opaque terms: ({term: coefficient}, constant); !x == -x - 1"""
    M_ = 1 << 64
    if e[0] == "int":
        return {}, e[1] % M_
    if e[0] == "bin" and e[1] == "BitOr":
        for x_, y_ in ((e[2], e[3]), (e[3], e[2])):
            if y_[0] == "un" and y_[1] == "Not" and (x_, y_[2]) in INSIDE:
                return lin_form(("bin", "Add", x_, y_))
    if e[0] == "cast":
        return lin_form(e[2])
    if (e[0] == "bin" and e[1] in ("Add", "Sub")) or (e[0] == "call" and e[1].rsplit("::", 1)[-1] in ("wrapping_add", "wrapping_sub") and len(e[2]) == 2):
        if e[0] == "bin":
            op_, x_, y_ = e[1], e[2], e[3]
        else:
            op_, x_, y_ = ("Add" if e[1].endswith("wrapping_add") else "Sub"), e[2][0], e[2][1]
        (ta, ca), (tb, cb) = lin_form(x_), lin_form(y_)
        sg = 1 if op_ == "Add" else -1
        out = dict(ta)
        for k_, v_ in tb.items():
            out[k_] = (out.get(k_, 0) + sg * v_) % M_
        return {k_: v_ for k_, v_ in out.items() if v_}, (ca + sg * cb) % M_
    if e[0] == "un" and e[1] == "Not":
        ta, ca = lin_form(e[2])
        return {k_: (-v_) % M_ for k_, v_ in ta.items()}, (-ca - 1) % M_
    return {e: 1}, 0


def is_carry_rippler(newsub, sub0, set0):
    """newsub == (sub0 - set0) & set0 in any arithmetic spelling of the subtraction (the held subset lies inside the set:
    it starts empty and every stored successor is masked with the set -- both decided by the rules around this one)"""
    INSIDE.add((sub0, set0))
    wsub = lambda e: lin_form(e) == ({sub0: 1, set0: (1 << 64) - 1}, 0)
    return newsub[0] == "bin" and newsub[1] == "BitAnd" and ((wsub(newsub[2]) and newsub[3] == set0) or (wsub(newsub[3]) and newsub[2] == set0))


def subset_iteration_option_state(ctx, f, f_set, f_opt):
    """BitBoardSubsetIter { set, subset: Option<BitBoard> }: None = finished.  Same obligations as for the
    (subset, finished) representation: a finished iterator answers None and stays as it is; a step yields the held
    subset, the next one is the carry-rippler successor, and the iterator finishes exactly when that is empty"""
    b, ps = paths(f, "<" + P + "BitBoardSubsetIter as core::iter::traits::iterator::Iterator>::next")
    opt = ("field", ("obj", "self"), f_opt)
    cur = ("field", ("downcast", opt, "Some"), "0")
    sub0 = ("field", cur, "0")
    set0 = ("field", ("field", ("obj", "self"), f_set), "0")
    from .c08 import discr_poss
    seen = set()
    wrapped = set()
    for p in ps:
        poss = discr_poss(p.conds, opt)
        if poss == {0}:
            seen.add("done")
            ctx.check(p.ret[0] == "agg" and p.ret[2] == "None" and p.store.get(("P", "self")) == ("obj", "self"), "subsets:finished-none",
                      "a finished subset iterator does not return None untouched", loc(b))
        elif poss == {1}:
            seen.add("step")
            st = p.store.get(("P", "self"))
            nv = sym.Ops(f).field(st, f_opt)
            r = p.ret
            ctx.check(r[0] == "agg" and r[2] == "Some" and dict(r[4])["0"] == cur, "subsets:yields-current",
                      "the step does not yield the subset held before stepping", loc(b))
            # what the path decided about the successor being empty
            empt = None
            succ = None
            for c in p.conds:
                e = c[0]
                x = None
                if e[0] == "bin" and e[1] in ("Eq", "Ne") and ("int", 0, "u64") in (e[2], e[3]) and isinstance(c[1], int):
                    x = e[3] if e[2] == ("int", 0, "u64") else e[2]
                    val = (e[1] == "Eq") == bool(c[1])
                elif e[0] == "isempty" and isinstance(c[1], int):
                    x = e[1][1] if e[1][0] == "bb" else None
                    val = bool(c[1])
                if x is not None and is_carry_rippler(x, sub0, set0):
                    succ, empt = x, val
            ok1 = succ is not None
            ctx.check(ok1, "subsets:carry-rippler", "the subset step does not compute the carry-rippler successor (subset - set) & set and test it for emptiness", loc(b),
                      sample={"step": sym.show(succ)[:120] if succ else None})
            if not ok1:
                continue
            if nv[0] == "agg" and nv[2] == "None":
                okf = empt is True
            elif nv[0] == "agg" and nv[2] == "Some":
                held = dict(nv[4]).get("0")
                held = held[1] if held is not None and held[0] == "bb" else held
                okf = empt is False and held == succ
            else:
                okf = False
            wrapped.add(empt)
            ctx.check(okf, "subsets:finished-iff-wrapped", "the iterator does not finish exactly when the next subset is empty (wrapped around), holding that subset otherwise: %s"
                      % sym.show(nv)[:160], loc(b))
        else:
            ctx.fail("subsets:finished-undecided", "subset next() does not first test whether it is finished", loc(b))
    ctx.check(seen == {"done", "step"} and wrapped == {True, False}, "subsets:cases", "subset next() lacks a finished, a wrapping or a continuing path", loc(b))


def run(ctx):
    ctx.level = "proof"
    ctx.explanation = __doc__
    f = ctx.facts("A")
    # ------------------------------------------------------------------ binary operators
    ctx.rule("operators")
    specs = {"BitAnd>::bitand": "and", "BitOr>::bitor": "or", "BitXor>::bitxor": "xor", "Sub>::sub": "andnot"}

    def spec_vec(op, a, b):
        if op == "andnot":
            return [combine("and", x, combine("not", y)) for x, y in zip(a, b)]
        return [combine(op, x, y) for x, y in zip(a, b)]
    for k in sorted(f.bodies):
        if not k.startswith("<" + BBT + " as core::ops::"):
            continue
        b = f.bodies[k]
        if b.promoted is not None:
            continue
        tail = k.split(" as core::ops::")[1].split("::", 1)[1] if "::" in k else k
        ps = sym.SymExec(f, b, raw=True, opaque=raw_opaque, max_depth=6).run()
        short = k.split("::")[-1]
        if len(ps) != 1 or ps[0].end != "return":
            ctx.fail("%s:straight-line" % short, "%s is not straight-line code" % k, loc(b))
            continue
        p = ps[0]
        assign = short.endswith("_assign")
        other = "rhs"
        try:
            if assign:
                st = p.store.get(("P", "self"))
                newraw = raw_of(st) if st[0] in ("bb", "bbconst") else sym.Ops(f).field(st, "0")
                ev = BitEval({SELFP0: A, ("field", ("param", "rhs"), "0"): Bv})
                got = ev.vec(newraw)
            else:
                ev = BitEval({SELF0: A, ("field", ("param", "rhs"), "0"): Bv})
                got = ev.vec(raw_of(p.ret))
        except CannotBit as e:
            ctx.fail("%s:cannot" % short, "cannot evaluate %s in the bit-function domain: %s" % (k, e), loc(b))
            continue
        base = short.replace("_assign", "")
        op = {"bitand": "and", "bitor": "or", "bitxor": "xor", "sub": "andnot", "not": "not"}.get(base)
        if op is None:
            continue
        want = [combine("not", x) for x in A] if op == "not" else spec_vec(op, A, Bv)
        bad = eqvec(got, want)
        ctx.check(not bad, "op:%s" % short, "%s is not the set operation %s on bit positions %s" % (k, op, bad[:5]), loc(b),
                  sample={"op": short, "bits": 64, "bit0": str(got[0])})
    # ------------------------------------------------------------------ predicates
    ctx.rule("predicates")
    OTHER0 = ("field", ("param", "other"), "0")

    def pred_check(name, want_fn, quant):
        b, ps = paths(f, BBT + "::" + name)
        if len(ps) != 1:
            ctx.fail("%s:straight-line" % name, "%s is not straight-line" % name, loc(b))
            return
        ev = BitEval({SELF0: A, OTHER0: Bv})
        try:
            pr = ev.pred(ps[0].ret)
        except CannotBit as e:
            ctx.fail("%s:cannot" % name, "cannot evaluate %s: %s" % (name, e), loc(b))
            return
        ok = pr[0] == quant and all(pr[1][i] == want_fn(i) for i in range(64))
        ctx.check(ok, "pred:%s" % name, "%s is not its set-theoretic definition (got %s of %s)" % (name, pr[0], pr[1][0]), loc(b),
                  sample={"pred": name, "form": "%s i: %s" % (quant, pr[1][0])})
    pred_check("is_empty", lambda i: combine("not", A[i]), "all")
    pred_check("is_disjoint", lambda i: combine("not", combine("and", A[i], Bv[i])), "all")
    pred_check("is_subset", lambda i: combine("imp", A[i], Bv[i]), "all")
    pred_check("is_superset", lambda i: combine("imp", Bv[i], A[i]), "all")
    # has: case split on the square
    b, ps = paths(f, BBT + "::has")
    okh = len(ps) == 1
    bad = []
    if okh:
        sqidx = ("cast", "u8", ("discr", ("param", "square")))
        for s in range(64):
            e = subst(ps[0].ret, sqidx, ("int", s, "u8"))
            try:
                pr = BitEval({SELF0: A}).pred(e)
            except CannotBit as ex:
                bad.append((s, str(ex)))
                continue
            # exists i: not formula_i   must be  A_s
            # the predicate as one Boolean function of the word's bits (any arrangement: mask and compare, shift and test
            # bit 0, ...) must be the member bit of that square
            nontrivial = [i for i in range(64) if pr[1][i] != const_bit(1)]
            try:
                if pr[0] == "notall":
                    fn_ = const_bit(0)
                    for i in nontrivial:
                        fn_ = combine("or", fn_, combine("not", pr[1][i]))
                else:
                    fn_ = const_bit(1)
                    for i in nontrivial:
                        fn_ = combine("and", fn_, pr[1][i])
            except CannotBit as ex:
                bad.append((s, str(ex)))
                continue
            if fn_ != A[s]:
                bad.append((s, pr[0], nontrivial[:3]))
    ctx.check(okh and not bad, "pred:has", "has(square) is not membership of that square's bit: %s" % bad[:3], loc(b),
              sample={"pred": "has", "cases": 64})
    b, ps = paths(f, BBT + "::len")
    r = ps[0].ret if len(ps) == 1 else None
    while r is not None and r[0] == "cast":
        r = r[2]
    ctx.check(r is not None and r[0] == "call" and r[1].endswith("count_ones") and r[2] == (SELF0,), "len:popcount",
              "len() is not the population count of the set: %s" % (sym.show(r) if r else None), loc(b))
    # ------------------------------------------------------------------ flips
    ctx.rule("flips")
    for name, perm in (("flip_ranks", lambda i: i ^ 56), ("flip_files", lambda i: i ^ 7)):
        b = f.need(BBT + "::" + name)
        # a loop over the eight ranks or files has constant bounds: it is executed iteration by iteration
        ps = sym.SymExec(f, b, raw=True, opaque=raw_opaque, max_depth=6, unroll=16).run()
        got = [None]
        try:
            if len(ps) != 1 or ps[0].ret is None:
                raise CannotBit("%d paths, ends %s (one returning path expected: the flip of a word does not depend on its value)" % (len(ps), [p_.end for p_ in ps][:3]))
            got = BitEval({SELF0: A}).vec(raw_of(ps[0].ret))
            bad = [i for i in range(64) if i >= len(got) or got[i] != A[perm(i)]]
        except CannotBit as e:
            bad = [str(e)]
        ctx.check(len(ps) == 1 and not bad, "flip:%s" % name, "%s does not move every bit to its mirrored square (positions %s)" % (name, bad[:5]), loc(b),
                  sample={"flip": name, "bit 0 <-": str(got[0]) if not bad or isinstance(bad[0], int) else None})
    # ------------------------------------------------------------------ iteration
    ctx.rule("iteration")
    b, ps = paths(f, BBT + "::next_square")
    # every path answers try_index(trailing_zeros(set)); an explicit early `None` for the empty set is the same answer
    # (trailing_zeros(0) == 64 is no square index)
    def is_tz_lookup(x):
        return x is not None and x[0] == "call" and x[1] == SQ + "::try_index" and x[2][0][0] == "cast" and x[2][0][2][0] == "call" \
            and x[2][0][2][1].endswith("trailing_zeros") and x[2][0][2][2] == (SELF0,)

    def empty_test(c):
        e_, v_ = c[0], c[1]
        if e_[0] == "bin" and e_[1] in ("Eq", "Ne") and isinstance(v_, int) and {e_[2], e_[3]} == {SELF0, ("int", 0, "u64")}:
            return (e_[1] == "Eq") == bool(v_)
        return None
    okn = bool(ps)
    r = None
    from .. import panics as _panics
    from ..ranges import Ranger as _Ranger
    _aud = _panics.Audit(f)
    for p_ in ps:
        if p_.end in ("panic", "diverge") and _aud.path_infeasible(_Ranger(f, {}), p_.conds):
            continue                # an assertion that intervals show can never fail (e.g. trailing_zeros of a non-zero word < 64)
        ets = [empty_test(c) for c in p_.conds if not (c[0][0] == "bin" and sym.contains(c[0], lambda y: y[0] == "call" and y[1].endswith("trailing_zeros")))]
        if any(x is None for x in ets):
            okn = False
        elif is_tz_lookup(p_.ret):
            r = p_.ret
        elif p_.ret is not None and p_.ret[0] == "agg" and p_.ret[2] == "None" and True in ets:
            pass
        elif p_.end in ("panic", "diverge") and True in ets and False in ets:
            pass
        else:
            okn = okn and p_.end in ("panic", "diverge") and False in ets and not is_tz_lookup(p_.ret) and \
                any(sym.contains(c[0], lambda y: y[0] == "call" and y[1].endswith("trailing_zeros")) for c in p_.conds)
    okn = okn and r is not None
    ctx.check(okn, "next_square", "next_square is not try_index(trailing_zeros(set)) (lowest member, None when empty): %s" % (sym.show(r)[:120] if r else None), loc(b),
              sample={"next_square": sym.show(r)[:100] if r else None})
    itn = "<" + P + "BitBoardIter as core::iter::traits::iterator::Iterator>::next"
    b, ps = paths(f, itn)
    STATE = ("field", ("field", ("obj", "self"), "0"), "0")
    first = ("call", SQ + "::try_index", (("cast", "usize", ("call", "core::num::<impl u64>::trailing_zeros", (STATE,))),))
    n_none = n_some = 0

    def assertion_dead(p_):
        """a diverging path whose last decision can never be taken: shown by intervals, or (membership of the lowest
        set bit) in the bit-function domain for every position of that bit"""
        if _aud.path_infeasible(_Ranger(f, {}), p_.conds):
            return True
        if not p_.conds:
            return False
        c = p_.conds[-1]
        idx = None
        for t_ in sym.subterms(c[0], lambda x: x[0] == "cast" and x[2][0] == "discr"):
            idx = t_
        if idx is None or not isinstance(c[1], int):
            return False
        for s in range(64):
            As = [const_bit(0)] * s + [const_bit(1)] + list(A[s + 1:])
            try:
                pr = BitEval({STATE: As}).pred(subst(c[0], idx, ("int", s, "u8")))
            except CannotBit:
                return False
            # pred: ('all'|'notall', [per-bit xnor terms]); the claimed value must be impossible
            vals = pr[1]
            if any(x[0] != () for x in vals):
                return False
            holds_all = all(x[1] == 1 for x in vals)
            truth = holds_all if pr[0] == "all" else (not holds_all)
            if truth == bool(c[1]):
                return False
        return True
    for p in ps:
        if p.end in ("panic", "diverge") and assertion_dead(p):
            continue
        r = p.ret
        st = p.store.get(("P", "self"))
        # the decision about next_square(state): Some or None
        d = None
        nsq = None
        for c in p.conds:
            a, pol = natom(c[0], c[1])
            if a[0] == "issome" and a[1][0] == "call" and a[1][1] == SQ + "::try_index" and sym.contains(a[1], lambda x: x == STATE):
                nsq = a[1]
                d = 1 if pol else 0
            elif c[0][0] == "bin" and c[0][1] in ("Eq", "Ne") and isinstance(c[1], int) and {c[0][2], c[0][3]} == {STATE, ("int", 0, "u64")}:
                if (c[0][1] == "Eq") == bool(c[1]) and nsq is None:
                    nsq, d = first, 0          # the state was found empty: next_square() is None
        if nsq is None:
            ctx.fail("iter.next:undecided", "iterator next() does not look at next_square() of its state", loc(b))
            continue
        isnext = r == nsq or (d == 0 and r[0] == "agg" and r[2] == "None") or \
            (d == 1 and r[0] == "agg" and r[2] == "Some" and dict(r[4])["0"] == ("field", ("downcast", nsq, "Some"), "0"))
        ctx.check(isnext, "iter.next:returns-lowest", "iterator next() does not return next_square() of its state: %s" % sym.show(r)[:120], loc(b))
        r = nsq
        if d == 1:
            n_some += 1
            newraw = sym.Ops(f).field(sym.Ops(f).field(st, "0"), "0")
            sqidx = None
            for t_ in sym.subterms(newraw, lambda x: x[0] == "cast" and x[2][0] == "discr"):
                sqidx = t_
            bad = []
            for s in range(64):
                e = subst(newraw, sqidx, ("int", s, "u8")) if sqidx else newraw
                # the yielded square s is the lowest set bit of the state: bits below s are 0, bit s is 1
                As = [const_bit(0)] * s + [const_bit(1)] + list(A[s + 1:])
                try:
                    got = BitEval({STATE: As}).vec(e)
                except CannotBit as ex:
                    bad.append((s, str(ex)))
                    break
                # the new state must have bit s clear and every other bit unchanged
                # (covers `^= bit`, `-= bit` and `x &= x - 1`)
                for i in range(64):
                    wi = const_bit(0) if i == s else As[i]
                    if got[i] != wi:
                        bad.append((s, i))
                        break
            # if the new state names a square at all, it is the yielded one (`x &= x - 1` names none)
            okp = sqidx is None or sqidx[2][1] == ("field", ("downcast", r, "Some"), "0")
            ctx.check(okp and not bad, "iter.next:removes-yielded", "after yielding a square the state is not the old state with exactly that square's bit flipped: %s" % bad[:3], loc(b),
                      sample={"iter.next": "state ^= bit(yielded)", "cases": 64})
        elif d is not None:
            n_none += 1
            ctx.check(st == ("obj", "self"), "iter.next:none-leaves-state", "next() changes the state when nothing is left", loc(b))
    ctx.check(n_some >= 1 and n_none >= 1, "iter.next:cases", "iterator next() lacks a Some or a None path", loc(b))
    for nm in ("<" + P + "BitBoardIter as core::iter::traits::exact_size::ExactSizeIterator>::len",):
        b, ps = paths(f, nm)
        r = ps[0].ret if len(ps) == 1 else None
        while r is not None and r[0] == "cast":
            r = r[2]
        ctx.check(r is not None and r[0] == "call" and r[1].endswith("count_ones") and r[2] == (("field", ("field", ("obj", "self"), "0"), "0"),),
                  "iter.len:popcount", "remaining length is not the population count of the state: %s" % (sym.show(r)[:100] if r else None), loc(b))
    b, ps = paths(f, "<" + P + "BitBoardIter as core::iter::traits::iterator::Iterator>::size_hint")
    r = ps[0].ret if len(ps) == 1 else None
    oks = r is not None and r[0] == "tuple" and r[1][1][0] == "agg" and r[1][1][2] == "Some" and dict(r[1][1][4])["0"] == r[1][0] and \
        sym.contains(r[1][0], lambda x: x[0] == "call" and x[1].endswith("count_ones"))
    ctx.check(oks, "iter.size_hint", "size_hint is not (popcount, Some(popcount))", loc(b))
    b, ps = paths(f, BBT + "::iter")
    ctx.check(len(ps) == 1 and ps[0].ret[0] == "agg" and dict(ps[0].ret[4]).get("0") == ("param", "self"), "iter:starts-with-set", "iter() does not start from the whole set", loc(b))
    b, ps = paths(f, "<" + BBT + " as core::iter::traits::collect::IntoIterator>::into_iter")
    ctx.check(len(ps) == 1 and ps[0].ret[0] == "agg" and dict(ps[0].ret[4]).get("0") == ("param", "self"), "into_iter:delegates", "into_iter is not iter()", loc(b))
    # collect
    fi = "<" + BBT + " as core::iter::traits::collect::FromIterator<" + SQ + ">>::from_iter"
    b, ps = paths(f, fi)
    # after desugaring, `iter.fold(EMPTY, |bb, sq| ..)` and `let mut bb = EMPTY; for sq in iter {..}; bb` are the same
    # accumulation loop: one exit returning the accumulator, one iteration path updating it
    rets = [p for p in ps if p.end == "return"]
    loops = [p for p in ps if p.end == "loopback"]
    okf = len(rets) == 1 and len(loops) == 1 and len(ps) == 2 and rets[0].ret is not None and rets[0].ret[0] == "hv"
    step = None
    if okf:
        hv = rets[0].ret
        init = rets[0].pre_loop.get((0, hv[3]), {}).get((hv[2], ()))
        S = ("param", b.local_name(1))
        nx = ("discr", ("next", S))
        okf = init == ("bbconst", 0) and [(c[0], c[1]) for c in rets[0].conds] == [(nx, 0)] and \
            [(c[0], c[1]) for c in loops[0].conds] == [(nx, 1)]
        for root, val in loops[0].store.items():
            if root[0] == "L" and root[1] == 0 and b.local_name(root[2]) == hv[2]:
                step = val
        okf = okf and step is not None
    ctx.check(okf, "collect:fold-from-empty", "collecting squares is not an accumulation over the whole iterator starting from the empty set", loc(b))
    if okf:
        bad = []
        acc0 = ("field", hv, "0")
        sqidx = ("cast", "u8", ("discr", ("elem", S)))
        for s in range(64):
            try:
                got = BitEval({acc0: A}).vec(subst(raw_of(step), sqidx, ("int", s, "u8")))
            except CannotBit as ex:
                bad.append(str(ex))
                break
            want = [const_bit(1) if i == s else A[i] for i in range(64)]
            if got != want:
                bad.append(s)
        ctx.check(not bad, "collect:step-is-insert", "the accumulation step is not `set ∪ {square}`: %s" % bad[:3], loc(b),
                  sample={"collect": "fold(EMPTY, |bb, sq| bb | bit(sq))"})
    # ------------------------------------------------------------------ subsets
    ctx.rule("subset-iteration")
    b, ps = paths(f, BBT + "::iter_subsets")
    r = ps[0].ret if len(ps) == 1 else None
    f_set = f_sub = f_fin = None
    if r is not None and r[0] == "agg":
        for n_, v_ in r[4]:
            if v_ == ("param", "self"):
                f_set = n_
            elif v_ == ("bbconst", 0):
                f_sub = n_
            elif v_ == sym.FALSE:
                f_fin = n_
    # the same state kept as one Option: Some(next subset to yield) / None once wrapped around
    f_opt = None
    if r is not None and r[0] == "agg" and len(r[4]) == 2:
        for n_, v_ in r[4]:
            if v_[0] == "agg" and v_[2] == "Some" and dict(v_[4]).get("0") == ("bbconst", 0):
                f_opt = n_
    if f_set is not None and f_opt is not None:
        subset_iteration_option_state(ctx, f, f_set, f_opt)
        ctx.extra["exhaustive"] = True
        ctx.assumptions += ["u64 primitives (&,|,^,!,<<,>>,swap_bytes,count_ones,trailing_zeros,wrapping_sub) have their documented meaning",
                            "carry-rippler lemma (every subset once, increasing) is cited, not re-proved",
                            "the lowest set bit is set: flipping it removes it (meaning of trailing_zeros)"]
        return
    oki = r is not None and None not in (f_set, f_sub, f_fin) and len(r[4]) == 3
    ctx.check(oki, "subsets:start", "iter_subsets does not start at (set, empty subset, not finished): %s" % (sym.show(r)[:120] if r else None), loc(b))
    if not oki:
        return
    b, ps = paths(f, "<" + P + "BitBoardSubsetIter as core::iter::traits::iterator::Iterator>::next")
    fin = ("field", ("obj", "self"), f_fin)
    sub0 = ("field", ("field", ("obj", "self"), f_sub), "0")
    set0 = ("field", ("field", ("obj", "self"), f_set), "0")
    seen = set()
    for p in ps:
        fv = [c[1] for c in p.conds if c[0] == fin]
        if fv == [1]:
            seen.add("done")
            ctx.check(p.ret[0] == "agg" and p.ret[2] == "None" and p.store.get(("P", "self")) == ("obj", "self"), "subsets:finished-none",
                      "a finished subset iterator does not return None untouched", loc(b))
        elif fv == [0]:
            seen.add("step")
            st = p.store.get(("P", "self"))
            o = sym.Ops(f)
            newsub = o.field(o.field(st, f_sub), "0")
            newfin = o.field(st, f_fin)
            # accepted idioms: (subset - set) & set   |   ((subset | !set) + 1) & set
            def lin(e):
                """e as a linear form modulo 2^64 over opaque terms: ({term: coefficient}, constant); !x == -x - 1"""
                M_ = 1 << 64
                if e[0] == "int":
                    return {}, e[1] % M_
                if e[0] == "cast":
                    return lin(e[2])
                if (e[0] == "bin" and e[1] in ("Add", "Sub")) or (e[0] == "call" and e[1].rsplit("::", 1)[-1] in ("wrapping_add", "wrapping_sub") and len(e[2]) == 2):
                    if e[0] == "bin":
                        op_, x_, y_ = e[1], e[2], e[3]
                    else:
                        op_, x_, y_ = ("Add" if e[1].endswith("wrapping_add") else "Sub"), e[2][0], e[2][1]
                    (ta, ca), (tb, cb) = lin(x_), lin(y_)
                    sg = 1 if op_ == "Add" else -1
                    out = dict(ta)
                    for k_, v_ in tb.items():
                        out[k_] = (out.get(k_, 0) + sg * v_) % M_
                    return {k_: v_ for k_, v_ in out.items() if v_}, (ca + sg * cb) % M_
                if e[0] == "un" and e[1] == "Not":
                    ta, ca = lin(e[2])
                    return {k_: (-v_) % M_ for k_, v_ in ta.items()}, (-ca - 1) % M_
                return {e: 1}, 0

            def is_wsub(e, a, b_):
                # subset - set in any arithmetic spelling (a - b, a + !b + 1, ...)
                return lin(e) == ({a: 1, b_: (1 << 64) - 1}, 0)
            ok1 = is_carry_rippler(newsub, sub0, set0)        # (module-level twin of the local helpers above, knows subset inside set)
            ctx.check(ok1, "subsets:carry-rippler", "the subset step is not the carry-rippler (subset - set) & set: %s" % sym.show(newsub)[:160], loc(b),
                      sample={"step": sym.show(newsub)[:120]})
            okf2 = newfin in (("bin", "Eq", newsub, ("int", 0, "u64")), ("bin", "Eq", ("int", 0, "u64"), newsub))
            ctx.check(okf2, "subsets:finished-iff-wrapped", "finished is not set exactly when the next subset is empty (wrapped around): %s" % sym.show(newfin)[:160], loc(b))
            r = p.ret
            ctx.check(r[0] == "agg" and r[2] == "Some" and dict(r[4])["0"] == ("field", ("obj", "self"), f_sub), "subsets:yields-current",
                      "the step does not yield the subset held before stepping", loc(b))
        else:
            ctx.fail("subsets:finished-undecided", "subset next() does not first test the finished flag", loc(b))
    ctx.check(seen == {"done", "step"}, "subsets:cases", "subset next() lacks a finished or a stepping path", loc(b))
    ctx.extra["exhaustive"] = True
    ctx.assumptions += ["u64 primitives (&,|,^,!,<<,>>,swap_bytes,count_ones,trailing_zeros,wrapping_sub) have their documented meaning",
                        "carry-rippler lemma (every subset once, increasing) is cited, not re-proved",
                        "the lowest set bit is set: flipping it removes it (meaning of trailing_zeros)"]
