"""I5b: the bit-function domain.  A u64 value is a vector of 64 bit terms; every term is a
Boolean function (canonical: sorted atom tuple + truth table) of named input bits.  Bitwise
operators act per bit, shifts by constants and byte swaps permute positions, constants give
constant bits.  A comparison of two vectors is the conjunction over all positions of a per-bit
formula.  The domain is exact for the straight-line bitwise code of bitboard.rs, so identities
proved in it hold for all 2^64 (pairs of) bitboards."""

M64 = (1 << 64) - 1


class CannotBit(Exception):
    pass


def const_bit(b):
    return ((), 1 if b else 0)


def var_bit(name, i):
    return (((name, i),), 0b10)


def _expand(term, atoms):
    """truth table of term over the atom list `atoms` (superset of term's atoms)"""
    tatoms, tt = term
    if tatoms == atoms:
        return tt
    idx = [atoms.index(a) for a in tatoms]
    out = 0
    for r in range(1 << len(atoms)):
        sub = 0
        for j, ai in enumerate(idx):
            if (r >> ai) & 1:
                sub |= 1 << j
        if (tt >> sub) & 1:
            out |= 1 << r
    return out


def _reduce(atoms, tt):
    atoms = list(atoms)
    changed = True
    while changed:
        changed = False
        n = len(atoms)
        for i in range(n):
            dep = False
            for r in range(1 << n):
                if not (r >> i) & 1 and ((tt >> r) & 1) != ((tt >> (r | (1 << i))) & 1):
                    dep = True
                    break
            if not dep:
                out = 0
                k = 0
                for r in range(1 << n):
                    if not (r >> i) & 1:
                        if (tt >> r) & 1:
                            out |= 1 << k
                        k += 1
                tt = out
                atoms.pop(i)
                changed = True
                break
    return (tuple(atoms), tt)


def combine(op, a, b=None):
    if b is None:
        atoms = list(a[0])
        n = len(atoms)
        full = (1 << (1 << n)) - 1
        return _reduce(atoms, full & ~a[1])
    atoms = sorted(set(a[0]) | set(b[0]))
    if len(atoms) > 10:
        raise CannotBit("bit term depends on more than 10 input bits")
    atoms_t = tuple(atoms)
    ta = _expand((a[0], a[1]), atoms_t) if a[0] != atoms_t else a[1]
    tb = _expand((b[0], b[1]), atoms_t) if b[0] != atoms_t else b[1]
    full = (1 << (1 << len(atoms))) - 1
    if op == "and":
        tt = ta & tb
    elif op == "or":
        tt = ta | tb
    elif op == "xor":
        tt = ta ^ tb
    elif op == "xnor":
        tt = full & ~(ta ^ tb)
    elif op == "imp":
        tt = full & (~ta | tb)
    else:
        raise CannotBit(op)
    return _reduce(atoms_t, tt)


def vec_const(v):
    return [const_bit((v >> i) & 1) for i in range(64)]


def vec_var(name):
    return [var_bit(name, i) for i in range(64)]


class BitEval:
    """evaluate u64-level reconstructed expressions to bit vectors / predicates"""

    def __init__(self, env):
        self.env = env          # leaf expr -> vector

    def bytes_of(self, e):
        """[u8; 8]-valued expression -> list of eight 8-bit vectors (element k = bits 8k..8k+7 for the little-endian
        split of a word)"""
        k = e[0]
        if k == "call":
            tail = e[1].rsplit("::", 1)[-1]
            if tail in ("to_le_bytes", "to_be_bytes") and len(e[2]) == 1:
                a = self.vec(e[2][0])
                if len(a) != 64:
                    raise CannotBit("byte split of a %d-bit value" % len(a))
                bs = [a[8 * i:8 * i + 8] for i in range(8)]
                return bs if tail == "to_le_bytes" else bs[::-1]
        if k == "with" and e[2][0] == "i" and e[2][1][0] == "int":
            bs = list(self.bytes_of(e[1]))
            i = e[2][1][1]
            v = self.vec(e[3])
            if not (0 <= i < len(bs)) or len(v) != 8:
                raise CannotBit("byte array update out of range")
            bs[i] = v
            return bs
        raise CannotBit("cannot evaluate byte array %s" % (str(e)[:80]))

    def vec(self, e):
        if e in self.env:
            return self.env[e]
        k = e[0]
        if k == "index" and e[2][0] == "int":
            bs = self.bytes_of(e[1])
            if not 0 <= e[2][1] < len(bs):
                raise CannotBit("byte index out of range")
            return bs[e[2][1]]
        if k == "int":
            return vec_const(e[1] & M64)
        if k == "bbconst":
            return vec_const(e[1])
        if k in ("bb", "raw", "cast"):
            return self.vec(e[-1] if k != "cast" else e[2])
        if k == "field" and e[2] == "0":
            return self.vec(e[1])
        if k == "with" and e[2] == ("f", "0"):
            return self.vec(e[3])          # a newtype whose only field was assigned
        if k == "bin":
            op = e[1]
            if op in ("BitAnd", "BitOr", "BitXor"):
                a, b = self.vec(e[2]), self.vec(e[3])
                o = {"BitAnd": "and", "BitOr": "or", "BitXor": "xor"}[op]
                return [combine(o, x, y) for x, y in zip(a, b)]
            if op in ("Shl", "Shr") and e[3][0] == "int":
                a = self.vec(e[2])
                n = e[3][1]
                z = const_bit(0)
                if op == "Shl":
                    return [z] * n + a[:64 - n]
                return a[n:] + [z] * n
            if op in ("Add", "Sub"):
                return self.addsub(op, self.vec(e[2]), self.vec(e[3]))
            raise CannotBit("binary %s" % op)
        if k == "un" and e[1] == "Not":
            return [combine("not", x) for x in self.vec(e[2])]
        if k == "call":
            tail = e[1].rsplit("::", 1)[-1]
            if tail == "swap_bytes":
                a = self.vec(e[2][0])
                if len(a) != 64:
                    raise CannotBit("swap_bytes of a %d-bit value" % len(a))
                return [a[i ^ 56] for i in range(64)]
            if tail == "reverse_bits":
                a = self.vec(e[2][0])
                return a[::-1]
            if tail in ("from_le_bytes", "from_be_bytes") and len(e[2]) == 1:
                bs = self.bytes_of(e[2][0])
                if tail == "from_be_bytes":
                    bs = bs[::-1]
                return [x for b_ in bs for x in b_]
            if tail in ("wrapping_sub", "wrapping_add") and len(e[2]) == 2:
                return self.addsub("Sub" if tail == "wrapping_sub" else "Add", self.vec(e[2][0]), self.vec(e[2][1]))
        raise CannotBit("cannot bit-evaluate %s" % (str(e)[:80]))

    def addsub(self, op, a, b):
        """ripple-carry addition / subtraction modulo 2^64; exact, but only attempted while the carry chain stays a
        function of few input bits (constants absorb it)"""
        out = []
        carry = const_bit(0)
        for i in range(64):
            x, y = a[i], b[i]
            s = combine("xor", combine("xor", x, y), carry)
            if op == "Add":
                carry = combine("or", combine("and", x, y), combine("and", carry, combine("xor", x, y)))
            else:
                nx = combine("not", x)
                carry = combine("or", combine("and", nx, y), combine("and", carry, combine("not", combine("xor", x, y))))
            if len(carry[0]) > 10 or len(s[0]) > 12:
                raise CannotBit("carry chain of %s depends on too many input bits" % op)
            out.append(s)
        return out

    def pred(self, e):
        """Boolean expression -> list of per-position formulas that must all hold, or ('not', list)"""
        k = e[0]
        if k == "bin" and e[1] in ("Eq", "Ne"):
            a, b = self.vec(e[2]), self.vec(e[3])
            allf = [combine("xnor", x, y) for x, y in zip(a, b)]
            return ("all", allf) if e[1] == "Eq" else ("notall", allf)
        if k == "un" and e[1] == "Not":
            p = self.pred(e[2])
            return ("notall" if p[0] == "all" else "all", p[1])
        raise CannotBit("cannot evaluate predicate %s" % (str(e)[:80]))
