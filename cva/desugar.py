"""MIR-to-MIR desugaring of iterator terminals and Option/bool combinators.

`S.iter().map(f).filter(p).fold(init, g)`, `.any(c)`, `.all(c)`, `.for_each(c)`, `.find(c)`,
`.collect::<BitBoard>()`, and `opt.map(c)`, `opt.map_or(d, c)`, `opt.and_then(c)`, `opt.is_some_and(c)`,
`opt.unwrap_or(d)`, `opt.filter(c)`, `b.then_some(v)`, `b.then(c)` are library calls whose bodies live in core;
the analyser would see one opaque call.  Their semantics is fixed by the standard library, so each is rewritten
into the loop / match it abbreviates, in the dumped MIR itself, with closure calls as direct calls of the closure
body (callee {"clos": local}).  After the pass a combinator chain and the hand-written loop it replaces produce
the same paths, so every rule sees one shape regardless of which style the source uses.

The rewrite is purely structural (def-use on MIR locals); when a chain cannot be traced to an iterator source it is
left untouched (the caller then sees the opaque call and fails closed where it matters)."""
import copy

ITER = "core::iter::traits::iterator::Iterator::"
NEXT_RES = "<_ as core::iter::traits::iterator::Iterator>::next"
BB = "cozy_chess_types::bitboard::BitBoard"
SQ = "cozy_chess_types::square::Square"

ITER_TERMINALS = ("fold", "any", "all", "for_each", "find", "collect", "count", "try_fold", "try_for_each", "position")
ITER_ADAPTORS = ("map", "filter", "copied", "cloned", "flatten", "filter_map", "enumerate", "flat_map")
OPT_COMBINATORS = ("map", "map_or", "and_then", "is_some_and", "unwrap_or", "filter", "map_or_else", "ok_or", "transpose", "and", "or")
BOOL_COMBINATORS = ("then_some", "then")


def decl_of(t):
    return t["callee"].get("fn") if t["k"] == "call" else None


def tail(name):
    return name.rsplit("::", 1)[-1]


def is_iter_decl(d, names):
    return d is not None and d.startswith(ITER) and tail(d) in names


def opt_method(d):
    """'map' for core::option::Option::<T>::map style declared paths"""
    if d is None:
        return None
    if d.startswith("core::option::Option::<") or d.startswith("core::option::Option<"):
        m = tail(d)
        if m in OPT_COMBINATORS:
            return m
    return None


RES_COMBINATORS = ("or_else", "and_then", "map", "map_err", "ok")


def res_method(d):
    if d is None:
        return None
    if d.startswith("core::result::Result<") or d.startswith("core::result::Result::<"):
        m = tail(d)
        if m in RES_COMBINATORS:
            return m
    return None


def bool_method(d):
    if d is None:
        return None
    if d.startswith("core::bool::<impl bool>::") or d.startswith("bool::") or d.startswith("<bool>::"):
        m = tail(d)
        if m in BOOL_COMBINATORS:
            return m
    return None


class Rewriter:
    def __init__(self, j, facts_bodies):
        self.j = j
        self.blocks = j["blocks"]
        self.locals = j["locals"]
        self.bodies = facts_bodies
        self.count = 0
        self.defs = None

    # ------------------------------------------------------------ helpers
    def new_local(self, ty, name=None):
        self.locals.append({"ty": ty, "name": name, "mut": True, "synthetic": True})
        return len(self.locals) - 1

    def new_block(self, stmts, term):
        self.blocks.append({"stmts": stmts, "term": term, "cleanup": False, "synthetic": True})
        return len(self.blocks) - 1

    @staticmethod
    def pl(l, p=()):
        return {"l": l, "p": list(p)}

    def mv(self, l, p=()):
        return {"k": "move", "pl": self.pl(l, p)}

    def cp(self, l, p=()):
        return {"k": "copy", "pl": self.pl(l, p)}

    def assign(self, l, rv, sp):
        return {"k": "assign", "pl": self.pl(l), "rv": rv, "sp": sp}

    def assign_pl(self, pl, rv, sp):
        return {"k": "assign", "pl": pl, "rv": rv, "sp": sp}

    def use(self, op):
        return {"k": "use", "op": op}

    def goto(self, t, sp):
        return {"k": "goto", "t": t, "sp": sp}

    def build_defs(self):
        d = {}
        for bi, blk in enumerate(self.blocks):
            if blk["cleanup"]:
                continue
            for si, s in enumerate(blk["stmts"]):
                if s["k"] == "assign":
                    l = s["pl"]["l"]
                    d.setdefault(l, []).append(("stmt", bi, si) if not s["pl"]["p"] else ("partial", bi, si))
            t = blk["term"]
            if t is not None and t["k"] == "call":
                l = t["dest"]["l"]
                d.setdefault(l, []).append(("call", bi) if not t["dest"]["p"] else ("partial", bi, -1))
        self.defs = d

    def unique_def(self, l):
        ds = self.defs.get(l, [])
        if len(ds) == 1:
            return ds[0]
        return None

    def local_of(self, op):
        if op["k"] in ("move", "copy") and not op["pl"]["p"]:
            return op["pl"]["l"]
        return None

    def ty(self, l):
        return self.locals[l]["ty"]

    def closure_key(self, op):
        """body key of the closure held by operand `op` (a const closure or a local with one aggregate def)"""
        if op["k"] == "const":
            return op.get("closure")
        l = self.local_of(op)
        if l is None:
            return None
        d = self.unique_def(l)
        if d and d[0] == "stmt":
            rv = self.blocks[d[1]]["stmts"][d[2]]["rv"]
            if rv["k"] == "agg" and rv.get("ak") == "closure":
                return rv["closure"]
            if rv["k"] == "use":
                return self.closure_key(rv["op"])
        return None

    def closure_ret_ty(self, op):
        k = self.closure_key(op)
        b = self.bodies.get(k) if k else None
        if b is None:
            # a function item: its own body's return type, or the one spelled in the item's type
            if op["k"] == "const" and "fnref" in op:
                r = op["fnref"]
                fb = self.bodies.get(r.get("res") or r["fn"])
                if fb is not None and not fb.get("generics"):
                    return fb["locals"][0]["ty"]
                ty = op.get("ty", "")
                if ty.startswith("fn(") and ") -> " in ty and ty.endswith("}") and not r.get("rargs") and not r.get("targs"):
                    return ty[ty.index(") -> ") + 5:ty.rindex(" {")]
            return "?"
        return b["locals"][0]["ty"]

    def closure_local(self, op, pre, sp):
        """a local holding the callable; const operands are first stored"""
        l = self.local_of(op)
        if l is not None:
            return l
        n = self.new_local(op.get("ty", "?"))
        pre.append(self.assign(n, self.use(op), sp))
        return n

    def closure_call(self, clos_local, args, dest, target, sp, pre):
        """stmts `pre` get the env reference; returns the call terminator"""
        r = self.new_local("&mut " + self.ty(clos_local))
        st = self.assign(r, {"k": "ref", "mut": True, "pl": self.pl(clos_local)}, sp)
        st["env"] = True           # the borrow of the callable itself; what the callee may write is derived from its body
        pre.append(st)
        return {"k": "call", "callee": {"clos": clos_local, "targs": []},
                "args": [self.mv(r)] + args, "dest": self.pl(dest), "t": target, "sp": sp}

    # ------------------------------------------------------------ iterator chains
    def trace_iter(self, op, depth=0):
        """-> (iterator local, [stages outermost last], [adaptor call blocks]) or None"""
        l = self.local_of(op)
        if l is None or depth > 8:
            return None
        d = self.unique_def(l)
        if d is None:
            return None
        if d[0] == "stmt":
            rv = self.blocks[d[1]]["stmts"][d[2]]["rv"]
            if rv["k"] == "ref" and not rv["pl"]["p"]:
                return self.trace_iter(self.mv(rv["pl"]["l"]), depth + 1)
            if rv["k"] == "ref" and rv["pl"]["p"] == ["deref"]:
                return self.trace_iter(self.mv(rv["pl"]["l"]), depth + 1)
            if rv["k"] == "use":
                return self.trace_iter(rv["op"], depth + 1)
            return None
        if d[0] != "call":
            return None
        t = self.blocks[d[1]]["term"]
        dn = decl_of(t)
        if is_iter_decl(dn, ITER_ADAPTORS):
            inner = self.trace_iter(t["args"][0], depth + 1)
            if inner is None:
                return None
            src, stages, blks = inner
            m = tail(dn)
            if m in ("copied", "cloned", "flatten", "enumerate"):
                stages = stages + [(m, None)]
            elif m == "flat_map":
                if self.closure_ret_ty(t["args"][1]).startswith("core::option::Option<"):
                    stages = stages + [("map", t["args"][1]), ("flatten", None)]
                else:
                    # the closure yields an iterator per element: a nested loop (only when the closure body is a
                    # straight line that can be spliced in here, see inline_closure)
                    stages = stages + [("flat_iter", t["args"][1])]
            else:
                stages = stages + [(m, t["args"][1])]
            return src, stages, blks + [d[1]]
        res = t["callee"].get("res") or dn or ""
        if dn == "core::iter::traits::collect::IntoIterator::into_iter":
            a = t["args"][0]
            al = self.local_of(a)
            # into_iter of something that already is a traced iterator chain: identity
            if al is not None:
                inner = self.trace_iter(a, depth + 1)
                if inner is not None:
                    src, stages, blks = inner
                    return src, stages, blks + [("identity", d[1])]
            return l, [], []
        if res.endswith("::iter") or res.endswith("::into_iter") or res.endswith("::iter_subsets") or res.endswith("::chars") or \
                res in ("str::split", "str::rsplit", "core::str::<impl str>::split", "core::str::<impl str>::rsplit"):
            return l, [], []
        return None

    def neutralise(self, blks, sp):
        """adaptor calls become moves of their receiver"""
        for b in blks:
            if isinstance(b, tuple):
                b = b[1]
            blk = self.blocks[b]
            t = blk["term"]
            if t["k"] != "call":
                continue
            blk["stmts"].append(self.assign_pl(t["dest"], self.use(t["args"][0]), t["sp"]))
            blk["term"] = self.goto(t["t"], t["sp"])

    def emit_stages(self, cur, x, stages, stage_clos, retry, sp):
        """append the adaptor stages to block `cur` (element in local x); a skipped element jumps to `retry`.
        -> (block to continue in, local holding the staged element)"""
        self.cont = retry          # where the terminal goes for the next element
        for (sm, cop), cl in zip(stages, stage_clos):
            if sm == "flat_iter":
                # inner = closure(x); for y in inner { ..rest.. }
                ckey = self.closure_key(cop)
                cur, inner = self.inline_closure(cl, ckey, [self.mv(x)], cur, sp)
                self.build_defs()
                tr = self.trace_iter(self.mv(inner))
                it2, stages2, blks2 = tr
                self.neutralise(blks2, sp)
                ity2 = self.source_item_ty(it2)
                pre2 = self.blocks[cur]["stmts"]
                clos2 = []
                for sm2, cop2 in stages2:
                    if sm2 == "enumerate":
                        c_ = self.new_local("usize", "index")
                        pre2.append(self.assign(c_, self.use({"k": "const", "ty": "usize", "v": 0}), sp))
                        clos2.append(c_)
                    else:
                        clos2.append(self.closure_local(cop2, pre2, sp) if cop2 is not None else None)
                opt2 = "core::option::Option<%s>" % ity2
                n2 = self.new_local(opt2)
                r2 = self.new_local("&mut " + self.ty(it2))
                d2 = self.new_local("isize")
                H2 = self.new_block([self.assign(r2, {"k": "ref", "mut": True, "pl": self.pl(it2)}, sp)], None)
                Sw2 = self.new_block([self.assign(d2, {"k": "discr", "pl": self.pl(n2), "of": opt2}, sp)], None)
                U2 = self.new_block([], {"k": "unreachable", "sp": sp})
                self.blocks[H2]["term"] = {"k": "call", "callee": {"fn": ITER + "next", "targs": [self.ty(it2)], "res": NEXT_RES, "rargs": []},
                                           "args": [self.mv(r2)], "dest": self.pl(n2), "t": Sw2, "sp": sp}
                y = self.new_local(ity2, "item")
                E2 = self.new_block([self.assign(y, self.use(self.cp(n2, [{"dc": 1, "n": "Some", "of": opt2}, {"f": 0, "n": "0", "of": opt2, "ty": ity2}])), sp)], None)
                self.blocks[Sw2]["term"] = {"k": "switch", "discr": self.mv(d2), "dty": "isize", "arms": [[0, retry], [1, E2]], "otherwise": U2, "sp": sp}
                self.blocks[cur]["term"] = self.goto(H2, sp)
                cur, x = self.emit_stages(E2, y, stages2, clos2, H2, sp)
                retry = H2
                self.cont = H2
                continue
            if sm in ("copied", "cloned"):
                if self.ty(x).startswith("&"):
                    y = self.new_local(self.ty(x)[1:].strip(), "item")
                    self.blocks[cur]["stmts"].append(self.assign(y, self.use(self.cp(x, ["deref"])), sp))
                    x = y
                continue
            if sm == "enumerate":
                # (index kept in a counter that starts at 0 and goes up by one per element, element)
                y = self.new_local("(usize, %s)" % self.ty(x), "indexed")
                self.blocks[cur]["stmts"].append(self.assign(y, {"k": "agg", "ak": "tuple", "ops": [self.cp(cl), self.mv(x)]}, sp))
                self.blocks[cur]["stmts"].append(self.assign(cl, {"k": "bin", "op": "Add", "a": self.cp(cl), "b": {"k": "const", "ty": "usize", "v": 1}, "aty": "usize"}, sp))
                x = y
                continue
            if sm == "map":
                y = self.new_local(self.closure_ret_ty(cop), "mapped")
                nxt = self.new_block([], None)
                self.blocks[cur]["term"] = self.closure_call(cl, [self.mv(x)], y, nxt, sp, self.blocks[cur]["stmts"])
                x = y
                cur = nxt
            elif sm == "filter":
                rx = self.new_local("&" + self.ty(x))
                tb = self.new_local("bool")
                self.blocks[cur]["stmts"].append(self.assign(rx, {"k": "ref", "mut": False, "pl": self.pl(x)}, sp))
                chk = self.new_block([], None)
                self.blocks[cur]["term"] = self.closure_call(cl, [self.mv(rx)], tb, chk, sp, self.blocks[cur]["stmts"])
                nxt = self.new_block([], None)
                self.blocks[chk]["term"] = {"k": "switch", "discr": self.mv(tb), "dty": "bool", "arms": [[0, retry]],
                                            "otherwise": nxt, "sp": sp}
                cur = nxt
            elif sm in ("flatten", "filter_map"):
                # items that are Options (by value or by reference): None is skipped, Some yields its payload
                if sm == "filter_map":
                    y = self.new_local(self.closure_ret_ty(cop), "mapped")
                    nxt = self.new_block([], None)
                    self.blocks[cur]["term"] = self.closure_call(cl, [self.mv(x)], y, nxt, sp, self.blocks[cur]["stmts"])
                    x = y
                    cur = nxt
                xty = self.ty(x)
                byref = xty.startswith("&")
                oty = xty[1:].strip() if byref else xty
                if not oty.startswith("core::option::Option<"):
                    oty = "core::option::Option<?>"
                inner = oty[len("core::option::Option<"):-1]
                d = self.new_local("isize")
                base = ["deref"] if byref else []
                self.blocks[cur]["stmts"].append(self.assign(d, {"k": "discr", "pl": self.pl(x, base), "of": oty}, sp))
                U = self.new_block([], {"k": "unreachable", "sp": sp})
                nxt = self.new_block([], None)
                self.blocks[cur]["term"] = {"k": "switch", "discr": self.mv(d), "dty": "isize", "arms": [[0, retry], [1, nxt]],
                                            "otherwise": U, "sp": sp}
                proj = base + [{"dc": 1, "n": "Some", "of": oty}, {"f": 0, "n": "0", "of": oty, "ty": inner}]
                if byref:
                    y = self.new_local("&" + inner, "item")
                    self.blocks[nxt]["stmts"].append(self.assign(y, {"k": "ref", "mut": False, "pl": self.pl(x, proj)}, sp))
                else:
                    y = self.new_local(inner, "item")
                    self.blocks[nxt]["stmts"].append(self.assign(y, self.use(self.cp(x, proj)), sp))
                x = y
                cur = nxt
        return cur, x

    def stages_ok(self, item_ty, stages):
        """the element types flowing through the stages are known well enough: flatten / filter_map only over Options
        (an iterator of iterators would need a nested loop, which is not modelled: leave the call alone)"""
        ty = item_ty
        for sm, cop in stages:
            if sm in ("copied", "cloned"):
                ty = ty[1:].strip() if ty.startswith("&") else ty
            elif sm == "map":
                ty = self.closure_ret_ty(cop)
            elif sm == "enumerate":
                ty = "(usize, %s)" % ty
            elif sm == "filter_map":
                r = self.closure_ret_ty(cop)
                if not r.startswith("core::option::Option<"):
                    return False
                ty = r[len("core::option::Option<"):-1]
            elif sm == "flatten":
                byref = ty.startswith("&")
                t0 = ty[1:].strip() if byref else ty
                if not t0.startswith("core::option::Option<"):
                    return False
                ty = ("&" if byref else "") + t0[len("core::option::Option<"):-1]
            elif sm == "flat_iter":
                inner = self.inner_chain_of(cop)
                if inner is None:
                    return False
                ty = inner
        return True

    # ------------------------------------------------------------ closures spliced into the caller
    def splicable(self, ckey):
        """a closure body that is one straight line of statements and calls (no branches, no loops, no drops)"""
        cb = self.bodies.get(ckey) if ckey else None
        if cb is None:
            return None
        seen = set()
        bi = 0
        order = []
        while True:
            if bi in seen or bi >= len(cb["blocks"]):
                return None
            seen.add(bi)
            blk = cb["blocks"][bi]
            if blk["cleanup"]:
                return None
            order.append(bi)
            t = blk["term"]
            if t["k"] == "return":
                return order
            if t["k"] == "goto":
                bi = t["t"]
            elif t["k"] == "call" and t.get("t") is not None and "fn" in t["callee"]:
                bi = t["t"]
            else:
                return None

    def inner_chain_of(self, cop):
        """for a flat_map closure: the element type of the iterator chain it returns, when that chain can be traced
        inside the closure body and the body can be spliced in; None otherwise"""
        ckey = self.closure_key(cop)
        if self.splicable(ckey) is None:
            return None
        import copy as _copy
        sub = Rewriter(_copy.deepcopy(self.bodies[ckey]), self.bodies)
        sub.build_defs()
        tr = sub.trace_iter(sub.mv(0))
        if tr is None:
            return None
        it, stages, blks = tr
        ity = sub.source_item_ty(it)
        for sm, c2 in stages:
            if sm in ("copied", "cloned") and ity == "?":
                return None
            if sm == "flat_iter":
                return None          # one level of nesting only
        if not sub.stages_ok(ity, stages):
            return None
        for sm, c2 in stages:
            if sm == "map":
                ity = sub.closure_ret_ty(c2)
            elif sm == "enumerate":
                ity = "(usize, %s)" % ity
        return ity

    def inline_closure(self, clos_local, ckey, args, cur, sp):
        """splice the (straight-line) body of closure `ckey`, held in `clos_local`, into block `cur` with the given
        argument operands; -> (block to continue in, local holding the closure's result)"""
        import copy as _copy
        cb = self.bodies[ckey]
        order = self.splicable(ckey)
        lmap = {}
        for i, lc in enumerate(cb["locals"]):
            if i == 1:
                continue
            lmap[i] = self.new_local(lc["ty"], (lc.get("name") or None))

        def rpl(pl):
            if pl["l"] == 1:
                pr = list(pl["p"])
                if pr and pr[0] == "deref":
                    pr = pr[1:]
                return {"l": clos_local, "p": _copy.deepcopy(pr)}
            return {"l": lmap[pl["l"]], "p": _copy.deepcopy(pl["p"])}

        def rop(op):
            if op["k"] in ("move", "copy"):
                return {"k": op["k"], "pl": rpl(op["pl"])}
            return _copy.deepcopy(op)

        def rrv(rv):
            rv = _copy.deepcopy(rv)
            for key in ("op", "a", "b"):
                if key in rv and isinstance(rv[key], dict) and "k" in rv[key]:
                    rv[key] = rop(rv[key])
            if "ops" in rv:
                rv["ops"] = [rop(o) for o in rv["ops"]]
            if "pl" in rv:
                rv["pl"] = rpl(rv["pl"])
            return rv
        # arguments
        for k, a in enumerate(args):
            self.blocks[cur]["stmts"].append(self.assign(lmap[2 + k], self.use(a), sp))
        for bi in order:
            blk = cb["blocks"][bi]
            for s in blk["stmts"]:
                if s["k"] == "assign":
                    self.blocks[cur]["stmts"].append({"k": "assign", "pl": rpl(s["pl"]), "rv": rrv(s["rv"]), "sp": s.get("sp", sp)})
            t = blk["term"]
            if t["k"] == "call":
                nxt = self.new_block([], None)
                self.blocks[cur]["term"] = {"k": "call", "callee": _copy.deepcopy(t["callee"]), "args": [rop(a) for a in t["args"]],
                                            "dest": rpl(t["dest"]), "t": nxt, "sp": t.get("sp", sp)}
                cur = nxt
        return cur, lmap[0]

    def source_item_ty(self, it):
        ty = self.ty(it)
        if ty.startswith("core::array::iter::IntoIter<") and ", " in ty:
            return ty[len("core::array::iter::IntoIter<"):].rsplit(", ", 1)[0]
        if "BitBoardIter" in ty or ty == BB:
            return SQ
        if ty.startswith("core::str::iter::Chars<"):
            return "char"
        if ty.startswith("core::str::iter::Split<") or ty.startswith("core::str::iter::RSplit<"):
            return "&str"
        if ty.startswith("core::slice::iter::Iter<"):
            inner = ty[len("core::slice::iter::Iter<"):-1]
            inner = inner.split(", ", 1)[1] if inner.startswith("'") and ", " in inner else inner
            return "&" + inner
        return "?"

    def rewrite_next_on_chain(self, bi):
        """`chain.next()` inside an explicit loop, where chain = source.map(..).filter(..).flatten()...: pull from the
        source and run the stages here; a skipped element pulls again"""
        blk = self.blocks[bi]
        t = blk["term"]
        if t["t"] is None or blk.get("synthetic"):
            return False
        tr = self.trace_iter(t["args"][0])
        if tr is None:
            return False
        it, stages, ablks = tr
        if not stages:
            return False
        sp = t["sp"]
        dest = t["dest"]
        T = t["t"]
        item_ty = self.source_item_ty(it)
        for sm, _ in stages:
            if sm in ("copied", "cloned") and item_ty == "?":
                return False
            if sm == "enumerate":
                return False        # the index lives across pulls; explicit loops over enumerate() are modelled by the engine itself
        if not self.stages_ok(item_ty, stages):
            return False
        pre = []
        stage_clos = [self.closure_local(cop, pre, sp) if cop is not None else None for sm, cop in stages]
        if pre:
            # callables held in constants: stored once in front of the pull (re-executed per pull, harmless)
            blk["stmts"].extend(pre)
        opt_of = "core::option::Option<%s>" % item_ty
        n0 = self.new_local(opt_of)
        d = self.new_local("isize")
        x = self.new_local(item_ty, "item")
        none = {"k": "agg", "ak": "adt", "adt": "core::option::Option", "variant": "None", "vi": 0, "targs": [], "fields": [], "ops": []}
        U = self.new_block([], {"k": "unreachable", "sp": sp})
        N = self.new_block([self.assign_pl(dest, none, sp)], self.goto(T, sp))
        some_proj = [{"dc": 1, "n": "Some", "of": opt_of}, {"f": 0, "n": "0", "of": opt_of, "ty": item_ty}]
        S = self.new_block([self.assign(x, self.use(self.cp(n0, some_proj)), sp)], None)
        A = self.new_block([self.assign(d, {"k": "discr", "pl": self.pl(n0), "of": opt_of}, sp)],
                           {"k": "switch", "discr": self.mv(d), "dty": "isize", "arms": [[0, N], [1, S]], "otherwise": U, "sp": sp})
        cur, y = self.emit_stages(S, x, stages, stage_clos, bi, sp)
        self.blocks[cur]["stmts"].append(self.assign_pl(dest, {"k": "agg", "ak": "adt", "adt": "core::option::Option", "variant": "Some",
                                                              "vi": 1, "targs": [], "fields": ["0"], "ops": [self.mv(y)]}, sp))
        self.blocks[cur]["term"] = self.goto(T, sp)
        t2 = dict(t)
        t2["dest"] = self.pl(n0)
        t2["t"] = A
        t2["callee"] = {"fn": ITER + "next", "targs": [self.ty(it)], "res": NEXT_RES, "rargs": []}
        blk["term"] = t2
        blk["synthetic"] = True
        self.neutralise(ablks, sp)
        self.count += 1
        return True

    def option_source(self, op):
        """operand is an Option (possibly through `.into_iter()` / `.iter()`); -> (the Option operand, blocks to neutralise) or None"""
        l = self.local_of(op)
        if l is None:
            return None
        if self.ty(l).startswith("core::option::Option<"):
            return op, []
        d = self.unique_def(l)
        if d and d[0] == "call":
            t = self.blocks[d[1]]["term"]
            if decl_of(t) == "core::iter::traits::collect::IntoIterator::into_iter":
                a = t["args"][0]
                al = self.local_of(a)
                if al is not None and self.ty(al).startswith("core::option::Option<"):
                    return a, [d[1]]
        return None

    def rewrite_option_chain(self, bi):
        """`a.into_iter().chain(b)` over two Options is `[a, b].into_iter().flatten()`"""
        blk = self.blocks[bi]
        t = blk["term"]
        if t["t"] is None or len(t["args"]) != 2:
            return False
        s0, s1 = self.option_source(t["args"][0]), self.option_source(t["args"][1])
        if s0 is None or s1 is None:
            return False
        sp = t["sp"]
        oty = self.ty(self.local_of(s0[0]))
        if self.ty(self.local_of(s1[0])) != oty:
            return False
        arr = self.new_local("[%s; 2]" % oty)
        it = self.new_local("core::array::iter::IntoIter<%s, 2>" % oty)
        blk["stmts"].append(self.assign(arr, {"k": "agg", "ak": "array", "ty": oty, "ops": [s0[0], s1[0]]}, sp))
        fl = self.new_block([], {"k": "call", "callee": {"fn": ITER + "flatten", "targs": [], "res": ITER + "flatten", "rargs": []},
                                 "args": [self.mv(it)], "dest": t["dest"], "t": t["t"], "sp": sp})
        blk["term"] = {"k": "call", "callee": {"fn": "core::iter::traits::collect::IntoIterator::into_iter", "targs": ["[%s; 2]" % oty],
                                               "res": "<[T; N] as core::iter::traits::collect::IntoIterator>::into_iter", "rargs": []},
                       "args": [self.mv(arr)], "dest": self.pl(it), "t": fl, "sp": sp}
        # the option's own into_iter() calls now only move the option
        for b in s0[1] + s1[1]:
            tb = self.blocks[b]["term"]
            self.blocks[b]["stmts"].append(self.assign_pl(tb["dest"], self.use(tb["args"][0]), tb["sp"]))
            self.blocks[b]["term"] = self.goto(tb["t"], tb["sp"])
        # the operands handed to the array are the options themselves
        self.count += 1
        return True

    def rewrite_iter_terminal(self, bi):
        blk = self.blocks[bi]
        t = blk["term"]
        dn = decl_of(t)
        m = tail(dn)
        if t["t"] is None:
            return False
        tr = self.trace_iter(t["args"][0])
        if tr is None:
            return False
        it, stages, ablks = tr
        sp = t["sp"]
        dest = t["dest"]
        T = t["t"]
        item_ty = self.source_item_ty(it)
        if m == "collect":
            targs = t["callee"].get("targs") or []
            if len(targs) < 2 or targs[1] != BB:
                return False
        if m == "count":
            return False
        # copied/cloned over anything but a by-value source is not modelled
        for sm, _ in stages:
            if sm in ("copied", "cloned") and item_ty == "?":
                return False
        if not self.stages_ok(item_ty, stages):
            return False
        pre = []          # statements executed once, before the loop
        H_stmts = []
        # accumulator / result plumbing
        acc = None
        try_kind = None
        if m in ("try_fold", "try_for_each"):
            rty = self.closure_ret_ty(t["args"][2 if m == "try_fold" else 1])
            if rty.startswith("core::option::Option<"):
                try_kind = "option"
            elif rty.startswith("core::result::Result<"):
                try_kind = "result"
            else:
                return False            # only the Option- and Result-valued forms are rewritten
        if m in ("fold", "try_fold"):
            aty = self.locals[dest["l"]]["ty"] if not dest["p"] else "?"
            if m == "try_fold":
                if try_kind == "option":
                    aty = aty[len("core::option::Option<"):-1] if aty.startswith("core::option::Option<") else "?"
                else:
                    aty = "?"
            acc = self.new_local(aty, "fold_acc")
            pre.append(self.assign(acc, self.use(t["args"][1]), sp))
            clos = self.closure_local(t["args"][2], pre, sp)
        elif m == "collect":
            acc = self.new_local(BB, "collected")
            pre.append(self.assign(acc, self.use({"k": "const", "ty": BB, "v": 0}), sp))
            clos = None
        elif m == "position":
            # index of the first element the predicate accepts: a counter that starts at 0 and goes up by one per miss
            acc = self.new_local("usize", "position")
            pre.append(self.assign(acc, self.use({"k": "const", "ty": "usize", "v": 0}), sp))
            clos = self.closure_local(t["args"][1], pre, sp)
        else:
            clos = self.closure_local(t["args"][1], pre, sp)
        stage_clos = []
        for sm, cop in stages:
            if sm == "enumerate":
                c = self.new_local("usize", "index")
                pre.append(self.assign(c, self.use({"k": "const", "ty": "usize", "v": 0}), sp))
                stage_clos.append(c)
                continue
            stage_clos.append(self.closure_local(cop, pre, sp) if cop is not None else None)
        # header: n = next(&mut it)
        n = self.new_local("core::option::Option<%s>" % item_ty)
        r = self.new_local("&mut " + self.ty(it))
        d = self.new_local("isize")
        H = self.new_block([], None)
        Sw = self.new_block([], None)
        U = self.new_block([], {"k": "unreachable", "sp": sp})
        self.blocks[H]["stmts"] = [self.assign(r, {"k": "ref", "mut": True, "pl": self.pl(it)}, sp)]
        self.blocks[H]["term"] = {"k": "call", "callee": {"fn": ITER + "next", "targs": [self.ty(it)], "res": NEXT_RES,
                                                          "rargs": []},
                                  "args": [self.mv(r)], "dest": self.pl(n), "t": Sw, "sp": sp}
        opt_of = "core::option::Option<%s>" % item_ty
        self.blocks[Sw]["stmts"] = [self.assign(d, {"k": "discr", "pl": self.pl(n), "of": opt_of}, sp)]
        # exit block (iterator exhausted)
        if m in ("fold", "collect"):
            exit_stmts = [self.assign_pl(dest, self.use(self.mv(acc)), sp)]
        elif m in ("try_fold", "try_for_each"):
            if m == "try_fold":
                fin = self.mv(acc)
            else:
                fin = {"k": "const", "ty": "()", "zst": True}
            if try_kind == "option":
                exit_stmts = [self.assign_pl(dest, {"k": "agg", "ak": "adt", "adt": "core::option::Option", "variant": "Some",
                                                    "vi": 1, "targs": [], "fields": ["0"], "ops": [fin]}, sp)]
            else:
                exit_stmts = [self.assign_pl(dest, {"k": "agg", "ak": "adt", "adt": "core::result::Result", "variant": "Ok",
                                                    "vi": 0, "targs": [], "fields": ["0"], "ops": [fin]}, sp)]
        elif m == "any":
            exit_stmts = [self.assign_pl(dest, self.use({"k": "const", "ty": "bool", "v": 0}), sp)]
        elif m == "all":
            exit_stmts = [self.assign_pl(dest, self.use({"k": "const", "ty": "bool", "v": 1}), sp)]
        elif m == "for_each":
            exit_stmts = [self.assign_pl(dest, self.use({"k": "const", "ty": "()", "zst": True}), sp)]
        elif m == "position":
            exit_stmts = [self.assign_pl(dest, {"k": "agg", "ak": "adt", "adt": "core::option::Option", "variant": "None",
                                                "vi": 0, "targs": [], "fields": [], "ops": []}, sp)]
        elif m == "find":
            oty = self.locals[dest["l"]]["ty"] if not dest["p"] else opt_of
            exit_stmts = [self.assign_pl(dest, {"k": "agg", "ak": "adt", "adt": "core::option::Option", "variant": "None",
                                                "vi": 0, "targs": [], "fields": [], "ops": []}, sp)]
        X = self.new_block(exit_stmts, self.goto(T, sp))
        # element
        x = self.new_local(item_ty, "item")
        some_proj = [{"dc": 1, "n": "Some", "of": opt_of}, {"f": 0, "n": "0", "of": opt_of, "ty": item_ty}]
        E = self.new_block([self.assign(x, self.use(self.cp(n, some_proj)), sp)], None)
        self.blocks[Sw]["term"] = {"k": "switch", "discr": self.mv(d), "dty": "isize", "arms": [[0, X], [1, E]],
                                   "otherwise": U, "sp": sp}
        cur, x = self.emit_stages(E, x, stages, stage_clos, H, sp)
        C = self.cont          # the loop to continue with (the innermost one when a flat_map opened a nested loop)
        # terminal body
        if m == "fold":
            a2 = self.new_local(self.ty(acc))
            back = self.new_block([self.assign(acc, self.use(self.mv(a2)), sp)], self.goto(C, sp))
            self.blocks[cur]["term"] = self.closure_call(clos, [self.mv(acc), self.mv(x)], a2, back, sp, self.blocks[cur]["stmts"])
        elif m in ("try_fold", "try_for_each"):
            # acc = f(acc, x)?  : None / Err(e) leaves with that value, Some(v) / Ok(v) continues with v
            cop = t["args"][2 if m == "try_fold" else 1]
            rty = self.closure_ret_ty(cop)
            r2 = self.new_local(rty)
            d2 = self.new_local("isize")
            chk = self.new_block([self.assign(d2, {"k": "discr", "pl": self.pl(r2), "of": rty}, sp)], None)
            cargs = [self.mv(acc), self.mv(x)] if m == "try_fold" else [self.mv(x)]
            self.blocks[cur]["term"] = self.closure_call(clos, cargs, r2, chk, sp, self.blocks[cur]["stmts"])
            U2 = self.new_block([], {"k": "unreachable", "sp": sp})
            if try_kind == "option":
                brk = self.new_block([self.assign_pl(dest, {"k": "agg", "ak": "adt", "adt": "core::option::Option", "variant": "None",
                                                            "vi": 0, "targs": [], "fields": [], "ops": []}, sp)], self.goto(T, sp))
                inner_ty = rty[len("core::option::Option<"):-1]
                cproj = [{"dc": 1, "n": "Some", "of": rty}, {"f": 0, "n": "0", "of": rty, "ty": inner_ty}]
                arms = [[0, brk], [1, None]]
            else:
                erx = self.new_local("?", "err")
                erp = [{"dc": 1, "n": "Err", "of": rty}, {"f": 0, "n": "0", "of": rty, "ty": "?"}]
                brk = self.new_block([self.assign(erx, self.use(self.cp(r2, erp)), sp),
                                      self.assign_pl(dest, {"k": "agg", "ak": "adt", "adt": "core::result::Result", "variant": "Err",
                                                            "vi": 1, "targs": [], "fields": ["0"], "ops": [self.mv(erx)]}, sp)], self.goto(T, sp))
                cproj = [{"dc": 0, "n": "Ok", "of": rty}, {"f": 0, "n": "0", "of": rty, "ty": "?"}]
                arms = [[1, brk], [0, None]]
            if m == "try_fold":
                cont = self.new_block([self.assign(acc, self.use(self.cp(r2, cproj)), sp)], self.goto(C, sp))
            else:
                cont = C
            arms = sorted([[v_, (cont if b_ is None else b_)] for v_, b_ in arms])
            self.blocks[chk]["term"] = {"k": "switch", "discr": self.mv(d2), "dty": "isize", "arms": arms, "otherwise": U2, "sp": sp}
        elif m == "collect":
            if self.ty(x) == BB:
                b2 = x
                nxt = cur
            else:
                b2 = self.new_local(BB)
                nxt = self.new_block([], None)
                self.blocks[cur]["term"] = {"k": "call", "callee": {"fn": SQ + "::bitboard", "targs": [], "res": SQ + "::bitboard", "rargs": []},
                                            "args": [self.mv(x)], "dest": self.pl(b2), "t": nxt, "sp": sp}
            a2 = self.new_local(BB)
            back = self.new_block([self.assign(acc, self.use(self.mv(a2)), sp)], self.goto(C, sp))
            orname = "<%s as core::ops::BitOr>::bitor" % BB
            self.blocks[nxt]["term"] = {"k": "call", "callee": {"fn": "core::ops::bit::BitOr::bitor", "targs": [BB, BB], "res": orname, "rargs": []},
                                        "args": [self.mv(acc), self.mv(b2)], "dest": self.pl(a2), "t": back, "sp": sp}
        elif m in ("any", "all"):
            tb = self.new_local("bool")
            chk = self.new_block([], None)
            self.blocks[cur]["term"] = self.closure_call(clos, [self.mv(x)], tb, chk, sp, self.blocks[cur]["stmts"])
            val = 1 if m == "any" else 0
            hit = self.new_block([self.assign_pl(dest, self.use({"k": "const", "ty": "bool", "v": val}), sp)], self.goto(T, sp))
            if m == "any":
                self.blocks[chk]["term"] = {"k": "switch", "discr": self.mv(tb), "dty": "bool", "arms": [[0, C]], "otherwise": hit, "sp": sp}
            else:
                self.blocks[chk]["term"] = {"k": "switch", "discr": self.mv(tb), "dty": "bool", "arms": [[0, hit]], "otherwise": C, "sp": sp}
        elif m == "position":
            tb = self.new_local("bool")
            chk = self.new_block([], None)
            self.blocks[cur]["term"] = self.closure_call(clos, [self.mv(x)], tb, chk, sp, self.blocks[cur]["stmts"])
            hit = self.new_block([self.assign_pl(dest, {"k": "agg", "ak": "adt", "adt": "core::option::Option", "variant": "Some",
                                                        "vi": 1, "targs": [], "fields": ["0"], "ops": [self.cp(acc)]}, sp)], self.goto(T, sp))
            miss = self.new_block([self.assign(acc, {"k": "bin", "op": "Add", "a": self.cp(acc), "b": {"k": "const", "ty": "usize", "v": 1}, "aty": "usize"}, sp)],
                                  self.goto(C, sp))
            self.blocks[chk]["term"] = {"k": "switch", "discr": self.mv(tb), "dty": "bool", "arms": [[0, miss]], "otherwise": hit, "sp": sp}
        elif m == "for_each":
            u = self.new_local("()")
            self.blocks[cur]["term"] = self.closure_call(clos, [self.mv(x)], u, C, sp, self.blocks[cur]["stmts"])
        elif m == "find":
            rx = self.new_local("&" + self.ty(x))
            tb = self.new_local("bool")
            self.blocks[cur]["stmts"].append(self.assign(rx, {"k": "ref", "mut": False, "pl": self.pl(x)}, sp))
            chk = self.new_block([], None)
            self.blocks[cur]["term"] = self.closure_call(clos, [self.mv(rx)], tb, chk, sp, self.blocks[cur]["stmts"])
            hit = self.new_block([self.assign_pl(dest, {"k": "agg", "ak": "adt", "adt": "core::option::Option", "variant": "Some",
                                                        "vi": 1, "targs": [], "fields": ["0"], "ops": [self.mv(x)]}, sp)], self.goto(T, sp))
            self.blocks[chk]["term"] = {"k": "switch", "discr": self.mv(tb), "dty": "bool", "arms": [[0, C]], "otherwise": hit, "sp": sp}
        # entry: the original block now runs the preamble and jumps to the header
        blk["stmts"].extend(pre)
        blk["term"] = self.goto(H, sp)
        self.neutralise(ablks, sp)
        self.count += 1
        return True

    # ------------------------------------------------------------ Option / bool combinators
    def rewrite_option(self, bi, m):
        blk = self.blocks[bi]
        t = blk["term"]
        if t["t"] is None:
            return False
        sp = t["sp"]
        dest = t["dest"]
        T = t["t"]
        a0 = t["args"][0]
        pre = blk["stmts"]
        o = self.local_of(a0)
        if o is None:
            if a0["k"] == "const":
                return False
            o = self.new_local("?")
            pre.append(self.assign(o, self.use(a0), sp))
        oty = self.ty(o)
        if not oty.startswith("core::option::Option<"):
            # receiver type unknown (synthetic temp) : take it from the callee's Self type
            oty = "core::option::Option<?>"
        inner_ty = oty[len("core::option::Option<"):-1]
        d = self.new_local("isize")
        x = self.new_local(inner_ty, "some")
        some_proj = [{"dc": 1, "n": "Some", "of": oty}, {"f": 0, "n": "0", "of": oty, "ty": inner_ty}]
        U = self.new_block([], {"k": "unreachable", "sp": sp})

        def some(op):
            return {"k": "agg", "ak": "adt", "adt": "core::option::Option", "variant": "Some", "vi": 1, "targs": [],
                    "fields": ["0"], "ops": [op]}
        none = {"k": "agg", "ak": "adt", "adt": "core::option::Option", "variant": "None", "vi": 0, "targs": [],
                "fields": [], "ops": []}
        N = self.new_block([], self.goto(T, sp))
        S = self.new_block([self.assign(x, self.use(self.cp(o, some_proj)), sp)], self.goto(T, sp))
        if m == "map":
            cl = self.closure_local(t["args"][1], pre, sp)
            y = self.new_local(self.closure_ret_ty(t["args"][1]))
            S2 = self.new_block([self.assign_pl(dest, some(self.mv(y)), sp)], self.goto(T, sp))
            self.blocks[S]["term"] = self.closure_call(cl, [self.mv(x)], y, S2, sp, self.blocks[S]["stmts"])
            self.blocks[N]["stmts"].append(self.assign_pl(dest, none, sp))
        elif m in ("map_or", "map_or_else"):
            cl = self.closure_local(t["args"][2], pre, sp)
            if m == "map_or":
                dv = self.new_local("?")
                pre.append(self.assign(dv, self.use(t["args"][1]), sp))
                self.blocks[N]["stmts"].append(self.assign_pl(dest, self.use(self.mv(dv)), sp))
            else:
                dcl = self.closure_local(t["args"][1], pre, sp)
                N2 = self.new_block([], self.goto(T, sp))
                tmp = self.new_local("?")
                self.blocks[N]["term"] = self.closure_call(dcl, [], tmp, N2, sp, self.blocks[N]["stmts"])
                self.blocks[N2]["stmts"].append(self.assign_pl(dest, self.use(self.mv(tmp)), sp))
            y = self.new_local(self.closure_ret_ty(t["args"][2]))
            S2 = self.new_block([self.assign_pl(dest, self.use(self.mv(y)), sp)], self.goto(T, sp))
            self.blocks[S]["term"] = self.closure_call(cl, [self.mv(x)], y, S2, sp, self.blocks[S]["stmts"])
        elif m in ("and_then", "is_some_and"):
            cl = self.closure_local(t["args"][1], pre, sp)
            y = self.new_local(self.closure_ret_ty(t["args"][1]))
            S2 = self.new_block([self.assign_pl(dest, self.use(self.mv(y)), sp)], self.goto(T, sp))
            self.blocks[S]["term"] = self.closure_call(cl, [self.mv(x)], y, S2, sp, self.blocks[S]["stmts"])
            if m == "and_then":
                self.blocks[N]["stmts"].append(self.assign_pl(dest, none, sp))
            else:
                self.blocks[N]["stmts"].append(self.assign_pl(dest, self.use({"k": "const", "ty": "bool", "v": 0}), sp))
        elif m in ("and", "or"):
            # a.and(b): b if a is Some, else None;  a.or(b): a if it is Some, else b  (b is evaluated by the caller)
            dv = self.new_local("?")
            pre.append(self.assign(dv, self.use(t["args"][1]), sp))
            if m == "and":
                self.blocks[S]["stmts"].append(self.assign_pl(dest, self.use(self.mv(dv)), sp))
                self.blocks[N]["stmts"].append(self.assign_pl(dest, none, sp))
            else:
                self.blocks[S]["stmts"].append(self.assign_pl(dest, some(self.mv(x)), sp))
                self.blocks[N]["stmts"].append(self.assign_pl(dest, self.use(self.mv(dv)), sp))
        elif m == "unwrap_or":
            dv = self.new_local("?")
            pre.append(self.assign(dv, self.use(t["args"][1]), sp))
            self.blocks[S]["stmts"].append(self.assign_pl(dest, self.use(self.mv(x)), sp))
            self.blocks[N]["stmts"].append(self.assign_pl(dest, self.use(self.mv(dv)), sp))
        elif m == "unwrap_or_else":
            dcl = self.closure_local(t["args"][1], pre, sp)
            self.blocks[S]["stmts"].append(self.assign_pl(dest, self.use(self.mv(x)), sp))
            N2 = self.new_block([], self.goto(T, sp))
            tmp = self.new_local("?")
            self.blocks[N]["term"] = self.closure_call(dcl, [], tmp, N2, sp, self.blocks[N]["stmts"])
            self.blocks[N2]["stmts"].append(self.assign_pl(dest, self.use(self.mv(tmp)), sp))
        elif m == "filter":
            cl = self.closure_local(t["args"][1], pre, sp)
            rx = self.new_local("&" + inner_ty)
            tb = self.new_local("bool")
            self.blocks[S]["stmts"].append(self.assign(rx, {"k": "ref", "mut": False, "pl": self.pl(x)}, sp))
            chk = self.new_block([], None)
            self.blocks[S]["term"] = self.closure_call(cl, [self.mv(rx)], tb, chk, sp, self.blocks[S]["stmts"])
            keep = self.new_block([self.assign_pl(dest, some(self.mv(x)), sp)], self.goto(T, sp))
            self.blocks[chk]["term"] = {"k": "switch", "discr": self.mv(tb), "dty": "bool", "arms": [[0, N]], "otherwise": keep, "sp": sp}
            self.blocks[N]["stmts"].append(self.assign_pl(dest, none, sp))
        elif m == "ok_or":
            # Some(x) => Ok(x), None => Err(e)
            ev = self.new_local("?")
            pre.append(self.assign(ev, self.use(t["args"][1]), sp))

            def res(variant, vi, op):
                return {"k": "agg", "ak": "adt", "adt": "core::result::Result", "variant": variant, "vi": vi, "targs": [], "fields": ["0"], "ops": [op]}
            self.blocks[S]["stmts"].append(self.assign_pl(dest, res("Ok", 0, self.mv(x)), sp))
            self.blocks[N]["stmts"].append(self.assign_pl(dest, res("Err", 1, self.mv(ev)), sp))
        elif m == "transpose":
            # None => Ok(None), Some(Ok(x)) => Ok(Some(x)), Some(Err(e)) => Err(e)
            if not inner_ty.startswith("core::result::Result<"):
                return False

            def res(variant, vi, op):
                return {"k": "agg", "ak": "adt", "adt": "core::result::Result", "variant": variant, "vi": vi, "targs": [], "fields": ["0"], "ops": [op]}
            nn = self.new_local("?")
            self.blocks[N]["stmts"].append(self.assign(nn, none, sp))
            self.blocks[N]["stmts"].append(self.assign_pl(dest, res("Ok", 0, self.mv(nn)), sp))
            d2 = self.new_local("isize")
            self.blocks[S]["stmts"].append(self.assign(d2, {"k": "discr", "pl": self.pl(x), "of": inner_ty}, sp))
            okx = self.new_local("?", "ok")
            sm = self.new_local("?")
            erx = self.new_local("?", "err")
            okp = [{"dc": 0, "n": "Ok", "of": inner_ty}, {"f": 0, "n": "0", "of": inner_ty, "ty": "?"}]
            erp = [{"dc": 1, "n": "Err", "of": inner_ty}, {"f": 0, "n": "0", "of": inner_ty, "ty": "?"}]
            OKB = self.new_block([self.assign(okx, self.use(self.cp(x, okp)), sp), self.assign(sm, some(self.mv(okx)), sp),
                                  self.assign_pl(dest, res("Ok", 0, self.mv(sm)), sp)], self.goto(T, sp))
            ERB = self.new_block([self.assign(erx, self.use(self.cp(x, erp)), sp), self.assign_pl(dest, res("Err", 1, self.mv(erx)), sp)], self.goto(T, sp))
            U3 = self.new_block([], {"k": "unreachable", "sp": sp})
            self.blocks[S]["term"] = {"k": "switch", "discr": self.mv(d2), "dty": "isize", "arms": [[0, OKB], [1, ERB]], "otherwise": U3, "sp": sp}
        else:
            return False
        pre.append(self.assign(d, {"k": "discr", "pl": self.pl(o), "of": oty}, sp))
        blk["term"] = {"k": "switch", "discr": self.mv(d), "dty": "isize", "arms": [[0, N], [1, S]], "otherwise": U, "sp": sp}
        self.count += 1
        return True

    def rewrite_result(self, bi, m):
        """Result::or_else / and_then / map as the match they abbreviate"""
        blk = self.blocks[bi]
        t = blk["term"]
        if t["t"] is None:
            return False
        sp = t["sp"]
        dest = t["dest"]
        T = t["t"]
        a0 = t["args"][0]
        pre = blk["stmts"]
        o = self.local_of(a0)
        if o is None:
            if a0["k"] == "const":
                return False
            o = self.new_local("?")
            pre.append(self.assign(o, self.use(a0), sp))
        rty = self.ty(o)
        if not rty.startswith("core::result::Result<"):
            rty = "core::result::Result<?, ?>"
        d = self.new_local("isize")
        okx = self.new_local("?", "ok")
        erx = self.new_local("?", "err")
        okp = [{"dc": 0, "n": "Ok", "of": rty}, {"f": 0, "n": "0", "of": rty, "ty": "?"}]
        erp = [{"dc": 1, "n": "Err", "of": rty}, {"f": 0, "n": "0", "of": rty, "ty": "?"}]

        def mk(variant, vi, op):
            return {"k": "agg", "ak": "adt", "adt": "core::result::Result", "variant": variant, "vi": vi, "targs": [], "fields": ["0"], "ops": [op]}
        U = self.new_block([], {"k": "unreachable", "sp": sp})
        OKB = self.new_block([self.assign(okx, self.use(self.cp(o, okp)), sp)], self.goto(T, sp))
        ERB = self.new_block([self.assign(erx, self.use(self.cp(o, erp)), sp)], self.goto(T, sp))
        if m == "ok":
            # Ok(x) => Some(x), Err(_) => None
            self.blocks[OKB]["stmts"].append(self.assign_pl(dest, {"k": "agg", "ak": "adt", "adt": "core::option::Option", "variant": "Some", "vi": 1,
                                                                    "targs": [], "fields": ["0"], "ops": [self.mv(okx)]}, sp))
            self.blocks[ERB]["stmts"] = [self.assign_pl(dest, {"k": "agg", "ak": "adt", "adt": "core::option::Option", "variant": "None", "vi": 0,
                                                               "targs": [], "fields": [], "ops": []}, sp)]
            pre.append(self.assign(d, {"k": "discr", "pl": self.pl(o), "of": rty}, sp))
            blk["term"] = {"k": "switch", "discr": self.mv(d), "dty": "isize", "arms": [[0, OKB], [1, ERB]], "otherwise": U, "sp": sp}
            self.count += 1
            return True
        cl = self.closure_local(t["args"][1], pre, sp)
        y = self.new_local(self.closure_ret_ty(t["args"][1]))
        if m == "or_else":
            self.blocks[OKB]["stmts"].append(self.assign_pl(dest, mk("Ok", 0, self.mv(okx)), sp))
            E2 = self.new_block([self.assign_pl(dest, self.use(self.mv(y)), sp)], self.goto(T, sp))
            self.blocks[ERB]["term"] = self.closure_call(cl, [self.mv(erx)], y, E2, sp, self.blocks[ERB]["stmts"])
        elif m == "and_then":
            self.blocks[ERB]["stmts"].append(self.assign_pl(dest, mk("Err", 1, self.mv(erx)), sp))
            O2 = self.new_block([self.assign_pl(dest, self.use(self.mv(y)), sp)], self.goto(T, sp))
            self.blocks[OKB]["term"] = self.closure_call(cl, [self.mv(okx)], y, O2, sp, self.blocks[OKB]["stmts"])
        elif m == "map_err":
            self.blocks[OKB]["stmts"].append(self.assign_pl(dest, mk("Ok", 0, self.mv(okx)), sp))
            E2 = self.new_block([self.assign_pl(dest, mk("Err", 1, self.mv(y)), sp)], self.goto(T, sp))
            self.blocks[ERB]["term"] = self.closure_call(cl, [self.mv(erx)], y, E2, sp, self.blocks[ERB]["stmts"])
        elif m == "map":
            self.blocks[ERB]["stmts"].append(self.assign_pl(dest, mk("Err", 1, self.mv(erx)), sp))
            O2 = self.new_block([self.assign_pl(dest, mk("Ok", 0, self.mv(y)), sp)], self.goto(T, sp))
            self.blocks[OKB]["term"] = self.closure_call(cl, [self.mv(okx)], y, O2, sp, self.blocks[OKB]["stmts"])
        else:
            return False
        pre.append(self.assign(d, {"k": "discr", "pl": self.pl(o), "of": rty}, sp))
        blk["term"] = {"k": "switch", "discr": self.mv(d), "dty": "isize", "arms": [[0, OKB], [1, ERB]], "otherwise": U, "sp": sp}
        self.count += 1
        return True

    def rewrite_bool(self, bi, m):
        blk = self.blocks[bi]
        t = blk["term"]
        if t["t"] is None:
            return False
        sp = t["sp"]
        dest = t["dest"]
        T = t["t"]
        pre = blk["stmts"]
        c = self.new_local("bool")
        pre.append(self.assign(c, self.use(t["args"][0]), sp))
        none = {"k": "agg", "ak": "adt", "adt": "core::option::Option", "variant": "None", "vi": 0, "targs": [],
                "fields": [], "ops": []}

        def some(op):
            return {"k": "agg", "ak": "adt", "adt": "core::option::Option", "variant": "Some", "vi": 1, "targs": [],
                    "fields": ["0"], "ops": [op]}
        N = self.new_block([self.assign_pl(dest, none, sp)], self.goto(T, sp))
        if m == "then_some":
            v = self.new_local("?")
            pre.append(self.assign(v, self.use(t["args"][1]), sp))
            S = self.new_block([self.assign_pl(dest, some(self.mv(v)), sp)], self.goto(T, sp))
        else:
            cl = self.closure_local(t["args"][1], pre, sp)
            y = self.new_local(self.closure_ret_ty(t["args"][1]))
            S2 = self.new_block([self.assign_pl(dest, some(self.mv(y)), sp)], self.goto(T, sp))
            S = self.new_block([], None)
            self.blocks[S]["term"] = self.closure_call(cl, [], y, S2, sp, self.blocks[S]["stmts"])
        blk["term"] = {"k": "switch", "discr": self.mv(c), "dty": "bool", "arms": [[0, N]], "otherwise": S, "sp": sp}
        self.count += 1
        return True

    # ------------------------------------------------------------ driver
    def run(self, iters=True, options=True):
        changed = True
        rounds = 0
        while changed and rounds < 50:
            changed = False
            rounds += 1
            self.build_defs()
            for bi in range(len(self.blocks)):
                blk = self.blocks[bi]
                if blk["cleanup"]:
                    continue
                t = blk["term"]
                if t["k"] != "call":
                    continue
                dn = decl_of(t)
                if iters and is_iter_decl(dn, ITER_TERMINALS):
                    if self.rewrite_iter_terminal(bi):
                        changed = True
                        break
                if iters and dn == ITER + "next" and self.rewrite_next_on_chain(bi):
                    changed = True
                    break
                if iters and dn == ITER + "chain" and self.rewrite_option_chain(bi):
                    changed = True
                    break
                if options:
                    m = opt_method(dn)
                    if m and self.rewrite_option(bi, m):
                        changed = True
                        break
                    m = bool_method(dn)
                    if m and self.rewrite_bool(bi, m):
                        changed = True
                        break
                    m = res_method(dn)
                    if m and self.rewrite_result(bi, m):
                        changed = True
                        break
        return self.count


def desugar(j, raw_bodies, iters=True, options=True):
    """-> (new body json, number of rewrites); `j` is not modified"""
    interesting = False
    for blk in j["blocks"]:
        t = blk["term"]
        if t["k"] == "call":
            dn = decl_of(t)
            if is_iter_decl(dn, ITER_TERMINALS) or is_iter_decl(dn, ITER_ADAPTORS) or opt_method(dn) or bool_method(dn) or res_method(dn) or dn == ITER + "chain":
                interesting = True
                break
    if not interesting:
        return j, 0
    j2 = copy.deepcopy(j)
    rw = Rewriter(j2, raw_bodies)
    n = rw.run(iters, options)
    if n == 0:
        return j, 0
    return j2, n
