"""Check context: obligations, violations, known-findings filter, evidence writer."""
import json
import os
import re
import time
import traceback

from . import facts as factsmod

VERIF = factsmod.VERIF


class Violation:
    def __init__(self, rule, key, msg, loc=None, detail=None):
        self.rule = rule
        self.key = key          # stable, without line numbers
        self.msg = msg
        self.loc = loc
        self.detail = detail or {}


class Ctx:
    def __init__(self, pid, tier, seed=0):
        self.pid = pid
        self.tier = tier
        self.seed = seed
        self.t0 = time.time()
        self.violations = []
        self.obligations = 0
        self.discharged = 0
        self.samples = []
        self.analysed = []
        self.rules = {}          # rule name -> [obligations, discharged]
        self.assumptions = []
        self.notes = []
        self.configs_used = []
        self.level = "other"
        self.explanation = ""
        self.trusted_base = []
        self.cur_rule = None
        self.extra = {}

    # ---- facts
    def facts(self, cfg="A", raw=False):
        cfg = getattr(self, "cfgmap", {}).get(cfg, cfg)
        if cfg not in self.configs_used:
            self.configs_used.append(cfg)
        f = factsmod.load(cfg)
        if raw or os.environ.get("CVA_RAW") == "1":
            return f
        return f.desugared()

    def configs(self):
        """configurations to analyse in this tier"""
        return ["A"] if self.tier == "quick" else ["A", "B", "C", "D"]

    # ---- rule bookkeeping
    def rule(self, name):
        name = name + getattr(self, "rule_suffix", "")
        self.cur_rule = name
        self.rules.setdefault(name, [0, 0])

    def ok(self, what, sample=None):
        """one obligation discharged"""
        self.obligations += 1
        self.discharged += 1
        r = self.rules.setdefault(self.cur_rule or "?", [0, 0])
        r[0] += 1
        r[1] += 1
        if sample is not None and len(self.samples) < 40:
            self.samples.append(sample)
        elif len(self.samples) < 12:
            self.samples.append({"rule": self.cur_rule, "obligation": what})

    def fail(self, key, msg, loc=None, detail=None):
        """one obligation violated"""
        self.obligations += 1
        r = self.rules.setdefault(self.cur_rule or "?", [0, 0])
        r[0] += 1
        full_key = "%s:%s" % (self.cur_rule, key)
        for v in self.violations:
            if v.key == full_key:
                v.detail["instances"] = v.detail.get("instances", 1) + 1
                return
        self.violations.append(Violation(self.cur_rule, full_key, msg, loc, dict(detail or {})))

    def check(self, cond, key, msg, loc=None, detail=None, sample=None):
        if cond:
            self.ok(key, sample)
        else:
            self.fail(key, msg, loc, detail)
        return cond

    def floor(self, what, count, minimum):
        """fail closed when a rule matched fewer instances than were confirmed by hand"""
        if getattr(self, "cfgmap", None) and "panic" in what:
            # the number of compiler-inserted assertions is a property of the build profile (counted for the
            # default profile); on the other configurations only require that the audit ran
            minimum = min(minimum, 1)
        if os.environ.get("CVA_SHOW_FLOORS"):
            print("FLOOR %s %s: %d (minimum %d)" % (self.pid, what, count, minimum))
        self.check(count >= minimum, "floor:%s" % what,
                   "rule matched %d instance(s) of %s, fewer than the %d confirmed by reading: "
                   "the mechanism the property is anchored in has gone or is no longer recognised"
                   % (count, what, minimum))

    def note(self, s):
        self.notes.append(s)

    def saw(self, s):
        if len(self.analysed) < 400:
            self.analysed.append(s)


def load_known():
    findings = {}
    p = os.path.join(VERIF, "known_findings.txt")
    if os.path.exists(p):
        for line in open(p):
            line = line.strip()
            m = re.match(r"finding:\s+property=(\S+)\s+key=(\S+)\s*(.*)", line)
            if m:
                findings[(m.group(1), m.group(2))] = m.group(3)
    return findings


def finish(ctx, module_doc=""):
    """Print report, write evidence, return exit code."""
    known = load_known()
    evdir = os.environ.get("CVA_EVIDENCE_DIR") or os.path.join(VERIF, "evidence")      # (the override is for the parallel self-test only)
    vdir = os.path.join(evdir, "violations")
    os.makedirs(vdir, exist_ok=True)
    for fn in os.listdir(vdir):
        if fn.startswith(ctx.pid + "-"):
            try:
                os.remove(os.path.join(vdir, fn))
            except OSError:
                pass
    real = []
    for v in ctx.violations:
        k = (ctx.pid, v.key)
        if k in known:
            print("KNOWN-FINDING: property=%s %s (%s)" % (ctx.pid, known[k] or v.msg, v.key))
        else:
            real.append(v)
    print("property %s tier=%s configs=%s" % (ctx.pid, ctx.tier, ",".join(ctx.configs_used)))
    for name, (o, d) in ctx.rules.items():
        print("  rule %-34s obligations=%-6d discharged=%-6d" % (name, o, d))
    for i, v in enumerate(real):
        rp = os.path.join(vdir, "%s-%d.json" % (ctx.pid, i))
        with open(rp, "w") as f:
            json.dump({"property": ctx.pid, "rule": v.rule, "key": v.key, "message": v.msg,
                       "location": v.loc, "detail": v.detail, "tier": ctx.tier}, f, indent=1, default=str)
        print("  %s: %s%s" % (v.key, v.msg if len(v.msg) < 700 else v.msg[:700] + " ...[truncated, full text in replay file]", (" at " + v.loc) if v.loc else ""))
        print("VIOLATION property=%s replay=%s" % (ctx.pid, rp))
    wall = time.time() - ctx.t0
    cov = {
        "obligations": ctx.obligations,
        "discharged": ctx.discharged,
        "checker_cmd": "./check %s --tier %s" % (ctx.pid, ctx.tier),
        "trusted_base": ctx.trusted_base or [
            "rustc nightly front end, MIR construction and const evaluation (facts come from the compiler's own IR)",
            "/verif/driver mirfacts (serialises MIR/ADT/const facts)",
            "/verif/cva rule engine (python3 stdlib)"],
        "explanation": ctx.explanation or module_doc,
        "rule": "static rules over the type-checked program of /repo's working tree; an obligation is one rule instance (call site, path, table cell, proof goal)",
        "rules": {k: {"obligations": v[0], "discharged": v[1]} for k, v in ctx.rules.items()},
        "samples": ctx.samples[:40] or [{"note": "no obligation instances recorded"}],
        "analysed": ctx.analysed[:400],
        "configurations": ctx.configs_used,
        "exhaustive": False,
    }
    cov.update(ctx.extra)
    ev = {
        "property_id": ctx.pid,
        "tier": ctx.tier,
        "seed": ctx.seed,
        "level": ctx.level,
        "coverage": cov,
        "assumptions": ctx.assumptions,
        "wall_s": round(wall, 3),
        "violations": len(real),
        "notes": ctx.notes,
    }
    if ctx.level == "proof" and ctx.discharged != ctx.obligations:
        # an unproved obligation is a violation anyway; keep the file schema-valid
        pass
    tmp = os.path.join(evdir, ".%s.json.tmp%d" % (ctx.pid, os.getpid()))
    with open(tmp, "w") as f:
        json.dump(ev, f, indent=1, default=str)
    os.replace(tmp, os.path.join(evdir, ctx.pid + ".json"))
    print("%s: %d obligations, %d discharged, %d violation(s), %.1fs" %
          (ctx.pid, ctx.obligations, ctx.discharged, len(real), wall))
    return 1 if real else 0


def run_property(pid, tier, seed, runner, doc=""):
    ctx = Ctx(pid, tier, seed)
    try:
        runner(ctx)
        if tier == "thorough" and os.environ.get("CVA_ONE_CONFIG") != "1":
            # the same rules on the other build configurations (what a user may compile): B overflow-checks and
            # debug assertions off, C the PEXT slider back end, D the `std` feature
            for other in ("B", "C", "D"):
                ctx.cfgmap = {"A": other}
                ctx.rule_suffix = " [config %s]" % other
                ctx.cur_rule = None
                runner(ctx)
            ctx.cfgmap = {}
            ctx.rule_suffix = ""
    except factsmod.MissingAnchor as e:
        ctx.rule("anchor")
        ctx.fail("missing:%s" % e, "public anchor or role %s cannot be resolved in the current tree; "
                 "the mechanism this property is anchored in is gone" % e)
    except factsmod.ExtractionError as e:
        ctx.rule("extraction")
        ctx.fail("extract", "fact extraction failed: %s" % str(e)[-1500:])
    except Exception as e:  # fail closed, but say so
        ctx.rule("engine")
        ctx.fail("engine-error:%s" % type(e).__name__,
                 "rule engine could not analyse the current tree (fail-closed): %s\n%s"
                 % (e, traceback.format_exc()[-2500:]))
    return finish(ctx, doc)
