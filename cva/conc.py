"""Finite-domain evaluation of reconstructed expressions with concrete integers: used to decide
facts about functions whose whole input domain is a small enum product (64 squares, 8 files,
8 ranks, 2 colours) by evaluating the *extracted expression*, never the library."""
from .evalx import enum_index


class Stuck(Exception):
    pass


BITS = {"u8": 8, "u16": 16, "u32": 32, "u64": 64, "usize": 64, "u128": 128, "i8": 8, "i16": 16, "i32": 32, "i64": 64, "isize": 64}


def wrap(v, ty):
    if ty in BITS:
        b = BITS[ty]
        v &= (1 << b) - 1
        if ty[0] == "i" and v >> (b - 1):
            v -= 1 << b
    return v


class Conc:
    def __init__(self, env, nvariants):
        self.env = env
        self.nv = nvariants       # enum type path -> variant count

    def ev(self, e):
        if e in self.env:
            return self.env[e]
        k = e[0]
        if k == "int":
            return e[1]
        if k == "enum":
            return enum_index(e)
        if k == "bbconst":
            return e[1]
        if k == "discr":
            v = self.ev(e[1])
            if isinstance(v, tuple) and v:
                # Option: None = 0, Some = 1; Result: Ok = 0, Err = 1
                return {"none": 0, "some": 1, "ok": 0, "err": 1}.get(v[0], v)
            return v
        if k in ("bb", "raw", "ref", "deref"):
            return self.ev(e[1])
        if k == "cast":
            return wrap(self.ev(e[2]), e[1])
        if k == "field" and e[2] == "0":
            v = self.ev(e[1])
            if isinstance(v, tuple) and v and v[0] == "some":
                return v[1]
            return v
        if k == "bin":
            a, b = self.ev(e[2]), self.ev(e[3])
            op = e[1]
            if op == "Add":
                return a + b
            if op == "Sub":
                return a - b
            if op == "Mul":
                return a * b
            if op == "Rem":
                if b == 0:
                    raise Stuck("remainder by zero")
                return a % b
            if op == "Div":
                if b == 0:
                    raise Stuck("division by zero")
                return a // b
            if op == "BitAnd":
                return a & b
            if op == "BitOr":
                return a | b
            if op == "BitXor":
                return a ^ b
            if op == "Shl":
                return (a << b) & ((1 << 64) - 1)
            if op == "Shr":
                return a >> b
            if op in ("Lt", "Le", "Gt", "Ge", "Eq", "Ne"):
                return int({"Lt": a < b, "Le": a <= b, "Gt": a > b, "Ge": a >= b, "Eq": a == b, "Ne": a != b}[op])
            raise Stuck("bin %s" % op)
        if k == "call":
            name = e[1]
            tail = name.rsplit("::", 1)[-1]
            if tail in ("index_const", "index"):
                v = self.ev(e[2][0])
                n = self.nv.get(name.rsplit("::", 1)[0])
                if n is None or not (0 <= v < n):
                    raise Stuck("index out of range: %s(%s)" % (name, v))
                return v
            if tail == "try_index":
                v = self.ev(e[2][0])
                n = self.nv.get(name.rsplit("::", 1)[0])
                return ("some", v) if (n is not None and 0 <= v < n) else ("none",)
            if tail in ("checked_add", "checked_sub", "checked_mul") and len(e[2]) == 2:
                # iN::checked_op / uN::checked_op: Some(result) when it fits the type, None otherwise
                import re as _re
                m_ = _re.search(r"\b([iu](?:8|16|32|64|128|size))\b", name)
                if m_ and m_.group(1) in BITS:
                    ty = m_.group(1)
                    a, b = self.ev(e[2][0]), self.ev(e[2][1])
                    r = a + b if tail == "checked_add" else (a - b if tail == "checked_sub" else a * b)
                    bits = BITS[ty]
                    lo, hi = (-(1 << (bits - 1)), (1 << (bits - 1)) - 1) if ty[0] == "i" else (0, (1 << bits) - 1)
                    return ("some", r) if lo <= r <= hi else ("none",)
            if tail == "from_ne_bytes":
                arr = e[2][0]
                if arr[0] == "array":
                    out = 0
                    for i, x in enumerate(arr[1]):
                        out |= self.ev(x) << (8 * i)
                    return out
            raise Stuck("call %s" % name)
        if k == "agg":
            if e[2] == "None":
                return ("none",)
            if e[2] == "Some":
                return ("some", self.ev(dict(e[4])["0"]))
            if e[2] == "Ok":
                return ("ok", self.ev(dict(e[4])["0"]))
            if e[2] == "Err":
                return ("err",)
            raise Stuck("agg %s" % e[2])
        if k == "index":
            base = self.ev(e[1])
            i = self.ev(e[2])
            return base[i]
        if k == "array":
            return [self.ev(x) for x in e[1]]
        if k == "downcast":
            return self.ev(e[1])
        raise Stuck("cannot evaluate %s" % (str(e)[:80]))

    def cond_holds(self, c):
        v = self.ev(c[0])
        want = c[1]
        if isinstance(want, int):
            return v == want
        return v not in want[1]


def eval_paths(paths, env, nvariants):
    """the unique returning path whose conditions hold -> value (or raises)"""
    hits = []
    for p in paths:
        cv = Conc(env, nvariants)
        ok = True
        for c in p.conds:
            if not cv.cond_holds(c):
                ok = False
                break
        if ok:
            hits.append(p)
    if len(hits) != 1:
        raise Stuck("%d paths apply" % len(hits))
    p = hits[0]
    if p.end != "return":
        return ("diverges", p.end)
    return Conc(env, nvariants).ev(p.ret)
