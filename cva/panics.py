"""Panic-site audit: every assert terminator and every call that can panic, on every path of
every function reachable from a set of roots, is either discharged automatically (interval
reasoning on the reconstructed operands refined by the path's branch decisions, constant
folding) or must be listed in a per-site table whose entry names the invariant it rests on.
A site that is neither is reported (a new way to panic has appeared)."""
from . import sym, ranges
from .rules.common import reachable_bodies, loc

PANICKY_TAILS = ("unwrap", "expect")


def short(k):
    for pre in ("cozy_chess::board::movegen::piece_moves::", "cozy_chess::board::movegen::", "cozy_chess::board::zobrist::",
                "cozy_chess::board::builder::", "cozy_chess::board::parse::", "cozy_chess::board::", "cozy_chess::moves::",
                "cozy_chess::util::", "cozy_chess_types::sliders::", "cozy_chess_types::"):
        if k.startswith(pre):
            return k[len(pre):]
        if k.startswith("<" + pre):
            return "<" + k[len(pre) + 1:]
    return k


class Audit:
    def __init__(self, facts, cgens=None, tgens=None, max_paths=200000, invariants_for=None):
        self.invariants_for = invariants_for      # body -> {expression: (lo, hi)}: type invariants another rule establishes
        self.f = facts
        self.cgens = cgens or {}
        self.tgens = tgens or {}
        self.max_paths = max_paths
        self.sites = {}      # key -> dict(count, discharged(bool), how, fn, line)
        self.analysed = []
        self.inlined = set()
        self.called = set()
        self.errors = []

    def run(self, roots, stop=None, skip=None):
        reach = sorted(reachable_bodies(self.f, roots, stop))
        todo = []
        for k in reach:
            b = self.f.bodies[k]
            if b.promoted is not None or b.kind not in ("Fn", "AssocFn", "Closure"):
                continue
            if skip and skip(k):
                continue
            todo.append(b)
        results = {}
        for b in todo:
            variants = [({}, {})]
            gens = b.j["generics"]
            if "IN_CHECK" in gens:
                variants = [({"IN_CHECK": sym.TRUE}, {}), ({"IN_CHECK": sym.FALSE}, {})]
            if "P" in gens and self.tgens.get("P"):
                variants = [(c, {"P": t}) for c, _ in variants for t in self.tgens["P"]]
            for cg, tg in variants:
                try:
                    se = sym.SymExec(self.f, b, cgen=cg, tgen=tg, max_paths=self.max_paths, opaque=self.opaque, auto_unroll=True)
                    paths = se.run()
                except sym.PathLimit as e:
                    self.errors.append((b.key, str(e)))
                    continue
                results.setdefault(b.key, []).append((se, paths))
                self.analysed.append("%s: %d paths" % (short(b.key), len(paths)))
        # which private functions were always inlined?
        for k, lst in results.items():
            for se, paths in lst:
                for p in paths:
                    for e in p.events:
                        if e.kind == "inlined":
                            self.inlined.add(e.name)
                        elif e.kind == "call":
                            self.called.add(e.name)
        for k, lst in results.items():
            b = self.f.bodies[k]
            private = not b.j["vis"].startswith("Public")
            standalone = not (private and k in self.inlined and k not in self.called and k not in roots)
            for se, paths in lst:
                rg = ranges.Ranger(self.f, se.types)
                if self.invariants_for is not None:
                    rg.invariants = self.invariants_for(b) or None
                for p in paths:
                    self.audit_path(b, p, rg, standalone)
        return self

    def opaque(self, name):
        """like the default, but private helpers of the types crate are analysed in their callers' context"""
        if not sym.default_opaque(name):
            return False
        tail = name.rsplit("::", 1)[-1]
        if tail in ("index_const", "index", "try_index"):
            return True
        b = self.f.bodies.get(name)
        if b is not None and not b.j["vis"].startswith("Public") and name.startswith("cozy_chess_types::"):
            return False
        return True

    def note(self, key, discharged, how, fn, line):
        s = self.sites.get(key)
        if s is None:
            self.sites[key] = dict(count=1, discharged=discharged, how=how, fn=fn, line=line)
        else:
            s["count"] += 1
            if not discharged and s["discharged"]:
                s.update(discharged=False, how=how, line=line)

    def audit_path(self, b, p, rg, standalone):
        for e in p.events:
            if e.depth == 0 and not standalone:
                continue
            fn = short(e.fn)
            conds = p.conds[:e.ncond]
            if e.kind == "assert":
                cond, expected = e.args
                ok, how = self.assert_holds(rg, cond, expected, conds)
                detail = e.name
                if cond[0] == "ovf":
                    detail = "%s:%s(%s)" % (e.name, cond[1], cond[4])
                self.note((fn, "assert", detail), ok, how if ok else "cannot bound: %s" % sym.show(cond)[:160], e.fn, e.line)
            elif e.kind == "call":
                tail = e.name.rsplit("::", 1)[-1]
                n = e.name
                if n.startswith("cozy_chess_types::") and tail in ("index_const", "index"):
                    ty = n.rsplit("::", 1)[0]
                    cnt = rg.enum_n(ty)
                    bd = rg.bounds(e.args[0], conds)
                    ok = bd is not None and cnt is not None and 0 <= bd[0] and bd[1] < cnt
                    self.note((fn, "enum-from-index", ty.rsplit("::", 1)[-1]), ok,
                              "index within [0,%s]" % (cnt - 1 if cnt else "?") if ok else "argument range %s" % (bd,), e.fn, e.line)
                elif (n.startswith("core::option::Option<") or n.startswith("core::result::Result<")) and tail in PANICKY_TAILS:
                    a = e.args[0]
                    ok = a[0] == "agg" and a[2] in ("Some", "Ok")
                    if not ok:
                        d = ("discr", a)
                        for c in conds:
                            if c[0] == d and c[1] == (1 if "Option" in n else 0):
                                ok = True
                    self.note((fn, tail, describe(a)), ok, "value known to be Some/Ok" if ok else "may be None/Err", e.fn, e.line)
                elif n.startswith("core::panicking::") or n.startswith("core::option::expect_failed") or \
                        n.startswith("core::result::unwrap_failed"):
                    # an assertion written as `if !cond { panic }`: discharged when intervals show that the decisions
                    # leading here cannot all hold
                    why = self.path_infeasible(rg, conds)
                    self.note((fn, "panic", tail), why is not None, why or "explicit panic reachable", e.fn, e.line)
                elif n == "cozy_chess_types::square::Square::offset":
                    self.note((fn, "offset", "Square::offset"), False, "panicking offset", e.fn, e.line)
                elif "slice::index" in n or n.endswith("Index>::index") or n.endswith("IndexMut>::index_mut"):
                    self.note((fn, "slice-index", tail), False, "slice indexing", e.fn, e.line)

    def path_infeasible(self, rg, conds):
        for i, c in enumerate(conds):
            x, v = c[0], c[1]
            if not isinstance(v, int) or x[0] != "bin" or x[1] not in ("Lt", "Le", "Gt", "Ge", "Ne"):
                continue
            # the path claims x == v; show x == 1 - v from what was decided before
            ok, how = self.assert_holds(rg, x, sym.TRUE if v == 0 else sym.FALSE, conds[:i])
            if ok:
                return "unreachable: %s contradicts %s" % (how, sym.show(x)[:60])
        return None

    def assert_holds(self, rg, cond, expected, conds):
        exp = 1 if expected == sym.TRUE else 0
        if cond[0] == "int":
            return (cond[1] != 0) == bool(exp), "constant"
        if cond[0] == "ovf":
            if exp == 0 and rg.no_overflow(cond, conds):
                return True, "interval: no overflow"
            return False, ""
        if cond[0] == "bin" and cond[1] in ("Lt", "Le", "Gt", "Ge") and exp == 0:
            neg = {"Lt": "Ge", "Le": "Gt", "Gt": "Le", "Ge": "Lt"}[cond[1]]
            return self.assert_holds(rg, ("bin", neg, cond[2], cond[3]), sym.TRUE, conds)
        if cond[0] == "bin" and cond[1] in ("Lt", "Le", "Gt", "Ge") and exp == 1:
            a = rg.bounds(cond[2], conds)
            b = rg.bounds(cond[3], conds)
            if a and b:
                ok = {"Lt": a[1] < b[0], "Le": a[1] <= b[0], "Gt": a[0] > b[1], "Ge": a[0] >= b[1]}[cond[1]]
                if ok:
                    return True, "interval: %s %s %s" % (a, cond[1], b)
            return False, ""
        if cond[0] == "bin" and cond[1] == "Ne" and exp == 1:
            a = rg.bounds(cond[2], conds)
            b = rg.bounds(cond[3], conds)
            if a and b and (a[1] < b[0] or b[1] < a[0]):
                return True, "interval: disjoint"
        return False, ""


def describe(a):
    """stable description of an unwrapped operand (no line numbers, no locals)"""
    if a[0] == "call":
        return short(a[1]).split("<")[0]
    if a[0] in ("first",):
        return "first"
    return a[0]


def report(ctx, audit, table, tag):
    """table: {(fn, kind, detail): reason}.  Undischarged sites not in the table are violations."""
    n = 0
    for key, s in sorted(audit.sites.items()):
        n += 1
        if s["discharged"]:
            ctx.ok("%s:%s" % (tag, ":".join(key)), {"site": ":".join(key), "discharged": s["how"], "paths": s["count"]})
            continue
        reason = table.get(key)
        if reason is None:
            import fnmatch
            for tk, tr in table.items():
                if "*" in tk[0] and fnmatch.fnmatch(key[0], tk[0]) and tk[1:] == key[1:]:
                    reason = tr
        b = audit.f.bodies.get(s["fn"])
        where = loc(b, s["line"]) if b else None
        ctx.check(reason is not None, "%s:%s" % (tag, ":".join(key)),
                  "potential panic site not discharged and not covered by a named invariant: %s in %s (%s)"
                  % (key[1] + " " + key[2], key[0], s["how"]), where,
                  sample={"site": ":".join(key), "invariant": reason})
    for k, err in audit.errors:
        ctx.fail("%s:path-limit:%s" % (tag, short(k)), "cannot enumerate paths of %s: %s" % (k, err))
    return n
