"""Evaluator of reconstructed expressions over a known-bits domain.

A value is KB(known, val, width): bit i is known iff known>>i&1, and then equals val>>i&1.
Fully known values behave like concrete integers; partially known values let one audit a
function for *all* values of the unknown bits at once (sound abstract interpretation: every
transfer function returns 'unknown' for a bit unless it is determined by known inputs).
Used on constant data (tables, magic numbers) and on a few case-split parameters; the
library itself is never executed."""
from . import geom

M64 = (1 << 64) - 1


class CannotEval(Exception):
    pass


class KB:
    __slots__ = ("k", "v", "w")

    def __init__(self, known, val, width=64):
        m = (1 << width) - 1
        self.k = known & m
        self.v = val & self.k
        self.w = width

    @staticmethod
    def const(v, width=64):
        m = (1 << width) - 1
        return KB(m, v & m, width)

    def full(self):
        return self.k == (1 << self.w) - 1

    def __repr__(self):
        if self.full():
            return "KB(%#x)" % self.v
        return "KB(known=%#x val=%#x)" % (self.k, self.v)


WIDTH = {"u8": 8, "u16": 16, "u32": 32, "u64": 64, "usize": 64, "u128": 128,
         "i8": 8, "i16": 16, "i32": 32, "i64": 64, "isize": 64, "bool": 1, "int": 64}

ENUMS = {
    "cozy_chess_types::rank::Rank": geom.RANK_NAMES,
    "cozy_chess_types::file::File": geom.FILE_NAMES,
    "cozy_chess_types::piece::Piece": geom.PIECE_NAMES,
    "cozy_chess_types::color::Color": ["White", "Black"],
}


def enum_index(e):
    ty, var = e[1], e[2]
    if ty in ENUMS:
        return ENUMS[ty].index(var)
    if ty == "cozy_chess_types::square::Square":
        return "ABCDEFGH".index(var[0]) + 8 * (int(var[1]) - 1)
    raise CannotEval("enum %s" % (e,))


class Evaluator:
    """env maps leaf expressions (('param', n), ('field', ('param', n), '0'), ...) to KB/int values.
    consts: facts.consts for item lookup."""

    def __init__(self, facts, env):
        self.facts = facts
        self.env = env
        self.cache = {}

    def item(self, path):
        c = self.facts.consts.get(path)
        if c is None:
            raise CannotEval("unknown const item %s" % path)
        if "dec" in c:
            return ("data", c["dec"])
        if "v" in c:
            return KB.const(c["v"])
        raise CannotEval("const item %s has no decoded value" % path)

    def ev(self, e):
        if e in self.env:
            return self.env[e]
        k = e[0]
        if k == "int":
            return KB.const(e[1], WIDTH.get(e[2], 64))
        if k == "enum":
            return KB.const(enum_index(e), 64)
        if k == "bbconst":
            return KB.const(e[1], 64)
        if k == "item":
            return self.item(e[1])
        if k in ("deref", "ref", "bb", "raw"):
            return self.ev(e[1])
        if k == "discr":
            return self.ev(e[1])
        if k == "cast":
            v = self.ev(e[2])
            return self.resize(v, WIDTH.get(e[1], 64))
        if k == "field":
            base = self.ev(e[1])
            if isinstance(base, tuple) and base[0] == "data":
                d = base[1]
                if isinstance(d, dict) and "fields" in d:
                    for n, v in d["fields"]:
                        if n == e[2]:
                            return self.wrapdata(v)
                raise CannotEval("field %s of %s" % (e[2], str(d)[:60]))
            if isinstance(base, KB) and e[2] == "0":
                return base
            raise CannotEval("field %s" % (e,))
        if k == "index":
            base = self.ev(e[1])
            idx = self.ev(e[2])
            if not (isinstance(idx, KB) and idx.full()):
                raise CannotEval("index not fully known")
            if isinstance(base, tuple) and base[0] == "data" and isinstance(base[1], list):
                if idx.v >= len(base[1]):
                    raise IndexError("index %d out of bounds %d" % (idx.v, len(base[1])))
                return self.wrapdata(base[1][idx.v])
            raise CannotEval("index into %s" % (str(base)[:40]))
        if k == "bin":
            return self.binop(e[1], self.ev(e[2]), self.ev(e[3]))
        if k == "un":
            a = self.ev(e[2])
            if e[1] == "Not":
                return KB(a.k, ~a.v, a.w)
            raise CannotEval("un %s" % e[1])
        if k in ("and", "or", "xor"):
            return self.binop({"and": "BitAnd", "or": "BitOr", "xor": "BitXor"}[k], self.ev(e[1]), self.ev(e[2]))
        if k == "not":
            a = self.ev(e[1])
            return KB(a.k, ~a.v, a.w)
        if k == "bbof":
            s = self.ev(e[1])
            if not s.full():
                raise CannotEval("bbof unknown square")
            return KB.const(1 << s.v)
        if k == "isempty":
            a = self.ev(e[1])
            return self.binop("Eq", a, KB.const(0, a.w))
        if k == "has":
            a = self.ev(e[1])
            s = self.ev(e[2])
            if not s.full():
                raise CannotEval("has unknown square")
            if a.k >> s.v & 1:
                return KB.const(a.v >> s.v & 1, 1)
            return KB(0, 0, 1)
        if k == "cnot":
            a = self.ev(e[1])
            return KB.const(1 - a.v, 64)
        if k == "call":
            return self.call(e)
        if k == "ite":
            c = self.ev(e[1])
            if c.full():
                return self.ev(e[2]) if c.v else self.ev(e[3])
            raise CannotEval("ite unknown cond")
        raise CannotEval("cannot evaluate %s" % (str(e)[:80]))

    def wrapdata(self, v):
        if isinstance(v, int):
            return KB.const(v, 128)
        if isinstance(v, dict) and "struct" in v and len(v["fields"]) == 1 and isinstance(v["fields"][0][1], int):
            # newtype (BitBoard)
            return ("data", v)
        return ("data", v)

    def resize(self, v, w):
        if isinstance(v, tuple):
            raise CannotEval("cast of aggregate")
        m = (1 << w) - 1
        if w <= v.w:
            return KB(v.k & m, v.v & m, w)
        # zero extension (all casts audited are unsigned)
        return KB(v.k | (m & ~((1 << v.w) - 1)), v.v, w)

    def binop(self, op, a, b):
        if isinstance(a, tuple):
            a = self.newtype(a)
        if isinstance(b, tuple):
            b = self.newtype(b)
        w = min(a.w, b.w) if op not in ("Shl", "Shr") else a.w
        if a.w != w:
            a = self.resize(a, w)
        if b.w != w and op not in ("Shl", "Shr"):
            b = self.resize(b, w)
        m = (1 << w) - 1
        if op == "BitAnd":
            known = (a.k & b.k) | (a.k & ~a.v) | (b.k & ~b.v)
            return KB(known, a.v & b.v, w)
        if op == "BitOr":
            known = (a.k & b.k) | (a.k & a.v) | (b.k & b.v)
            return KB(known, a.v | b.v, w)
        if op == "BitXor":
            return KB(a.k & b.k, a.v ^ b.v, w)
        if op in ("Shl", "Shr"):
            if not b.full():
                raise CannotEval("shift by unknown")
            n = b.v
            if n >= w:
                raise CannotEval("shift overflow")
            if op == "Shl":
                return KB(((a.k << n) | ((1 << n) - 1)) & m, (a.v << n) & m, w)
            return KB((a.k >> n) | (m & ~(m >> n)), a.v >> n, w)
        if op in ("Eq", "Ne"):
            both = a.k & b.k
            if (a.v ^ b.v) & both:
                r = 0
            elif a.full() and b.full():
                r = 1
            else:
                return KB(0, 0, 1)
            if op == "Ne":
                r = 1 - r
            return KB.const(r, 1)
        if a.full() and b.full():
            x, y = a.v, b.v
            if op == "Add":
                return KB.const((x + y) & m, w)
            if op == "Sub":
                return KB.const((x - y) & m, w)
            if op == "Mul":
                return KB.const((x * y) & m, w)
            if op in ("Lt", "Le", "Gt", "Ge"):
                r = {"Lt": x < y, "Le": x <= y, "Gt": x > y, "Ge": x >= y}[op]
                return KB.const(int(r), 1)
        raise CannotEval("binop %s on partially known values" % op)

    def newtype(self, t):
        d = t[1]
        if isinstance(d, dict) and "fields" in d and len(d["fields"]) == 1 and isinstance(d["fields"][0][1], int):
            return KB.const(d["fields"][0][1], 64)
        raise CannotEval("aggregate in arithmetic")

    def call(self, e):
        name = e[1]
        args = e[2]
        tail = name.rsplit("::", 1)[-1]
        if tail == "wrapping_mul":
            return self.binop("Mul", self.ev(args[0]), self.ev(args[1]))
        if tail == "wrapping_sub":
            return self.binop("Sub", self.ev(args[0]), self.ev(args[1]))
        if tail == "wrapping_add":
            return self.binop("Add", self.ev(args[0]), self.ev(args[1]))
        if tail in ("min", "max") and len(args) == 2:
            a, b = self.ev(args[0]), self.ev(args[1])
            if a.full() and b.full():
                r = min(a.v, b.v) if tail == "min" else max(a.v, b.v)
                return KB.const(r, max(a.w, b.w))
            raise CannotEval("min/max of partially known values")
        if tail in ("saturating_add", "saturating_sub") and len(args) == 2:
            import re
            m_ = re.search(r"\b(u8|u16|u32|u64|usize)\b", name)
            a, b = self.ev(args[0]), self.ev(args[1])
            if m_ and a.full() and b.full():
                w_ = {"u8": 8, "u16": 16, "u32": 32, "u64": 64, "usize": 64}[m_.group(1)]
                r = min(a.v + b.v, (1 << w_) - 1) if tail == "saturating_add" else max(a.v - b.v, 0)
                return KB.const(r, w_)
            raise CannotEval("saturating arithmetic on partially known values / unknown type")
        if tail == "_pext_u64":
            a = self.ev(args[0])
            mk = self.ev(args[1])
            if isinstance(mk, tuple):
                mk = self.newtype(mk)
            if not mk.full():
                raise CannotEval("pext unknown mask")
            # bits of a selected by mask must be known
            if (mk.v & ~a.k) & M64:
                raise CannotEval("pext over unknown bits")
            return KB.const(geom.pext(a.v, mk.v), 64)
        if name == "cozy_chess_types::rank::Rank::relative_to":
            r = self.ev(args[0])
            c = self.ev(args[1])
            return KB.const(r.v if c.v == 0 else 7 - r.v)
        if name == "cozy_chess_types::rank::Rank::bitboard":
            r = self.ev(args[0])
            return KB.const(geom.rank_bb(r.v))
        if name == "cozy_chess_types::file::File::bitboard":
            r = self.ev(args[0])
            return KB.const(geom.file_bb(r.v))
        if name == "cozy_chess_types::square::Square::bitboard":
            r = self.ev(args[0])
            return KB.const(1 << r.v)
        if name == "cozy_chess_types::square::Square::new":
            f = self.ev(args[0])
            r = self.ev(args[1])
            return KB.const(r.v * 8 + f.v)
        if name == "cozy_chess_types::square::Square::file":
            return KB.const(self.ev(args[0]).v & 7)
        if name == "cozy_chess_types::square::Square::rank":
            return KB.const(self.ev(args[0]).v >> 3)
        raise CannotEval("call %s" % name)
