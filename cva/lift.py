"""Lifting of reconstructed expressions to the public vocabulary of the library.

Private representation details (which field holds the colour bitboards, how `pinned` is
stored) are folded back into applications of the *public getters* by unification against
templates computed from the getters' own MIR, so rules and specifications speak about
`colors(c)`, `pieces(p)`, `pinned`, `checkers`, `side_to_move`, ... and survive renames of
private fields/helpers.  Scalar helpers are normalised (relative ranks, colour negation)."""
from . import sym
from .sym import I

B = "cozy_chess::board::Board"
T = "cozy_chess_types::"
RANKS = ["First", "Second", "Third", "Fourth", "Fifth", "Sixth", "Seventh", "Eighth"]
FILES = ["A", "B", "C", "D", "E", "F", "G", "H"]
PIECES = ["Pawn", "Knight", "Bishop", "Rook", "Queen", "King"]

GETTERS = ["colors", "pieces", "side_to_move", "pinned", "checkers", "castle_rights", "en_passant",
           "halfmove_clock", "fullmove_number", "hash"]

MOVE_FNS = {
    "cozy_chess::moves::get_knight_moves": "knight",
    "cozy_chess::moves::get_king_moves": "kingmoves",
    "cozy_chess::moves::get_pawn_attacks": "pawnatt",
    "cozy_chess::moves::get_pawn_quiets": "pawnquiets",
    "cozy_chess::moves::get_rook_rays": "rookrays",
    "cozy_chess::moves::get_bishop_rays": "bishoprays",
    "cozy_chess::moves::get_between_rays": "between",
    "cozy_chess::moves::get_line_rays": "line",
    "cozy_chess::moves::get_rook_moves": "rookmoves",
    "cozy_chess::moves::get_bishop_moves": "bishopmoves",
}


class Var:
    def __init__(self, name, ty=None):
        self.name = name
        self.ty = ty

    def __repr__(self):
        return "?%s" % self.name


class Lifter:
    def __init__(self, facts):
        self.f = facts
        self.ops = sym.Ops(facts)
        self.templates = []   # (getter name, template, [param names])
        for g in GETTERS:
            b = facts.bodies.get(B + "::" + g)
            if b is None:
                from .facts import MissingAnchor
                raise MissingAnchor(B + "::" + g)
            se = sym.SymExec(facts, b)
            ps = se.run()
            if len(ps) != 1 or ps[0].end != "return":
                from .facts import MissingAnchor
                raise MissingAnchor("getter %s is not a single-path read" % g)
            r = ps[0].ret
            if r[0] == "ptr":
                # returns a reference into self: the template is the pointee
                r = self.ops.project(ps[0].store[r[1]], r[2])
            params = [b.local_name(i) for i in range(2, b.argc + 1)]
            ptys = {b.local_name(i): b.locals[i]["ty"] for i in range(2, b.argc + 1)}
            self.templates.append((g, r, params, ptys))
        # the field of Board holding the inner position state (role: what Board::hash reads through)
        ht = [t for (g, t, p, pt) in self.templates if g == "hash"][0]
        self.inner_field = ht[1][2] if ht[0] == "field" and ht[1][0] == "field" else None
        if self.inner_field:
            inner = ("field", ("obj", "self"), self.inner_field)

            def repl(e):
                if e == inner:
                    return ("zbvar",)
                if isinstance(e, tuple):
                    return tuple(repl(x) if isinstance(x, tuple) else x for x in e)
                return e
            self.templates = [(g, repl(t), p, pt) for (g, t, p, pt) in self.templates]
        self.cache = {}

    # ------------------------------------------------------------------ matching
    def match(self, t, e, bind, ptys):
        """unify template t against expression e"""
        if isinstance(t, tuple) and t and t[0] == "obj":
            return self.bindv(bind, "$self", e)
        if isinstance(t, tuple) and t and t[0] == "zbvar":
            return self.bindv(bind, "$zb", e)
        if isinstance(t, tuple) and t and t[0] == "param":
            return self.bindv(bind, t[1], e)
        if isinstance(t, tuple) and len(t) == 3 and t[0] == "cast" and t[2][0] == "discr" and t[2][1][0] == "param" \
                and isinstance(e, tuple) and e[0] == "int":
            # constant index: recover the enum constant
            ty = ptys.get(t[2][1][1])
            ec = self.ops.enum_const(ty, e[1]) if ty else None
            if ec is None:
                return False
            return self.bindv(bind, t[2][1][1], ec)
        if not isinstance(t, tuple) or not isinstance(e, tuple):
            return t == e
        if len(t) != len(e):
            return False
        for a, b in zip(t, e):
            if isinstance(a, tuple):
                if not isinstance(b, tuple) or not self.match(a, b, bind, ptys):
                    return False
            elif a != b:
                return False
        return True

    def bindv(self, bind, k, e):
        if k in bind:
            return bind[k] == e
        bind[k] = e
        return True

    # ------------------------------------------------------------------ lifting
    def lift(self, e):
        if not isinstance(e, tuple) or not e:
            return e
        if e in self.cache:
            return self.cache[e]
        r = self._lift(e)
        self.cache[e] = r
        return r

    def _lift(self, e):
        k = e[0]
        if k in ("int", "enum", "param", "obj", "str", "bbconst", "cparam", "hv", "hvmem", "undef", "post", "zst"):
            return e
        # try getter templates on the raw expression first (before children are rewritten)
        for g, t, params, ptys in self.templates:
            bind = {}
            if self.match(t, e, bind, ptys):
                args = tuple(self.lift(bind[p]) for p in params)
                if "$zb" in bind:
                    zb = bind["$zb"]
                    if zb[0] == "field" and zb[2] == self.inner_field:
                        board = self.lift(zb[1])
                    else:
                        board = ("zb", self.lift_version(zb))
                else:
                    board = self.lift(bind.get("$self", ("obj", "self")))
                return ("get", g, board) + args
        if k == "ptr":
            # pointer to (part of) a board: represent by what it points to, where known
            return ("ptr", e[1], tuple((h[0], self.lift(h[1]) if isinstance(h[1], tuple) else h[1]) for h in e[2]), e[3])
        out = tuple(self.lift(x) if isinstance(x, tuple) else x for x in e)
        return self.simplify(out)

    def lift_version(self, zb):
        """a version of the inner position state: keep it opaque but stable"""
        if zb[0] == "post":
            return ("post", zb[1].rsplit("::", 1)[-1], zb[2])
        return self.lift(zb)

    def simplify(self, e):
        k = e[0]
        if k == "call":
            name = e[1]
            args = e[2]
            if name in MOVE_FNS:
                return (MOVE_FNS[name],) + tuple(args)
            if name == B + "::king":
                return ("king", deref_self(args[0]), args[1])
            if name == B + "::piece_on":
                return ("piece_on", deref_self(args[0]), args[1])
            if name == B + "::color_on":
                return ("color_on", deref_self(args[0]), args[1])
            if name == T + "rank::Rank::relative_to":
                return relrank(args[0], args[1])
            if name == T + "rank::Rank::bitboard":
                return ("rankbb", args[0])
            if name == T + "file::File::bitboard":
                return ("filebb", args[0])
            if name == T + "square::Square::new":
                return ("sq", args[0], args[1])
            if name == T + "square::Square::file":
                if args[0][0] == "sq":
                    return args[0][1]
                return ("file", args[0])
            if name == T + "square::Square::rank":
                if args[0][0] == "sq":
                    return args[0][2]
                return ("rank", args[0])
            if name == T + "bitboard::BitBoard::next_square":
                return ("first", args[0])
            tail = name.rsplit("::", 1)[-1]
            if tail in ("unwrap", "expect") and name.startswith("core::option::Option<") and args and args[0][0] == "first":
                return ("the", args[0][1])
            if name == T + "bitboard::BitBoard::iter":
                return args[0]
        if k == "cnot" and e[1][0] == "cnot":
            return e[1][1]
        if k == "elem" and e[1][0] == "iter":
            return ("elem", e[1][1])
        return e


PLACEMENT_FIELDS = ("pieces", "colors")


def deref_self(p):
    """identity of the board a placement query (king, piece_on, color_on) is asked of: updates of
    fields other than the placement arrays are stripped"""
    if isinstance(p, tuple) and p[0] == "ptr" and not p[2]:
        if p[1][0] == "P":
            return ("obj", p[1][1])
    if isinstance(p, tuple) and p[0] == "ref":
        return board_identity(p[1])
    return p


def board_identity(v):
    if v[0] == "agg" and v[1] == B:
        fields = dict(v[4])
        for n, x in fields.items():
            s = strip_nonplacement(x)
            if s[0] == "field" and s[1][0] == "obj" and s[2] == n:
                return s[1]
    if v[0] == "with":
        s = v
        while s[0] == "with":
            s = s[1]
        if s[0] == "obj":
            # only sound if no placement field was updated
            w = v
            while w[0] == "with":
                if w[2][0] == "f":
                    inner = w[3]
                    if any_placement_update(inner):
                        return ("boardval", v)
                w = w[1]
            return s
    return ("boardval", v) if v[0] != "obj" else v


def any_placement_update(x):
    while isinstance(x, tuple) and x and x[0] == "with":
        if x[2][0] == "f" and x[2][1] in PLACEMENT_FIELDS:
            return True
        x = x[1]
    return False


def strip_nonplacement(x):
    while isinstance(x, tuple) and x and x[0] == "with" and x[2][0] == "f" and x[2][1] not in PLACEMENT_FIELDS:
        x = x[1]
    return x


def relrank(r, c):
    """Rank::relative_to(r, c) -> ('relrank', k, colour) with the colour un-negated"""
    if r[0] == "enum" and r[2] in RANKS:
        k = RANKS.index(r[2])
        if c[0] == "enum":
            return ("enum", r[1], RANKS[k if c[2] == "White" else 7 - k])
        if c[0] == "cnot":
            return ("relrank", 7 - k, c[1])
        return ("relrank", k, c)
    return ("call", T + "rank::Rank::relative_to", (r, c))
