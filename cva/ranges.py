"""I5a on expressions: interval bounds for reconstructed integer expressions, refined by the
branch decisions of the path they occur on.  Sound over-approximation: every rule returns an
interval containing all values the expression can take (None = no information)."""
from .sym import INT_BITS

def type_range(ty):
    if ty in INT_BITS:
        bits = INT_BITS[ty]
        if ty[0] == "u":
            return (0, (1 << bits) - 1)
        return (-(1 << (bits - 1)), (1 << (bits - 1)) - 1)
    if ty == "bool":
        return (0, 1)
    if ty == "char":
        return (0, 0x10FFFF)
    return None


class Ranger:
    table_max = {}

    def __init__(self, facts, types=None):
        self.f = facts
        self.types = types or {}
        self._field_ty = None

    def enum_n(self, ty):
        if ty is None:
            return None
        ty = ty.lstrip("&").replace("mut ", "").strip()
        a = self.f.adts.get(ty)
        if a and a["kind"] == "Enum":
            return len(a["variants"])
        if ty.startswith("core::option::Option<") or ty.startswith("core::result::Result<") or \
                ty.startswith("core::ops::control_flow::ControlFlow<"):
            return 2
        return None

    def field_type(self, name):
        if self._field_ty is None:
            m = {}
            for a in self.f.adts.values():
                for v in a["variants"]:
                    for fl in v["fields"]:
                        m.setdefault(fl["name"], set()).add(fl["ty"])
            self._field_ty = m
        s = self._field_ty.get(name)
        if s and len(s) == 1:
            return next(iter(s))
        return None

    def type_of(self, e):
        t = self.types.get(e)
        if t:
            return t
        k = e[0]
        if k == "int":
            return e[2]
        if k == "enum":
            return e[1]
        if k == "cast":
            return e[1]
        if k == "len":
            return "u32"
        if k == "call":
            fn = self.f.fns.get(e[1])
            if fn:
                return fn["output"]
        if k == "field":
            return self.field_type(e[2])
        return None

    def bounds(self, e, conds=()):
        self._conds = conds
        return self._bounds(e)

    def _bounds(self, e):
        b = self._structural(e)
        conds = getattr(self, "_conds", ())
        if not conds:
            return b
        # refinement by path conditions that compare e with constants
        for c in conds:
            ce, v = c[0], c[1]
            # (a | b | ..) & !(2^k - 1) == 0  (all bits from k up are clear): every operand lies in 0 .. 2^k - 1
            if ce[0] == "bin" and ce[1] in ("Eq", "Ne") and isinstance(v, int):
                z, m = (ce[2], ce[3]) if ce[3][0] == "int" and ce[3][1] == 0 else ((ce[3], ce[2]) if ce[2][0] == "int" and ce[2][1] == 0 else (None, None))
                if z is not None and z[0] == "bin" and z[1] == "BitAnd" and ((ce[1] == "Eq") == bool(v)):
                    mask, x = (z[2], z[3]) if z[2][0] == "int" else ((z[3], z[2]) if z[3][0] == "int" else (None, None))
                    if mask is not None:
                        kbits = None
                        for w in (8, 16, 32, 64):
                            mv = mask[1] & ((1 << w) - 1)
                            low = (1 << w) - mv
                            if mv and low & (low - 1) == 0 and (mask[1] == mv or mask[1] == mv - (1 << w)):
                                kbits = low.bit_length() - 1
                                break
                        if kbits is not None:
                            ops_ = []

                            def leaves(y):
                                if y[0] == "bin" and y[1] == "BitOr":
                                    leaves(y[2])
                                    leaves(y[3])
                                else:
                                    ops_.append(y)
                            leaves(x)
                            if e in ops_ or any(o[0] == "cast" and o[2] == e for o in ops_):
                                lo, hi = b if b else (None, None)
                                lo = 0 if lo is None else max(lo, 0)
                                hi = (1 << kbits) - 1 if hi is None else min(hi, (1 << kbits) - 1)
                                b = (lo, hi)
                                continue
            ns_ = None
            if ce[0] == "discr" and isinstance(v, int) and v == 1:
                ns_ = ce[1]
            elif ce[0] == "bin" and ce[1] in ("Eq", "Ne") and isinstance(v, int) and ce[2][0] == "discr" and ce[3][0] == "int" and ce[3][1] in (0, 1):
                if ((ce[1] == "Eq") == bool(v)) == (ce[3][1] == 1):
                    ns_ = ce[2][1]          # `discr == 1` holds / `discr == 0` fails
            if ns_ is not None and ns_[0] == "call" and ns_[1].endswith("BitBoard::next_square") and len(ns_[2]) == 1:
                # `set.next_square()` gave Some: the set's bits are not all zero
                S_ = ns_[2][0]
                if e == ("field", S_, "0") or S_ == ("bb", e):
                    lo, hi = b if b else (None, None)
                    tr_ = type_range(self.type_of(e) or "u64") or (0, (1 << 64) - 1)
                    b = (max(1, tr_[0] if lo is None else lo), tr_[1] if hi is None else hi)
                    continue
            if e[0] == "len" and ce[0] == "isempty" and ce[1] == e[1] and isinstance(v, int):
                lo, hi = b if b else (0, 64)
                b = (0, 0) if v == 1 else (max(lo, 1), hi)
                continue
            if ce == e and isinstance(v, int) and e[0] != "bin":
                # the expression itself was switched on: intersect with what is known (an empty interval, lo > hi, tells the
                # caller that the decisions of this path contradict each other)
                b = (v, v) if b is None else (max(b[0], v), min(b[1], v))
                continue
            if not isinstance(v, int) or ce[0] != "bin":
                continue
            op, x, y = ce[1], ce[2], ce[3]
            if v == 0:
                op = {"Lt": "Ge", "Ge": "Lt", "Le": "Gt", "Gt": "Le", "Eq": "Ne", "Ne": "Eq"}.get(op)
            if op is None:
                continue
            if y == e and x[0] == "int":
                x, y = y, x
                op = {"Lt": "Gt", "Gt": "Lt", "Le": "Ge", "Ge": "Le", "Eq": "Eq", "Ne": "Ne"}.get(op, op)
            if x == e and y[0] == "int":
                kk = y[1]
                lo, hi = b if b else (None, None)
                if op == "Lt":
                    hi = kk - 1 if hi is None else min(hi, kk - 1)
                elif op == "Le":
                    hi = kk if hi is None else min(hi, kk)
                elif op == "Gt":
                    lo = kk + 1 if lo is None else max(lo, kk + 1)
                elif op == "Ge":
                    lo = kk if lo is None else max(lo, kk)
                elif op == "Eq":
                    lo, hi = kk, kk
                elif op == "Ne":
                    # excluding an end point shrinks the interval
                    if lo is None or hi is None:
                        tr = type_range(self.type_of(e) or "")
                        if tr:
                            lo = tr[0] if lo is None else lo
                            hi = tr[1] if hi is None else hi
                    if lo is not None and lo == kk:
                        lo = kk + 1
                    if hi is not None and hi == kk:
                        hi = kk - 1
                if lo is not None and hi is not None:
                    b = (lo, hi)
                elif b is None and (lo is not None or hi is not None):
                    tr = type_range(self.type_of(e) or "")
                    if tr:
                        b = (tr[0] if lo is None else lo, tr[1] if hi is None else hi)
        return b

    def table_popcount_bound(self, s):
        """|S| <= the largest entry of a geometry table when S is contained in a look-up of that table
        (e.g. at most 6 squares lie between two squares); 64 otherwise"""
        best = 64
        terms = []

        def conj(x):
            if isinstance(x, tuple) and x and x[0] == "and":
                conj(x[1])
                conj(x[2])
            elif isinstance(x, tuple) and x and x[0] == "bool":
                pass
            else:
                terms.append(x)
        conj(s)
        for x in terms:
            if isinstance(x, tuple) and x and x[0] in ("between", "knight", "kingmoves", "pawnatt", "line") or \
                    (isinstance(x, tuple) and x and x[0] == "call" and x[1].startswith("cozy_chess::moves::get_")):
                nm = {"between": "get_between_rays", "knight": "get_knight_moves", "kingmoves": "get_king_moves", "pawnatt": "get_pawn_attacks",
                      "line": "get_line_rays"}.get(x[0]) or x[1].rsplit("::", 1)[-1]
                b = self.table_max.get(nm)
                if b is None:
                    b = 64
                    for k_, c_ in self.f.consts.items():
                        if k_.startswith("cozy_chess::moves::%s::" % nm) and "dec" in c_:
                            def walk(d):
                                if isinstance(d, int):
                                    return bin(d).count("1")
                                if isinstance(d, list):
                                    return max([walk(y) for y in d] or [0])
                                if isinstance(d, dict) and "fields" in d:
                                    return max([walk(v) for _, v in d["fields"]] or [0])
                                return 0
                            b = min(b, walk(c_["dec"]))
                    self.table_max[nm] = b
                best = min(best, b)
        return best

    def _structural(self, e):
        k = e[0]
        inv = getattr(self, "invariants", None)
        if inv and e in inv:
            return inv[e]           # a field whose range is an invariant of its type (established elsewhere, named by the caller)
        if k == "int":
            return (e[1], e[1])
        if k == "discr":
            n = self.enum_n(self.type_of(e[1]))
            if n:
                return (0, n - 1)
            return None
        if k == "enum":
            return None
        if k == "len":
            return (0, self.table_popcount_bound(e[1]))
        if k == "call" and e[1].rsplit("::", 1)[-1] in ("trailing_zeros", "leading_zeros", "count_ones", "count_zeros") and len(e[2]) == 1:
            hi = 64
            tail = e[1].rsplit("::", 1)[-1]
            if tail in ("trailing_zeros", "leading_zeros"):
                # a non-zero argument has a set bit: at most 63 zeros before it
                x = e[2][0]
                for c in getattr(self, "_conds", ()):
                    ce, v = c[0], c[1]
                    if ce[0] == "bin" and ce[1] in ("Eq", "Ne") and isinstance(v, int) and x in (ce[2], ce[3]):
                        o = ce[3] if ce[2] == x else ce[2]
                        if o[0] == "int" and o[1] == 0 and ((ce[1] == "Ne") == bool(v)):
                            hi = 63
                    if ce[0] == "isempty" and isinstance(v, int) and v == 0 and (ce[1] == x or ("field", ce[1], "0") == x or ce[1] == ("bb", x)):
                        hi = 63
            return (0, hi)
        if k == "cast":
            inner = self._bounds(e[2])
            tr = type_range(e[1])
            if inner and tr and tr[0] <= inner[0] and inner[1] <= tr[1]:
                return inner
            return tr
        if k == "bin":
            op = e[1]
            a = self._bounds(e[2])
            b = self._bounds(e[3])
            ty = self.type_of(e[2]) or self.type_of(e)
            tr = type_range(ty) if ty else None
            r = None
            if op in ("Lt", "Le", "Gt", "Ge", "Eq", "Ne"):
                return (0, 1)
            if a and b:
                if op == "Add":
                    r = (a[0] + b[0], a[1] + b[1])
                elif op == "Sub":
                    r = (a[0] - b[1], a[1] - b[0])
                elif op == "Mul" and a[0] >= 0 and b[0] >= 0:
                    r = (a[0] * b[0], a[1] * b[1])
                elif op == "BitAnd" and a[0] >= 0 and b[0] >= 0:
                    r = (0, min(a[1], b[1]))
                elif op in ("BitOr", "BitXor") and a[0] >= 0 and b[0] >= 0:
                    hi = (1 << max(a[1].bit_length(), b[1].bit_length())) - 1
                    r = (0, hi)
                elif op == "Rem" and a[0] >= 0 and b[0] > 0:
                    r = (0, min(a[1], b[1] - 1))
                elif op == "Div" and a[0] >= 0 and b[0] > 0:
                    r = (a[0] // b[1], a[1] // b[0])
                elif op == "Shr" and a[0] >= 0 and b[0] >= 0:
                    r = (a[0] >> b[1], a[1] >> b[0])
                elif op == "Shl" and a[0] >= 0 and b[0] >= 0 and b[1] < 128:
                    r = (a[0] << b[0], a[1] << b[1])
            elif op == "Rem" and b and b[0] > 0 and tr and tr[0] >= 0:
                r = (0, b[1] - 1)
            elif op == "BitAnd":
                for x in (a, b):
                    if x and x[0] >= 0:
                        r = (0, x[1])
            elif op == "Shr" and b and b[0] >= 0 and tr and tr[0] >= 0:
                r = (0, tr[1] >> b[0])
            if r is not None:
                if tr and (r[0] < tr[0] or r[1] > tr[1]):
                    return tr        # may wrap: anything of the type
                return r
            return tr
        t = self.type_of(e)
        if t:
            tr = type_range(t)
            if tr:
                return tr
        return None

    def no_overflow(self, ovf, conds=()):
        """('ovf', op, a, b, ty): can the checked operation overflow?  True = proven safe"""
        _, op, a, b, ty = ovf
        if op in ("Shl", "Shr"):
            bb = self.bounds(b, conds)
            bits = INT_BITS.get(ty)
            return bb is not None and bits is not None and 0 <= bb[0] and bb[1] < bits
        tr = type_range(ty)
        ba = self.bounds(a, conds)
        bb = self.bounds(b, conds)
        if not (tr and ba and bb):
            return False
        if op == "Add":
            r = (ba[0] + bb[0], ba[1] + bb[1])
        elif op == "Sub":
            r = (ba[0] - bb[1], ba[1] - bb[0])
        elif op == "Mul":
            c = [ba[0] * bb[0], ba[0] * bb[1], ba[1] * bb[0], ba[1] * bb[1]]
            r = (min(c), max(c))
        else:
            return False
        return tr[0] <= r[0] and r[1] <= tr[1]
