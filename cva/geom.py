"""I6: independent definitions of board geometry (the specification side of the audits).
Squares are 0..63 = rank*8+file, a bitboard has bit i set for square i; colours 0=White 1=Black."""

M64 = (1 << 64) - 1
FILES = "abcdefgh"
RANK_NAMES = ["First", "Second", "Third", "Fourth", "Fifth", "Sixth", "Seventh", "Eighth"]
FILE_NAMES = ["A", "B", "C", "D", "E", "F", "G", "H"]
PIECE_NAMES = ["Pawn", "Knight", "Bishop", "Rook", "Queen", "King"]


def sq(f, r):
    return r * 8 + f


def fr(s):
    return s & 7, s >> 3


def bit(s):
    return 1 << s


def on_board(f, r):
    return 0 <= f < 8 and 0 <= r < 8


def sqname(s):
    return FILES[s & 7] + str((s >> 3) + 1)


KNIGHT_D = [(1, 2), (2, 1), (2, -1), (1, -2), (-1, -2), (-2, -1), (-2, 1), (-1, 2)]
KING_D = [(0, 1), (1, 1), (1, 0), (1, -1), (0, -1), (-1, -1), (-1, 0), (-1, 1)]
ROOK_D = [(1, 0), (-1, 0), (0, 1), (0, -1)]
BISHOP_D = [(1, 1), (1, -1), (-1, 1), (-1, -1)]


def leaper(s, deltas):
    f, r = fr(s)
    b = 0
    for df, dr in deltas:
        if on_board(f + df, r + dr):
            b |= bit(sq(f + df, r + dr))
    return b


def knight_attacks(s):
    return leaper(s, KNIGHT_D)


def king_attacks(s):
    return leaper(s, KING_D)


def pawn_attacks(s, color):
    d = 1 if color == 0 else -1
    return leaper(s, [(1, d), (-1, d)])


def slide(s, occ, deltas):
    """ray walk up to and including the first occupied square"""
    f0, r0 = fr(s)
    b = 0
    for df, dr in deltas:
        f, r = f0 + df, r0 + dr
        while on_board(f, r):
            t = sq(f, r)
            b |= bit(t)
            if occ >> t & 1:
                break
            f += df
            r += dr
    return b


def rook_moves(s, occ):
    return slide(s, occ, ROOK_D)


def bishop_moves(s, occ):
    return slide(s, occ, BISHOP_D)


def rook_rays(s):
    return slide(s, 0, ROOK_D)


def bishop_rays(s):
    return slide(s, 0, BISHOP_D)


def aligned_dir(a, b):
    fa, ra = fr(a)
    fb, rb = fr(b)
    df, dr = fb - fa, rb - ra
    if a == b:
        return None
    if df == 0 or dr == 0 or abs(df) == abs(dr):
        return ((df > 0) - (df < 0), (dr > 0) - (dr < 0))
    return None


def between(a, b):
    d = aligned_dir(a, b)
    if d is None:
        return 0
    f, r = fr(a)
    f += d[0]
    r += d[1]
    out = 0
    while sq(f, r) != b:
        out |= bit(sq(f, r))
        f += d[0]
        r += d[1]
    return out


def line(a, b):
    """the full line through two aligned distinct squares, edge to edge, including both"""
    d = aligned_dir(a, b)
    if d is None:
        return 0
    out = bit(a)
    for sgn in (1, -1):
        f, r = fr(a)
        f += sgn * d[0]
        r += sgn * d[1]
        while on_board(f, r):
            out |= bit(sq(f, r))
            f += sgn * d[0]
            r += sgn * d[1]
    return out


def rook_relevant(s):
    """ray squares whose occupancy can change the attack set: ray minus the far edge"""
    f0, r0 = fr(s)
    b = 0
    for df, dr in ROOK_D:
        f, r = f0 + df, r0 + dr
        while on_board(f + df, r + dr):
            b |= bit(sq(f, r))
            f += df
            r += dr
    return b


def bishop_relevant(s):
    f0, r0 = fr(s)
    b = 0
    for df, dr in BISHOP_D:
        f, r = f0 + df, r0 + dr
        while on_board(f + df, r + dr):
            b |= bit(sq(f, r))
            f += df
            r += dr
    return b


def subsets(mask):
    """all subsets of mask (carry-rippler), as an iterator"""
    s = 0
    while True:
        yield s
        s = (s - mask) & mask
        if s == 0:
            return


def popcount(x):
    return bin(x).count("1")


def pext(x, mask):
    out = 0
    k = 0
    m = mask
    while m:
        low = m & -m
        if x & low:
            out |= 1 << k
        k += 1
        m &= m - 1
    return out


def rank_bb(r):
    return 0xFF << (8 * r)


def file_bb(f):
    return 0x0101010101010101 << f


def pawn_pushes(s, color, occ):
    """single push if empty; double push from the colour's second rank if both empty"""
    f, r = fr(s)
    d = 1 if color == 0 else -1
    out = 0
    r1 = r + d
    if not on_board(f, r1):
        return 0
    t1 = sq(f, r1)
    if occ >> t1 & 1:
        return 0
    out |= bit(t1)
    start = 1 if color == 0 else 6
    if r == start:
        t2 = sq(f, r + 2 * d)
        if not (occ >> t2 & 1):
            out |= bit(t2)
    return out


def sq_index(name):
    """'E4' / 'e4' -> 0..63"""
    return "abcdefgh".index(name[0].lower()) + 8 * (int(name[1]) - 1)


def sq_name(i):
    return FILES[i & 7] + str((i >> 3) + 1)
