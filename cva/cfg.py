"""CFG utilities over fact bodies: dominators, post-dominators, natural loops, reachability."""


def rpo(body, entry=0):
    seen = set()
    order = []
    stack = [(entry, iter(body.succs(entry)))]
    seen.add(entry)
    while stack:
        b, it = stack[-1]
        adv = False
        for s in it:
            if s not in seen:
                seen.add(s)
                stack.append((s, iter(body.succs(s))))
                adv = True
                break
        if not adv:
            order.append(b)
            stack.pop()
    order.reverse()
    return order


def dominators(body, entry=0):
    """Return idom dict (entry maps to itself); unreachable blocks absent."""
    order = rpo(body, entry)
    idx = {b: i for i, b in enumerate(order)}
    preds = body.preds()
    idom = {entry: entry}

    def intersect(a, b):
        while a != b:
            while idx[a] > idx[b]:
                a = idom[a]
            while idx[b] > idx[a]:
                b = idom[b]
        return a

    changed = True
    while changed:
        changed = False
        for b in order[1:]:
            new = None
            for p in preds[b]:
                if p in idom:
                    new = p if new is None else intersect(p, new)
            if new is not None and idom.get(b) != new:
                idom[b] = new
                changed = True
    return idom


def dominates(idom, a, b):
    """a dominates b?"""
    if b not in idom:
        return False
    while True:
        if a == b:
            return True
        nb = idom[b]
        if nb == b:
            return False
        b = nb


def exits(body):
    return [i for i, blk in enumerate(body.blocks)
            if blk["term"]["k"] == "return" and not blk["cleanup"]]


def postdominators(body):
    """ipdom over the reverse CFG with a virtual exit joining all return blocks.
    Returns dict block -> ipdom (virtual exit is -1)."""
    n = len(body.blocks)
    succs = {b: body.succs(b) for b in range(n)}
    rets = [b for b in range(n) if body.blocks[b]["term"]["k"] == "return"]
    rsucc = {b: [] for b in range(n)}
    rsucc[-1] = list(rets)
    rpred = {b: [] for b in range(n)}
    rpred[-1] = []
    for b in range(n):
        for s in succs[b]:
            rsucc[s].append(b)
            rpred[b].append(s)
    for r in rets:
        rpred[r].append(-1)
    # rpo on reverse graph
    seen = {-1}
    order = []
    stack = [(-1, iter(rsucc[-1]))]
    while stack:
        b, it = stack[-1]
        adv = False
        for s in it:
            if s not in seen:
                seen.add(s)
                stack.append((s, iter(rsucc[s])))
                adv = True
                break
        if not adv:
            order.append(b)
            stack.pop()
    order.reverse()
    idx = {b: i for i, b in enumerate(order)}
    ipdom = {-1: -1}

    def intersect(a, b):
        while a != b:
            while idx[a] > idx[b]:
                a = ipdom[a]
            while idx[b] > idx[a]:
                b = ipdom[b]
        return a

    changed = True
    while changed:
        changed = False
        for b in order[1:]:
            new = None
            for p in rpred[b]:
                if p in ipdom:
                    new = p if new is None else intersect(p, new)
            if new is not None and ipdom.get(b) != new:
                ipdom[b] = new
                changed = True
    return ipdom


def reach(body, starts, kill=(), include_start=True):
    """Blocks reachable from `starts` without entering blocks in `kill`."""
    kill = set(kill)
    seen = set()
    work = []
    for s in starts:
        if include_start:
            if s not in kill:
                work.append(s)
        else:
            for t in body.succs(s):
                if t not in kill:
                    work.append(t)
    while work:
        b = work.pop()
        if b in seen:
            continue
        seen.add(b)
        for t in body.succs(b):
            if t not in kill and t not in seen:
                work.append(t)
    return seen


def back_edges(body):
    idom = dominators(body)
    out = []
    for b in idom:
        for s in body.succs(b):
            if s in idom and dominates(idom, s, b):
                out.append((b, s))
    return out


def natural_loops(body):
    """header -> set of blocks in the loop"""
    preds = body.preds()
    loops = {}
    for (t, h) in back_edges(body):
        blk = loops.setdefault(h, {h})
        work = [t]
        while work:
            x = work.pop()
            if x in blk:
                continue
            blk.add(x)
            work.extend(preds[x])
    return loops
