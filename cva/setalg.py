"""Boolean set algebra over opaque atoms: canonical forms and equivalence.

A BitBoard-valued expression built from and/or/xor/not over atoms (any other expression:
a getter application, a table look-up, a parameter) denotes, square by square, a Boolean
function of the atoms' membership bits.  Two expressions are equivalent as sets for all
boards if their truth tables over the union of atoms agree (sound; complete when the atoms
are independent).  Optional axioms (Boolean formulas over atoms known to hold, e.g. an
attack set is contained in the empty-board ray) restrict the rows compared.  The same
machinery compares path guards (conditions as atoms)."""

FULL = (1 << 64) - 1
SETOPS = ("and", "or", "xor", "not")


def is_setop(e):
    return isinstance(e, tuple) and e and e[0] in SETOPS


def norm_atom(e):
    """canonicalise set-valued arguments nested inside an atom"""
    if not isinstance(e, tuple) or not e:
        return e
    if e[0] == "bbconst":
        if e[1] in (0, FULL):
            return canon(e)
        s = split_const(e)
        return e if s is e else canon(s)
    if is_setop(e):
        return canon(e)
    r = tuple(norm_atom(x) if isinstance(x, tuple) else x for x in e)
    if r[0] in ("between", "line") and len(r) == 3 and repr(r[2]) < repr(r[1]):
        # symmetric in their arguments (C05 audits the tables against symmetric definitions)
        r = (r[0], r[2], r[1])
    return r


def split_const(e):
    """non-trivial constants with more than half of the bits set are written as complements, so that
    BB(!M) and !BB(M) share one atom"""
    if isinstance(e, tuple) and e and e[0] == "bbconst" and e[1] not in (0, FULL) and bin(e[1]).count("1") > 32:
        return ("not", ("bbconst", FULL & ~e[1]))
    return e


def collect_atoms(e, out):
    e = split_const(e)
    if is_setop(e):
        for x in e[1:]:
            collect_atoms(x, out)
    elif e[0] == "bbconst" and e[1] in (0, FULL):
        pass
    else:
        a = norm_atom(e)
        if a not in out:
            out.append(a)


def evaluate(e, cols, ones):
    e = split_const(e)
    k = e[0]
    if k == "and":
        return evaluate(e[1], cols, ones) & evaluate(e[2], cols, ones)
    if k == "or":
        return evaluate(e[1], cols, ones) | evaluate(e[2], cols, ones)
    if k == "xor":
        return evaluate(e[1], cols, ones) ^ evaluate(e[2], cols, ones)
    if k == "not":
        return ones & ~evaluate(e[1], cols, ones)
    if k == "bbconst" and e[1] == 0:
        return 0
    if k == "bbconst" and e[1] == FULL:
        return ones
    return cols[norm_atom(e)]


def columns(atoms):
    n = len(atoms)
    rows = 1 << n
    ones = (1 << rows) - 1
    cols = {}
    for i, a in enumerate(atoms):
        # column i: bit r set iff bit i of r is set
        block = (1 << (1 << i)) - 1          # 2^i ones
        period = 1 << (i + 1)
        col = 0
        pattern = block << (1 << i)
        # repeat pattern across rows
        reps = rows // period
        unit = pattern
        col = 0
        for r in range(reps):
            col |= unit << (r * period)
        cols[a] = col
    return cols, ones


def truth(e, atoms):
    if len(atoms) > 18:
        raise ValueError("too many atoms (%d) for a truth table" % len(atoms))
    cols, ones = columns(atoms)
    return evaluate(e, cols, ones), ones


PIECE_T = "cozy_chess_types::piece::Piece"


def pre(e):
    """the square of side c's king, as a set, is colours(c) & kings (exactly one king per side on every board the
    library hands out, C06): written so, `occupied ^ bb(king)`, `occupied - bb(king)` and
    `occupied - colored_pieces(c, King)` are the same expression"""
    if not isinstance(e, tuple) or not e:
        return e
    if e[0] == "bbof" and isinstance(e[1], tuple) and e[1] and e[1][0] == "king" and len(e[1]) == 3:
        S, c = e[1][1], e[1][2]
        return ("and", ("get", "colors", S, c), ("get", "pieces", S, ("enum", PIECE_T, "King")))
    if e[0] == "bool":
        return e
    return tuple(pre(x) if isinstance(x, tuple) else x for x in e)


def builtin_care(atoms, cols, ones):
    """rows of the truth table that respect what is known about the atoms themselves: the square of a side's king is
    one of that side's pieces, is a king, and is occupied (every accepted board has exactly one king per side, C06)"""
    care = ones
    for a in atoms:
        if isinstance(a, tuple) and len(a) == 4 and a[0] == "get" and a[1] == "colors" and not (isinstance(a[3], tuple) and a[3] and a[3][0] == "enum"):
            both = [x for x in atoms if isinstance(x, tuple) and len(x) == 4 and x[0] == "get" and x[1] == "colors" and x[2] == a[2]
                    and isinstance(x[3], tuple) and x[3] and x[3][0] == "enum"]
            if len(both) == 2:
                care &= ones & (~cols[a] | cols[both[0]] | cols[both[1]])
        if isinstance(a, tuple) and a and a[0] == "bbof" and isinstance(a[1], tuple) and a[1] and a[1][0] == "king":
            S, c = a[1][1], a[1][2]
            ka = cols[a]
            own = ("get", "colors", S, c)
            if own in cols:
                care &= ones & (~ka | cols[own])
            kp = [x for x in atoms if isinstance(x, tuple) and len(x) == 4 and x[0] == "get" and x[1] == "pieces" and x[2] == S
                  and isinstance(x[3], tuple) and x[3][0] == "enum" and x[3][2] == "King"]
            for x in kp:
                care &= ones & (~ka | cols[x])
            both = [x for x in atoms if isinstance(x, tuple) and len(x) == 4 and x[0] == "get" and x[1] == "colors" and x[2] == S
                    and isinstance(x[3], tuple) and x[3][0] == "enum"]
            if len(both) == 2:
                care &= ones & (~ka | cols[both[0]] | cols[both[1]])
    # the square (F, R) stands on rank R and on file F
    for a in atoms:
        if isinstance(a, tuple) and a and a[0] == "bbof" and isinstance(a[1], tuple) and a[1] and a[1][0] == "sq" and len(a[1]) == 3:
            for b in atoms:
                if isinstance(b, tuple) and len(b) == 2 and ((b[0] == "rankbb" and b[1] == a[1][2]) or (b[0] == "filebb" and b[1] == a[1][1])):
                    care &= ones & (~cols[a] | cols[b])
    # two squares known to differ are never both "the square at hand": a member of pawn_attacks(sq(F, _), _) does not
    # stand on file F (pawns capture onto the neighbouring files)
    singles = [a for a in atoms if isinstance(a, tuple) and a and a[0] == "bbof" and isinstance(a[1], tuple) and a[1]]
    for i, a in enumerate(singles):
        for b in singles[i + 1:]:
            for x, y in ((a[1], b[1]), (b[1], a[1])):
                if x[0] == "elem" and y[0] == "sq" and off_file(x[1], y[1]):
                    care &= ones & ~(cols[a] & cols[b])
    return care


def expand_bool(e):
    """a canonical ('bool', atoms, table) node written out as a set expression again"""
    if not (isinstance(e, tuple) and e and e[0] == "bool"):
        return e
    atoms, tt = e[1], e[2]
    n = len(atoms)
    out = None
    for r in range(1 << n):
        if not (tt >> r) & 1:
            continue
        term = None
        for i, a in enumerate(atoms):
            lit = a if (r >> i) & 1 else ("not", a)
            term = lit if term is None else ("and", term, lit)
        if term is None:
            return ("bbconst", FULL)
        out = term if out is None else ("or", out, term)
    return out if out is not None else ("bbconst", 0)


def off_file(S, F):
    """every member of the set S is known to stand off file F: S is contained in pawn_attacks(sq(F, r), c) for some r, c"""
    def conj(e):
        if isinstance(e, tuple) and e and e[0] == "and":
            return conj(e[1]) + conj(e[2])
        return [e]
    try:
        for t in subterms_(S, lambda z: isinstance(z, tuple) and z and z[0] == "pawnatt" and isinstance(z[1], tuple) and z[1] and z[1][0] == "sq" and z[1][1] == F):
            if subset(expand_bool(S), t):
                return True
    except Exception:
        pass
    return False


def subterms_(e, pred, out=None):
    if out is None:
        out = []
    if isinstance(e, tuple):
        if pred(e):
            out.append(e)
        for x in e:
            subterms_(x, pred, out)
    return out


def canon(e):
    """canonical form ('bool', atoms, table) with irrelevant atoms removed; atoms themselves
    are returned unchanged (after normalising nested set arguments)"""
    e = pre(e)
    if not is_setop(e):
        if e[0] == "bbconst":
            if e[1] == 0:
                return ("bool", (), 0)
            if e[1] == FULL:
                return ("bool", (), 1)
            s = split_const(e)
            if s is e:
                return e
            e = s
        else:
            return norm_atom(e)
    atoms = []
    collect_atoms(e, atoms)
    atoms.sort(key=repr)
    tt, ones = truth(e, atoms)
    care = None
    if any(isinstance(a, tuple) and a and a[0] in ("bbof", "get") for a in atoms):
        cols_, ones_ = columns(atoms)
        care = builtin_care(atoms, cols_, ones_)
        tt &= care
    # drop atoms the function does not depend on
    changed = True
    while changed:
        changed = False
        for i, a in enumerate(atoms):
            if not depends(tt, len(atoms), i):
                tt = project_out(tt, len(atoms), i)
                atoms = atoms[:i] + atoms[i + 1:]
                care = None
                changed = True
                break
        if not changed and care is not None and care != ones:
            # an atom the function depends on only through rows that cannot occur (e.g. `bb(sq(F, R)) & rank_bb(R)`:
            # the square is on that rank anyway): give the impossible rows the value of their possible sibling
            for i, a in enumerate(atoms):
                sm = smooth(tt, care, len(atoms), i)
                if sm is not None and not depends(sm, len(atoms), i):
                    tt = project_out(sm, len(atoms), i)
                    atoms = atoms[:i] + atoms[i + 1:]
                    changed = True
                    break
            if changed:
                cols_, ones_ = columns(atoms)
                care = builtin_care(atoms, cols_, ones_)
                ones = ones_
                tt &= care
    if len(atoms) == 1 and tt == 0b10:
        return atoms[0]
    return ("bool", tuple(atoms), tt)


def smooth(tt, care, n, i):
    """tt with every impossible row (outside `care`) given the value of the row that differs from it in atom i alone,
    when that row is possible"""
    out = tt
    bit = 1 << i
    for r in range(1 << n):
        if not (care >> r) & 1:
            s = r ^ bit
            if (care >> s) & 1:
                if (tt >> s) & 1:
                    out |= 1 << r
                else:
                    out &= ~(1 << r)
    return out


def depends(tt, n, i):
    rows = 1 << n
    for r in range(rows):
        if not (r >> i) & 1:
            if ((tt >> r) & 1) != ((tt >> (r | (1 << i))) & 1):
                return True
    return False


def project_out(tt, n, i):
    out = 0
    k = 0
    for r in range(1 << n):
        if not (r >> i) & 1:
            if (tt >> r) & 1:
                out |= 1 << k
            k += 1
    return out


def equivalent(a, b, axioms=()):
    """are set expressions a and b equal for every valuation of the atoms satisfying the axioms?"""
    a, b = pre(a), pre(b)
    atoms = []
    collect_atoms(a, atoms)
    collect_atoms(b, atoms)
    for ax in axioms:
        collect_atoms(ax, atoms)
    atoms.sort(key=repr)
    ta, ones = truth(a, atoms)
    tb, _ = truth(b, atoms)
    care = ones
    for ax in axioms:
        t, _ = truth(ax, atoms)
        care &= t
    if any(isinstance(x, tuple) and x and x[0] in ("bbof", "get") for x in atoms):
        cols_, ones_ = columns(atoms)
        care &= builtin_care(atoms, cols_, ones_)
    return ((ta ^ tb) & care) == 0


def difference(a, b):
    """human-readable witness: an assignment of atoms on which a and b differ"""
    atoms = []
    collect_atoms(a, atoms)
    collect_atoms(b, atoms)
    atoms.sort(key=repr)
    ta, ones = truth(a, atoms)
    tb, _ = truth(b, atoms)
    d = ta ^ tb
    if not d:
        return None
    r = (d & -d).bit_length() - 1
    return {"atoms_true": [x for i, x in enumerate(atoms) if (r >> i) & 1],
            "atoms_false": [x for i, x in enumerate(atoms) if not (r >> i) & 1],
            "left": (ta >> r) & 1, "right": (tb >> r) & 1}


def subset(a, b):
    """a ⊆ b for all valuations"""
    return equivalent(("and", a, ("not", b)), ("bbconst", 0))


# ------------------------------------------------------------------ conditions (guards)

def cond_atom(c):
    """normalise a branch condition (expr, value) into (atom, polarity):
    the path took the edge on which `atom` is `polarity`"""
    e, v = c[0], c[1]
    if isinstance(v, tuple):       # ('not', values) on a two-valued discriminant
        vals = v[1]
        if set(vals) == {1}:
            v = 0
        elif set(vals) == {0}:
            v = 1
        else:
            return (norm_atom(e), v), True
    pol = bool(v)
    while True:
        if e[0] == "un" and e[1] == "Not":
            e = e[2]
            pol = not pol
            continue
        if e[0] == "bin" and e[1] == "Ne":
            e = ("bin", "Eq", e[2], e[3])
            pol = not pol
            continue
        if e[0] == "bin" and e[1] == "Eq" and e[3] == ("int", 0, "bool"):
            e = e[2]
            pol = not pol
            continue
        break
    if e[0] == "has":
        # has(X, s)  ==  not isempty(X & bb(s))
        e = ("isempty", ("and", e[1], ("bbof", e[2])))
        pol = not pol
    if e[0] == "isempty":
        return ("isempty", canon(e[1])), pol
    return norm_atom(e), pol


def guard_formula(paths_conds):
    """DNF over paths: list of lists of (atom, polarity) -> (atoms, truth table)"""
    atoms = []
    for conds in paths_conds:
        for a, p in conds:
            if a not in atoms:
                atoms.append(a)
    atoms.sort(key=repr)
    n = len(atoms)
    if n > 16:
        raise ValueError("too many guard atoms")
    idx = {a: i for i, a in enumerate(atoms)}
    tt = 0
    for r in range(1 << n):
        for conds in paths_conds:
            if all(((r >> idx[a]) & 1) == int(p) for a, p in conds):
                tt |= 1 << r
                break
    return atoms, tt


def guards_equivalent(pc_a, pc_b, implications=()):
    """Compare two DNFs of (atom, polarity) lists.  implications: pairs (x, y) of atoms with x ⇒ y
    known to hold (rows violating them are don't-care)."""
    atoms = []
    for pcs in (pc_a, pc_b):
        for conds in pcs:
            for a, p in conds:
                if a not in atoms:
                    atoms.append(a)
    for x, y in implications:
        for a in (x, y):
            if a not in atoms:
                atoms.append(a)
    atoms.sort(key=repr)
    n = len(atoms)
    if n > 16:
        raise ValueError("too many guard atoms")
    idx = {a: i for i, a in enumerate(atoms)}

    def holds(pcs, r):
        return any(all(((r >> idx[a]) & 1) == int(p) for a, p in conds) for conds in pcs)
    for r in range(1 << n):
        if any(((r >> idx[x]) & 1) and not ((r >> idx[y]) & 1) for x, y in implications):
            continue
        if holds(pc_a, r) != holds(pc_b, r):
            return False, {"true": [a for a in atoms if (r >> idx[a]) & 1],
                           "false": [a for a in atoms if not (r >> idx[a]) & 1],
                           "code": holds(pc_a, r), "spec": holds(pc_b, r)}
    return True, None


def membership3(target, facts):
    """three-valued: is a square in `target`, given facts [(set expression, bool)] about the same square's membership
    in other sets?  Decided over the atoms' membership bits: true/false if all assignments consistent with the facts
    agree, None otherwise (or when the facts are contradictory)."""
    def expr(x):
        from .rules.movegen import bool_to_expr
        return bool_to_expr(x) if isinstance(x, tuple) and x and x[0] == "bool" else x
    target = pre(expr(target))
    facts = [(pre(expr(s)), v) for s, v in facts]
    atoms = []
    collect_atoms(target, atoms)
    for s, _ in facts:
        collect_atoms(s, atoms)
    if len(atoms) > 14:
        return None
    cols, ones = columns(atoms)
    ok = ones
    for s, v in facts:
        tv = evaluate(s, cols, ones)
        ok &= tv if v else (ones & ~tv)
    if ok == 0:
        return None
    tt = evaluate(target, cols, ones)
    if ok & ~tt == 0:
        return True
    if ok & tt == 0:
        return False
    return None
